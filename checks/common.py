"""Helpers shared by the optical checks: build lentil objects from case
descriptors and compare a lentil wavefront with the reference model."""
import numpy as np
from hypothesis import strategies as st

import lentil
from vlib import gen
from vlib.ref import dft as rdft
from vlib.ref import plane_model as pm
from vlib.runner import Violation

# the check's own calls are issued with keywords or positionally in the documented order (vlib/callforms.py)
from vlib import callforms as _cf
lentil = _cf.proxy(lentil)


def as_ps(v):
    """pixel scale argument as given to lentil (scalar or tuple)"""
    return tuple(v) if isinstance(v, (list, tuple)) else v


def ps_pair(v):
    return tuple(np.broadcast_to(np.asarray(v, dtype=float), (2,)).tolist())


def shape_arg(v):
    return tuple(v) if isinstance(v, (list, tuple)) else v


def shape_pair(v):
    return tuple(int(x) for x in np.broadcast_to(np.asarray(v), (2,)))


@st.composite
def scalar_or_pair(draw, pair):
    """present a per-axis quantity either as a scalar (when isotropic) or as a pair"""
    if pair[0] == pair[1] and draw(st.booleans()):
        return pair[0]
    return [pair[0], pair[1]]


def max_abs(a):
    return float(np.max(np.abs(a))) if np.size(a) else 0.0


def compare_field(oracle, got, ref, tol, sel=None, what=""):
    """got: complex ndarray from lentil; ref: clongdouble reference on the same grid;
    sel: boolean array of evaluated samples (None = all). Outside sel must be exactly 0."""
    if got.shape != ref.shape:
        raise Violation(oracle + ".shape", f"{what} field shape {got.shape}, expected {ref.shape}")
    if sel is None:
        sel = np.ones(ref.shape, dtype=bool)
    if np.any(got[~sel] != 0):
        n = int(np.count_nonzero(got[~sel]))
        raise Violation(oracle + ".outside", f"{what} {n} samples outside the evaluated window are non-zero")
    err = np.abs(got.astype(rdft.CLD) - ref) * sel
    e = float(np.max(err)) if err.size else 0.0
    if not e <= tol:
        idx = np.unravel_index(int(np.argmax(err)), err.shape)
        raise Violation(oracle + ".value", f"{what} max|field - Fraunhofer sum| = {e:.3e} > tol {tol:.3e} at {idx} "
                                           f"(peak {max_abs(ref):.3e})")


# ---------------------------------------------------------------------------
# wavefronts made of several partially overlapping output fields ("chips")

@st.composite
def chips_case(draw, tier="quick"):
    """k >= 2 stripe segments, each with its own tilt, propagated onto small windows so that the
    output wavefront holds several fields whose extents overlap partially, bridge, or are disjoint."""
    k = draw(st.integers(2, 5))
    n = draw(st.integers(2, 4)) * k
    m = draw(st.integers(3, 8))
    vertical = draw(st.booleans())
    shape = (m, n) if vertical else (n, m)
    labels = np.zeros(shape, dtype=int)
    for j in range(k):
        if vertical:
            labels[:, j * (n // k):(j + 1) * (n // k)] = j + 1
        else:
            labels[j * (n // k):(j + 1) * (n // k), :] = j + 1
    os_ = draw(st.integers(1, 2))
    out_shape = (draw(st.integers(10, 16)), draw(st.integers(10, 16)))
    win = (draw(st.integers(2, 5)), draw(st.integers(2, 5)))
    # chip centres in output samples: drawn on a line or freely, spread comparable to the chip size
    line = draw(st.booleans())
    cen = []
    for j in range(k):
        a = draw(st.integers(-6, 6)) + draw(st.sampled_from([0.0, 0.25, 0.5]))
        b = 0.0 if line else draw(st.integers(-6, 6)) + draw(st.sampled_from([0.0, 0.3]))
        cen.append([a, b] if draw(st.booleans()) or not line else [a, b])
    if line and draw(st.booleans()):
        cen = [[c[1], c[0]] for c in cen]
    seed = draw(st.integers(0, 2**31 - 1))
    return {"labels": labels, "k": k, "oversample": os_, "out_shape": list(out_shape), "win": list(win),
            "centres": cen, "seed": seed, "wavelength": 1e-6, "z": 2.0, "dx": 1e-3,
            "du": [draw(st.sampled_from([5e-6, 8e-6])), draw(st.sampled_from([5e-6, 1e-5]))]}


def build_chips(case):
    """returns the propagated lentil wavefront for a chips_case"""
    labels = case["labels"]
    k = case["k"]
    shape = labels.shape
    wl, z, os_, dx, du = case["wavelength"], case["z"], case["oversample"], case["dx"], tuple(case["du"])
    rng = np.random.default_rng(case["seed"])
    amp = rng.uniform(0.5, 1.5, size=shape)
    opd = np.zeros(shape)
    r = (np.arange(shape[0]) - shape[0] // 2)[:, None] * dx
    c = (np.arange(shape[1]) - shape[1] // 2)[None, :] * dx
    for j in range(k):
        s_r, s_c = case["centres"][j]
        tx = s_r * du[0] / (z * os_)
        ty = -s_c * du[1] / (z * os_)
        opd = opd + (r * tx - c * ty) * (labels == j + 1)
    opd = opd + 0.02 * wl * rng.normal(size=shape) * (labels > 0)
    cube = np.stack([(labels == v).astype(int) for v in range(1, k + 1)])
    p = lentil.Pupil(amplitude=amp, opd=opd, mask=cube, pixelscale=dx, focal_length=z)
    p = p.fit_tilt(inplace=False)
    w = lentil.Wavefront(wl) * p
    return lentil.propagate_dft(w, pixelscale=du, shape=tuple(case["out_shape"]), prop_shape=tuple(case["win"]),
                                oversample=os_)


def chip_rects(out):
    full = tuple(int(v) for v in out.shape)
    rects = []
    for f in out.data:
        h, w = f.data.shape
        r0 = full[0] // 2 + int(f.offset[0]) - h // 2
        c0 = full[1] // 2 + int(f.offset[1]) - w // 2
        rects.append((r0, r0 + h, c0, c0 + w))
    return rects


def rects_overlap(a, b):
    return not (a[1] <= b[0] or b[1] <= a[0] or a[3] <= b[2] or b[3] <= a[2])


def bridge_in_order(rects):
    """an earlier pair of disjoint chips that a later chip overlaps both"""
    n = len(rects)
    for i in range(n):
        for j in range(i + 1, n):
            if rects_overlap(rects[i], rects[j]):
                continue
            for l in range(j + 1, n):
                if rects_overlap(rects[l], rects[i]) and rects_overlap(rects[l], rects[j]):
                    return True
    return False


# ---------------------------------------------------------------------------------------------------
# how an object handed to lentil came about: as constructed, or as an equal duplicate

OBJ_VARIANTS = ["constructed", "constructed", "copy", "deepcopy", "pickle"]


BUILD_VARIANTS = OBJ_VARIANTS + ["foreign"]


def build_obj(ctor, path, selector, *args, **kwargs):
    """``ctor(*args, **kwargs)`` as constructed here, as an equal duplicate (copy / deepcopy / pickle round trip), or
    built by the same call (``path``, e.g. "lentil.Pupil") in ANOTHER interpreter process and loaded here from its
    pickle (vlib/foreign.py: a saved model, an object handed over by a multiprocessing worker).  Returns (obj, variant)."""
    v = BUILD_VARIANTS[int(selector) % len(BUILD_VARIANTS)]
    if v == "foreign":
        from vlib import foreign
        return foreign.call(path, *args, **kwargs), v
    return derive_obj(ctor(*args, **kwargs), OBJ_VARIANTS.index(v))


def derive_obj(obj, selector):
    """obj itself, obj.copy(), copy.deepcopy(obj) or a pickle round trip, chosen by an integer already in the case"""
    import copy
    import pickle
    v = OBJ_VARIANTS[int(selector) % len(OBJ_VARIANTS)]
    if v == "copy" and hasattr(obj, "copy"):
        return obj.copy(), v
    if v == "deepcopy":
        return copy.deepcopy(obj), v
    if v == "pickle":
        return pickle.loads(pickle.dumps(obj)), v
    return obj, "constructed"
