"""Helpers shared by the optical checks: build lentil objects from case
descriptors and compare a lentil wavefront with the reference model."""
import numpy as np
from hypothesis import strategies as st

import lentil
from vlib import gen
from vlib.ref import dft as rdft
from vlib.ref import plane_model as pm
from vlib.runner import Violation


def as_ps(v):
    """pixel scale argument as given to lentil (scalar or tuple)"""
    return tuple(v) if isinstance(v, (list, tuple)) else v


def ps_pair(v):
    return tuple(np.broadcast_to(np.asarray(v, dtype=float), (2,)).tolist())


def shape_arg(v):
    return tuple(v) if isinstance(v, (list, tuple)) else v


def shape_pair(v):
    return tuple(int(x) for x in np.broadcast_to(np.asarray(v), (2,)))


@st.composite
def scalar_or_pair(draw, pair):
    """present a per-axis quantity either as a scalar (when isotropic) or as a pair"""
    if pair[0] == pair[1] and draw(st.booleans()):
        return pair[0]
    return [pair[0], pair[1]]


def max_abs(a):
    return float(np.max(np.abs(a))) if np.size(a) else 0.0


def compare_field(oracle, got, ref, tol, sel=None, what=""):
    """got: complex ndarray from lentil; ref: clongdouble reference on the same grid;
    sel: boolean array of evaluated samples (None = all). Outside sel must be exactly 0."""
    if got.shape != ref.shape:
        raise Violation(oracle + ".shape", f"{what} field shape {got.shape}, expected {ref.shape}")
    if sel is None:
        sel = np.ones(ref.shape, dtype=bool)
    if np.any(got[~sel] != 0):
        n = int(np.count_nonzero(got[~sel]))
        raise Violation(oracle + ".outside", f"{what} {n} samples outside the evaluated window are non-zero")
    err = np.abs(got.astype(rdft.CLD) - ref) * sel
    e = float(np.max(err)) if err.size else 0.0
    if not e <= tol:
        idx = np.unravel_index(int(np.argmax(err)), err.shape)
        raise Violation(oracle + ".value", f"{what} max|field - Fraunhofer sum| = {e:.3e} > tol {tol:.3e} at {idx} "
                                           f"(peak {max_abs(ref):.3e})")
