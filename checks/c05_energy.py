"""C05 - propagation conserves energy."""
import numpy as np
from hypothesis import strategies as st

import lentil
from checks import common as cm
from vlib import gen
from vlib.ref import plane_model as pm
from vlib.runner import Skip, Violation, hyp, lentil_call

# the check's own calls are issued with keywords or positionally in the documented order (vlib/callforms.py)
from vlib import callforms as _cf
lentil = _cf.proxy(lentil)

RULE = ("complex pupil fields on drawn shapes with commensurate samplings (integer 1/alpha = N_r, N_c >= input "
        "size, possibly N_r != N_c), oversampling 1-4, DFT and FFT propagators, chains of nested centred windows, "
        "target powers 1e-6..1e6; non-trivial = at least 3 non-zero input samples; distinct = distinct descriptors")
ASSUMPTIONS = [
    "input power is sum|model field|^2 of the independent plane model",
    "relative tolerance 1e-10 (alpha differs from 1/N by rounding of du only)",
]


@st.composite
def energy_case(draw, tier="quick"):
    hi = 12 if tier == "quick" else 24
    shape = draw(gen.shape2(2, hi, big=0.03, big_pool=[63, 64, 65, 127, 128, 129, 200]))
    os_ = draw(st.integers(1, 4))
    # period N per axis: multiple of os (so that the DFT output grid can be exactly one period), >= input size
    def period(n):
        k = draw(st.integers(int(np.ceil(n / os_)), int(np.ceil(n / os_)) + 6))
        return k * os_
    N = (period(shape[0]), period(shape[1]))
    if draw(st.booleans()):
        N = (max(N), max(N)) if draw(st.booleans()) else N
    wl = draw(gen.finite(0.4e-6, 2e-6))
    z = draw(gen.finite(0.5, 30.0))
    dxr = draw(gen.pos_log(1e-4, 1e-1))
    if draw(st.integers(0, 5)) == 0:            # the same geometry at unusual physical magnitudes
        wl, z, dxr = draw(gen.pos_log(1e-9, 1e-3)), draw(gen.pos_log(1e-3, 1e3)), draw(gen.pos_log(1e-8, 1.0))
    dxc = dxr * draw(st.sampled_from([1.0, 1.0, 0.6, 2.2]))
    du = (wl * z * os_ / (dxr * N[0]), wl * z * os_ / (dxc * N[1]))
    amp, opd, mask = draw(gen.aperture(shape, wl, max_waves=2.0, min_samples=3))
    amp = amp * draw(gen.scales())
    if draw(st.integers(0, 5)) == 0:
        # a real field of +a / -a samples in equal numbers (half-wave steps, checkerboards): full power, but the
        # samples sum to exactly zero (no light on axis)
        idx = np.argwhere(mask != 0)
        if len(idx) >= 2:
            if len(idx) % 2:
                mask = mask.copy()
                mask[tuple(idx[-1])] = 0
                idx = idx[:-1]
            sign = np.where((idx[:, 0] + idx[:, 1]) % 2 == 0, 1.0, -1.0) if draw(st.booleans()) else \
                np.where(np.arange(len(idx)) < len(idx) // 2, 1.0, -1.0)
            if sign.sum() != 0:
                sign = np.where(np.arange(len(idx)) % 2 == 0, 1.0, -1.0)
            amp = np.zeros(shape)
            amp[tuple(idx.T)] = sign * draw(st.sampled_from([1.0, 0.5, 2.0]))
            opd = np.zeros(shape)
    power = draw(gen.pos_log(1e-6, 1e6))
    # nested windows (in native samples), strictly inside the period
    full = (N[0] // os_, N[1] // os_)
    depth = draw(st.integers(1, 4))
    wr = sorted(draw(st.lists(st.integers(1, full[0]), min_size=depth, max_size=depth)))
    wc = sorted(draw(st.lists(st.integers(1, full[1]), min_size=depth, max_size=depth)))
    return {"shape": list(shape), "N": list(N), "oversample": os_, "wavelength": wl, "z": z, "dx": [dxr, dxc],
            "du": list(du), "amp": amp, "opd": opd, "mask": mask, "power": power,
            "windows": [[a, b] for a, b in zip(wr, wc)], "normalize": draw(st.booleans()),
            "via_prop_shape": draw(st.booleans())}


@hyp("C05", "energy", lambda tier: energy_case(tier),
     "full-period DFT and FFT images carry exactly the input power; nested windows capture non-negative, "
     "monotone power bounded by the input power; intensity is never negative", examples=(500, 2000),
     budget_s=(120, 900))
def energy(case, ctx):
    shape = tuple(case["shape"])
    N, os_ = tuple(case["N"]), case["oversample"]
    wl, z = case["wavelength"], case["z"]
    b = gen.bbox(case["mask"] != 0)
    if (b[1] - b[0] + 1) * (b[3] - b[2] + 1) == 1:
        raise Skip("single_sample_support(known)")
    amp = case["amp"]
    if case["normalize"]:
        with lentil_call("C05.normalize", "normalize_power"):
            amp = lentil.normalize_power(amp, case["power"])
        if abs(float(np.sum(np.abs(amp) ** 2)) - case["power"]) > 1e-12 * case["power"]:
            raise Violation("C05.normalize.power", f"normalize_power(target {case['power']}) has power "
                                                   f"{float(np.sum(np.abs(amp) ** 2))}")
    model = pm.phasor(shape, amp, case["opd"], case["mask"], wl)
    p_in = float(np.sum(np.abs(model) ** 2))
    ctx.tag("zero_sum_field" if np.count_nonzero(model) and model.sum() == 0 else None)
    ctx.tag("aniso_N" if N[0] != N[1] else "iso_N", f"os:{os_}", "normalized" if case["normalize"] else None,
            f"nested_depth:{len(case['windows'])}", gen.parity_tags("in", shape), gen.parity_tags("N", N),
            "per_axis_dx" if case["dx"][0] != case["dx"][1] else None)
    ctx.nontrivial_if(np.count_nonzero(model) >= 3)
    with lentil_call("C05.build", "Pupil multiply"):
        w = lentil.Wavefront(wl) * lentil.Pupil(amplitude=np.array(amp, copy=True), opd=case["opd"].copy(),
                                                mask=case["mask"].copy(), pixelscale=tuple(case["dx"]), focal_length=z)
    full = (N[0] // os_, N[1] // os_)
    rel = 1e-10
    # DFT, exactly one period
    with lentil_call("C05.dft", "propagate_dft full period"):
        I = lentil.propagate_dft(w, pixelscale=tuple(case["du"]), shape=full, oversample=os_).intensity
    if I.shape != N:
        raise Violation("C05.dft.shape", f"full-period image has shape {I.shape}, expected {N}")
    if np.any(I < 0):
        raise Violation("C05.nonnegative", "DFT intensity has negative samples")
    tot = float(I.sum())
    if abs(tot - p_in) > rel * p_in + 1e-300:
        raise Violation("C05.dft.total", f"full-period DFT image power {tot:.12e} != input power {p_in:.12e} "
                                         f"(N={N}, in={shape}, os={os_})")
    if case["normalize"] and abs(tot - case["power"]) > rel * case["power"]:
        raise Violation("C05.normalize.image", f"normalised amplitude images to {tot}, target {case['power']}")
    # FFT
    with lentil_call("C05.fft", "propagate_fft"):
        If = lentil.propagate_fft(w, pixelscale=tuple(case["du"]), oversample=os_).intensity
    if np.any(If < 0):
        raise Violation("C05.nonnegative", "FFT intensity has negative samples")
    if If.shape != N or abs(float(If.sum()) - p_in) > rel * p_in + 1e-300:
        raise Violation("C05.fft.total", f"FFT image {If.shape} power {float(If.sum()):.12e} != input power "
                                         f"{p_in:.12e} (N={N}, in={shape}, os={os_})")
    # the same FFT with a scratch buffer that was used before for a LARGER period (broadband use)
    N2 = (N[0] + 2 * os_, N[1] + 3 * os_)
    du2 = (wl * z * os_ / (case["dx"][0] * N2[0]), wl * z * os_ / (case["dx"][1] * N2[1]))
    with lentil_call("C05.fft.scratch", "propagate_fft with a reused scratch buffer"):
        scratch = np.zeros(N2, dtype=complex)
        Ibig = lentil.propagate_fft(w, pixelscale=du2, oversample=os_, scratch=scratch).intensity
        Iagain = lentil.propagate_fft(w, pixelscale=tuple(case["du"]), oversample=os_, scratch=scratch).intensity
    for nm_, arr, shp in (("larger period", Ibig, N2), ("original period after reuse", Iagain, N)):
        if arr.shape != shp or abs(float(arr.sum()) - p_in) > rel * p_in + 1e-300:
            raise Violation("C05.fft.scratch_total", f"FFT image with a reused scratch buffer ({nm_}, {arr.shape}) has power "
                                                     f"{float(arr.sum()):.12e}, input power {p_in:.12e}")
    # nested windows
    prev = 0.0
    prev_w = None
    for wdw in case["windows"]:
        with lentil_call("C05.window", f"propagate_dft window {wdw}"):
            if case["via_prop_shape"]:
                Iw = lentil.propagate_dft(w, pixelscale=tuple(case["du"]), shape=full, prop_shape=tuple(wdw),
                                          oversample=os_).intensity
            else:
                Iw = lentil.propagate_dft(w, pixelscale=tuple(case["du"]), shape=tuple(wdw), oversample=os_).intensity
        if np.any(Iw < 0):
            raise Violation("C05.nonnegative", f"window {wdw} intensity has negative samples")
        pw = float(Iw.sum())
        if pw > p_in * (1 + rel) + 1e-300:
            raise Violation("C05.window.bound", f"window {wdw} captures {pw:.12e} > input power {p_in:.12e}")
        # windows that capture less than 1e-12 of the input power hold rounding noise of the transform only
        if pw < prev * (1 - rel) - 1e-12 * p_in - 1e-300:
            raise Violation("C05.window.monotone", f"window {wdw} captures {pw:.12e} < {prev:.12e} captured by the "
                                                   f"window {prev_w} it contains")
        prev, prev_w = pw, wdw


@st.composite
def norm_case(draw, tier="quick"):
    shape = draw(gen.shape2(1, 16))
    cplx = draw(st.booleans())
    a = draw(gen.complex_array(shape, maxmag=1e3)) if cplx else draw(gen.real_array(shape, -1e3, 1e3))
    form = draw(st.sampled_from(["array", "array", "int", "list", "narrow"]))
    if form != "array" and not cplx:
        a = np.round(a).astype(np.int64)
    if form == "narrow":
        # amplitudes stored in a narrow type (8/16-bit images, float32): the same numbers
        dt = draw(st.sampled_from(["uint8", "int8", "int16", "uint16", "float32"]))
        lim = {"uint8": 255, "int8": 127, "int16": 32767, "uint16": 65535, "float32": 1000}[dt]
        a = (np.clip(np.round(np.abs(a.real) if dt.startswith("u") else a.real), -lim, lim)).astype(dt)
    return {"a": a, "power": draw(gen.pos_log(1e-6, 1e6)), "default": draw(st.sampled_from([False, False, True])),
            "form": form}


@hyp("C05", "normalize_power", lambda tier: norm_case(tier),
     "normalize_power(a, p) has power p for real and complex arrays and leaves a untouched", examples=(500, 2000))
def normalize_power(case, ctx):
    a = case["a"]
    if not np.any(a):
        raise Skip("all_zero_array")
    if not (1e-100 < float(np.max(np.abs(a))) < 1e100):
        raise Skip("underflow_overflow_regime")        # |a|^2 is not representable: outside the stated bounds
    p = 1.0 if case["default"] else case["power"]
    ctx.tag("complex" if np.iscomplexobj(a) else "real", "default_power" if case["default"] else None)
    ctx.nontrivial_if(np.count_nonzero(a) >= 2)
    a = gen.relayout(a, ["C", "F", "strided", "reversed"][a.shape[0] % 4])
    a0 = a.copy()
    arg = a.tolist() if case.get("form") == "list" else a
    ctx.tag("form:" + case.get("form", "array") + ("/" + a.dtype.kind))
    with lentil_call("C05.normalize", "normalize_power"):
        out = lentil.normalize_power(arg) if case["default"] else lentil.normalize_power(arg, p)
    out = np.asarray(out)
    # a float32 input yields a float32 result: the power is then only defined to that precision
    rel = 1e-12 if out.dtype.itemsize >= 8 or out.dtype.kind not in "fc" else 64 * float(np.finfo(out.dtype).eps)
    got = float(np.sum(np.abs(out.astype(complex if np.iscomplexobj(out) else float)) ** 2))
    if abs(got - p) > rel * p:
        raise Violation("C05.normalize.power", f"power {got} != target {p}")
    if not np.array_equal(a, a0):
        raise Violation("C05.normalize.input_mutated", "normalize_power modified its input")
    # direction preserved: out is a positive multiple of a
    a0f = a0.astype(complex if np.iscomplexobj(a0) else float)
    k = np.sqrt(p / np.sum(np.abs(a0f) ** 2))
    if cm.max_abs(out - a0f * k) > rel * cm.max_abs(a0f * k):
        raise Violation("C05.normalize.shape", "normalize_power changed more than the scale")


# --- long thin pupils (kernel element counts in the millions) ------------------------------------------------

@st.composite
def long_case(draw, tier="quick"):
    m = draw(st.sampled_from([1023, 1024, 1101, 1500, 2047, 2048, 2049, 2600]))
    os_ = draw(st.sampled_from([1, 1, 1, 2, 3, 5]))
    if draw(st.integers(0, 4)) == 0:
        # a period one or two samples longer than a power-of-two-sized pupil ("one extra sample for a central pixel"):
        # block-wise evaluations end with a block of a single output sample
        m = draw(st.sampled_from([2048, 2048, 4096, 2049, 3000]))
        n = draw(st.integers(2, 3))
        Nr = m + draw(st.sampled_from([1, 1, 2]))
        return {"m": m, "n": n, "N": [Nr, n + draw(st.integers(0, 2))], "oversample": 1, "axis": draw(st.integers(0, 1)),
                "seed": draw(st.integers(0, 2**31 - 1)), "power": draw(gen.pos_log(1e-3, 1e3))}
    if draw(st.integers(0, 3)) == 0:
        # a small pupil imaged over one period of more than 2^14 oversampled rows
        m = draw(st.integers(8, 60))
        os_ = draw(st.sampled_from([1, 2, 4, 5]))
        Nr = (draw(st.integers(16385, 40000)) // os_ + 1) * os_
        n = draw(st.integers(2, 3))
        Nc = (int(np.ceil(n / os_)) + draw(st.integers(0, 2))) * os_
        return {"m": m, "n": n, "N": [Nr, Nc], "oversample": os_, "axis": draw(st.integers(0, 1)),
                "seed": draw(st.integers(0, 2**31 - 1)), "power": draw(gen.pos_log(1e-3, 1e3))}
    floor_ = int(np.ceil(m / os_)) * os_
    if draw(st.integers(0, 3)):
        # kernel element count Nr*m aimed between 2^22 and 9e6; Nr a multiple of os of either parity when os is odd
        Nr = max(floor_, (draw(st.integers(2**22 + 1, 9_000_000)) // m // os_ + draw(st.integers(0, 2))) * os_)
    else:
        Nr = (int(np.ceil(m * draw(st.sampled_from([1, 2])) / os_)) + draw(st.integers(0, 3))) * os_
    while Nr * m > 9_100_000 and Nr > floor_:
        Nr = max(floor_, (Nr // 2 // os_ + 1) * os_)
    n = draw(st.integers(2, 3))
    Nc = (int(np.ceil(n / os_)) + draw(st.integers(0, 2))) * os_
    return {"m": m, "n": n, "N": [Nr, Nc], "oversample": os_, "axis": draw(st.integers(0, 1)),
            "seed": draw(st.integers(0, 2**31 - 1)), "power": draw(gen.pos_log(1e-3, 1e3))}


@hyp("C05", "long", lambda tier: long_case(tier),
     "pupils of 1023..2600 x 2..3 samples imaged over exactly one period (up to 9e6 kernel elements): the image "
     "carries the input power", examples=(18, 60), budget_s=(150, 700))
def long(case, ctx):
    m, n, os_ = case["m"], case["n"], case["oversample"]
    N = list(case["N"])
    rng = np.random.default_rng(case["seed"])
    amp = rng.uniform(0.2, 1.0, size=(m, n))
    wl, z, dx = 1e-6, 2.0, 1e-3
    opd = rng.normal(size=(m, n)) * 0.2 * wl
    if case["axis"] == 1:
        amp, opd, N = amp.T.copy(), opd.T.copy(), N[::-1]
    with lentil_call("C05.long.normalize", "normalize_power"):
        amp = lentil.normalize_power(amp, case["power"])
    du = (wl * z * os_ / (dx * N[0]), wl * z * os_ / (dx * N[1]))
    ctx.tag("output>16384" if max(N) > 16384 else None, f"kernel:2^{int(np.log2(max(N) * m))}" if max(N) * m >= 2**24 else None)
    ctx.tag(f"axis:{case['axis']}", f"os:{os_}", "kernel>4M" if max(N) * m > 2**22 else "kernel<=4M",
            "N_odd" if max(N) % 2 else "N_even")
    ctx.nontrivial_if(True)
    with lentil_call("C05.long", f"propagate_dft(pupil {amp.shape}, period {N}, os {os_})"):
        w = lentil.Wavefront(wl) * lentil.Pupil(amplitude=amp, opd=opd, pixelscale=dx, focal_length=z)
        I = lentil.propagate_dft(w, pixelscale=du, shape=(N[0] // os_, N[1] // os_), oversample=os_).intensity
    p_in = float(np.sum(np.abs(amp) ** 2))
    if I.shape != tuple(N):
        raise Violation("C05.long.shape", f"image shape {I.shape}, expected {tuple(N)}")
    if np.any(I < 0):
        raise Violation("C05.nonnegative", "intensity has negative samples")
    if abs(float(I.sum()) - p_in) > 1e-10 * p_in or abs(p_in - case["power"]) > 1e-12 * case["power"]:
        raise Violation("C05.long.total", f"full-period image of a {amp.shape} pupil (period {N}, oversample {os_}) carries "
                                          f"{float(I.sum()):.12e}, input power {p_in:.12e}")


@st.composite
def giant_case(draw, tier="quick"):
    # four cases in five above 2^26 elements (1 GiB of complex128 for the matrix alone)
    # (a kernel above a size threshold is above every lower threshold too: most cases sit at the top of the range)
    K = int(2 ** (draw(st.floats(26.2, 26.8)) if draw(st.integers(0, 4)) else draw(st.floats(24.0, 26.2))))
    os_ = draw(st.sampled_from([1, 1, 2, 3]))
    m = int(np.exp(draw(st.floats(np.log(60.0), np.log(float(min(int(np.sqrt(K)), 12000)))))))
    Nr = max(int(np.ceil(m / os_)), K // m // os_ + draw(st.integers(0, 2))) * os_
    n = draw(st.integers(2, 3))
    Nc = (int(np.ceil(n / os_)) + draw(st.integers(0, 2))) * os_
    return {"m": m, "n": n, "N": [Nr, Nc], "oversample": os_, "axis": draw(st.integers(0, 1)),
            "seed": draw(st.integers(0, 2**31 - 1)), "power": draw(gen.pos_log(1e-3, 1e3))}


hyp("C05", "giant", lambda tier: giant_case(tier),
    "pupils of 60..12000 x 2..3 samples imaged over exactly one period with transform kernels of 2^24 .. 2^26.8 "
    "elements (mostly at the top, up to what the memory cap allows), long axis first and long axis second: the image carries the input power",
    examples=(3, 5), budget_s=(400, 900), max_shards=2)(lambda case, ctx: [long(dict(case, axis=a), ctx) for a in (0, 1)] and None)


# --- FFT grids of more than a million samples ---------------------------------------------------------------------

@st.composite
def mega_fft_case(draw, tier="quick"):
    N = draw(gen.mega_shape())
    m = draw(st.integers(N[0] // 2, N[0])), draw(st.integers(N[1] // 2, N[1]))
    return {"N": list(N), "pshape": list(m), "seed": draw(st.integers(0, 2**31 - 1)),
            "power": draw(gen.pos_log(1e-3, 1e3)), "scratch": draw(st.booleans())}


@hyp("C05", "mega_fft", lambda tier: mega_fft_case(tier),
     "propagate_fft on grids of more than 2^20 samples (non-square, sizes of no special form): image power = input "
     "power, with and without a dirty scratch buffer", examples=(3, 12), budget_s=(150, 700))
def mega_fft(case, ctx):
    N, ps = tuple(case["N"]), tuple(case["pshape"])
    rng = np.random.default_rng(case["seed"])
    wl, z, dx = 1e-6, 2.0, 1e-3
    amp = rng.uniform(0.2, 1.0, size=ps)
    opd = rng.normal(size=ps) * 0.2 * wl
    with lentil_call("C05.mega.normalize", "normalize_power"):
        amp = lentil.normalize_power(amp, case["power"])
    du = (wl * z / (dx * N[0]), wl * z / (dx * N[1]))
    ctx.tag("mega", "scratch" if case["scratch"] else "no_scratch")
    ctx.nontrivial_if(True)
    kw = {}
    if case["scratch"]:
        kw["scratch"] = rng.normal(size=N) + 1j * rng.normal(size=N)
    with lentil_call("C05.mega.fft", f"propagate_fft(pupil {ps}, grid {N})"):
        w = lentil.Wavefront(wl) * lentil.Pupil(amplitude=amp, opd=opd, pixelscale=dx, focal_length=z)
        I = lentil.propagate_fft(w, pixelscale=du, oversample=1, **kw).intensity
    p_in = float(np.sum(amp ** 2))
    if I.shape != N or np.any(I < 0) or abs(float(I.sum()) - p_in) > 1e-10 * p_in:
        raise Violation("C05.mega.total", f"FFT image {I.shape} of a {ps} pupil carries {float(I.sum()):.12e}, input power "
                                          f"{p_in:.12e}")
