"""C20 - array geometry helpers share the floor(n/2) centre convention."""
import itertools

import numpy as np
from hypothesis import strategies as st

import lentil
import lentil.helper as lhelper
from vlib import gen
from vlib.runner import Skip, Violation, enum, expect_raises, hyp, known_predicate, known_probe, lentil_call

# the check's own calls are issued with keywords or positionally in the documented order (vlib/callforms.py)
from vlib import callforms as _cf
lentil = _cf.proxy(lentil)

RULE = ("pad/crop and subarray: complete (n -> N) tables on small sizes; masks, rebin factors, shape "
        "parameters and hex_segments configurations drawn by Hypothesis; non-trivial = parity of source and "
        "target differ on some axis / shape is off-centre / mask is not centred")
ASSUMPTIONS = [
    "index-set reference: sample floor(n/2)+k maps to floor(N/2)+k",
    "binary-shape symmetry is judged away from samples that lie within 1e-9 of an edge (decided by rounding)",
    "hex segment area tolerance 0.25*perimeter + 2 samples",
]


def _vals(shape, k=0):
    n = int(np.prod(shape))
    return (np.arange(1, n + 1, dtype=float).reshape(shape) * 1.5 + k)


def ref_pad2(a, N):
    """move sample floor(n/2)+k to floor(N/2)+k, zero elsewhere"""
    n_r, n_c = a.shape
    out = np.zeros(N, dtype=a.dtype)
    for i in range(n_r):
        I = i - n_r // 2 + N[0] // 2
        if not 0 <= I < N[0]:
            continue
        for j in range(n_c):
            J = j - n_c // 2 + N[1] // 2
            if 0 <= J < N[1]:
                out[I, J] = a[i, j]
    return out


# --- pad / crop ------------------------------------------------------------------

def _enum_pad(tier):
    i = 0
    rng = range(1, 10)
    for n_r in rng:
        for n_c in rng:
            for N_r in rng:
                for N_c in rng:
                    for depth in (0, 1, 3):
                        i += 1
                        if tier == "quick" and i % 13:
                            continue
                        yield {"n": [n_r, n_c], "N": [N_r, N_c], "depth": depth,
                               "dtype": ["float", "int", "complex", "bool"][i % 4]}


def _pad_body(case, ctx):
    n, N, depth = tuple(case["n"]), tuple(case["N"]), case["depth"]
    a = _vals(n) if depth == 0 else np.stack([_vals(n, 100 * d) for d in range(depth)])
    dt = case.get("dtype", "float")
    if dt == "int":
        a = (a * 2).astype(np.int64)
    elif dt == "complex":
        a = a + 1j * (a % 5)
    elif dt == "bool":
        a = (a % 3 != 0)
    a = gen.relayout(a, case.get("layout", ["C", "F", "strided", "reversed", "transposed_view"][(n[0] + 2 * N[1] + depth) % 5]))
    a0 = a.copy()
    par = any((x % 2) != (y % 2) for x, y in zip(n, N))
    mixed = (N[0] - n[0]) * (N[1] - n[1]) < 0
    ctx.tag("parity_differs" if par else "parity_same", "mixed_grow_shrink" if mixed else None,
            "cube" if depth else "2d", "nonsquare" if n[0] != n[1] or N[0] != N[1] else None,
            "odd->even" if any(x % 2 == 1 and y % 2 == 0 and y > x for x, y in zip(n, N)) else None,
            "even->odd_crop" if any(x % 2 == 0 and y % 2 == 1 and y < x for x, y in zip(n, N)) else None)
    ctx.nontrivial_if(par)
    ctx.tag("dtype:" + dt)
    with lentil_call("C20.pad", f"pad({a.shape} -> {N})"):
        out = lentil.pad(a, N)
    exp = ref_pad2(a, N) if depth == 0 else np.stack([ref_pad2(s, N) for s in a])
    if out.shape != exp.shape:
        raise Violation("C20.pad.shape", f"pad({a.shape} -> {N}) returned shape {out.shape}")
    if not np.array_equal(out, exp):
        raise Violation("C20.pad.origin", f"pad({a.shape} -> {N}) does not keep sample floor(n/2) at floor(N/2)")
    if not np.array_equal(a, a0):
        raise Violation("C20.pad.input_mutated", "pad modified its input")
    if N[0] >= n[0] and N[1] >= n[1]:
        with lentil_call("C20.pad", f"crop back {N} -> {n}"):
            back = lentil.pad(out, n)
        if not np.array_equal(back, a):
            raise Violation("C20.pad.roundtrip", f"crop(pad(a {a.shape} -> {N})) != a")
    if depth == 0 and a.size > 1:   # window() documents that a single value is returned as is
        with lentil_call("C20.window", "window(img, shape)"):
            w = lentil.window(a, shape=N)
        if not np.array_equal(w, exp):
            raise Violation("C20.window", f"window({n} -> {N}) differs from centred pad/crop")


@enum("C20", "pad_enum", _enum_pad,
      "complete table n,N in 1..9 per axis, 2-D and cubes of depth 1 and 3 (quick: every 13th)")
def pad_enum(case, ctx):
    _pad_body(case, ctx)


@st.composite
def pad_case(draw, tier):
    hi = 14 if tier == "quick" else 30
    return {"n": list(draw(gen.shape2(1, hi))), "N": list(draw(gen.shape2(1, hi))),
            "depth": draw(st.sampled_from([0, 0, 1, 2, 4])), "dtype": draw(st.sampled_from(["float", "int", "complex", "bool"]))}


@hyp("C20", "pad", lambda tier: pad_case(tier), "drawn (n -> N) incl. larger sizes and cubes", examples=(300, 1500))
def pad(case, ctx):
    _pad_body(case, ctx)


# --- subarray ---------------------------------------------------------------------

def _enum_sub(tier):
    i = 0
    for n_r, n_c in itertools.product(range(1, 7), repeat=2):
        for s_r, s_c in itertools.product(range(1, 7), repeat=2):
            for sh in [(0, 0), (1, 0), (0, -1), (-2, 2), (3, 1), (-1, -3)]:
                i += 1
                if tier == "quick" and i % 7:
                    continue
                yield {"n": [n_r, n_c], "s": [s_r, s_c], "shift": list(sh)}


@enum("C20", "subarray_enum", _enum_sub,
      "complete table: arrays 1..6, sub-arrays 1..6, six shifts incl. out-of-range (quick: every 7th)")
def subarray_enum(case, ctx):
    n, s, sh = tuple(case["n"]), tuple(case["s"]), tuple(case["shift"])
    a = gen.relayout(_vals(n), ["C", "F", "strided", "reversed"][(n[0] + s[1] + sh[0]) % 4])
    # expected by index sets: subarray sample floor(s/2)+k  <-  a sample floor(n/2)+shift+k
    rows = [i - s[0] // 2 + n[0] // 2 + sh[0] for i in range(s[0])]
    cols = [j - s[1] // 2 + n[1] // 2 + sh[1] for j in range(s[1])]
    inside = 0 <= rows[0] and rows[-1] < n[0] and 0 <= cols[0] and cols[-1] < n[1]
    ctx.tag("in_range" if inside else "out_of_range", "shifted" if any(sh) else None)
    ctx.nontrivial_if(any(x % 2 != y % 2 for x, y in zip(n, s)) or any(sh))
    if not inside:
        expect_raises("C20.subarray.refuse", (ValueError,), lambda: lentil.subarray(a, s, sh),
                      f"subarray({n}, {s}, {sh}) outside the array")
        return
    with lentil_call("C20.subarray", f"subarray({n},{s},{sh})"):
        out = lentil.subarray(a, s, sh)
    exp = a[np.ix_(rows, cols)]
    if out.shape != exp.shape or not np.array_equal(out, exp):
        raise Violation("C20.subarray.value", f"subarray({n},{s},{sh}) is not centred on floor(n/2)+shift")


# --- boundary, boundary_slice, slice_offset, centroid --------------------------------

@st.composite
def mask_case(draw, tier):
    hi = 12 if tier == "quick" else 24
    shape = draw(gen.shape2(1, hi))
    m = draw(gen.support_mask(shape, min_samples=1))
    vals = draw(st.sampled_from(["binary", "weights"]))
    k = draw(st.integers(0, 2**31 - 1))
    return {"mask": m.astype(int), "vals": vals, "seed": k, "pad": [draw(st.integers(0, 3)), draw(st.integers(0, 3))],
            "layout": draw(gen.layouts()),
            "threshold": draw(st.sampled_from([0, 0, 0.5])),
            # samples that are not numbers or not finite (bad pixels flagged NaN, OPD maps that are NaN outside the
            # aperture, -inf / negative background): "above the threshold" is a statement about each sample
            "special": draw(st.sampled_from(["none", "none", "none", "nan", "nan", "nan_outside", "neg", "-inf", "+inf"])),
            "n_special": draw(st.integers(1, 4)), "where": draw(st.lists(st.integers(0, 10**6), min_size=4, max_size=4))}


@hyp("C20", "bounds", lambda tier: mask_case(tier),
     "boundary / boundary_slice / slice_offset / centroid on drawn masks vs direct index-set definitions",
     examples=(500, 2500))
def bounds(case, ctx):
    m = case["mask"]
    rng = np.random.default_rng(case["seed"])
    x = m.astype(float)
    if case["vals"] == "weights":
        x = x * rng.uniform(0.6, 3.0, size=m.shape)
    thr = case["threshold"]
    special = case.get("special", "none")
    if special == "nan_outside":
        x = np.where(m != 0, x, np.nan)
    elif special != "none":
        val = {"nan": np.nan, "neg": -2.5, "-inf": -np.inf, "+inf": np.inf}[special]
        x = x.copy()
        for k in case["where"][:case["n_special"]]:
            x.flat[k % x.size] = val
    x = gen.relayout(x, case.get("layout"))
    with np.errstate(invalid="ignore"):
        sel = np.argwhere(x > thr)
    if len(sel) == 0:
        raise Skip("empty_after_threshold")
    want = (int(sel[:, 0].min()), int(sel[:, 0].max()), int(sel[:, 1].min()), int(sel[:, 1].max()))
    centred = (want[0] + (want[1] - want[0] + 1) // 2 == m.shape[0] // 2) and \
              (want[2] + (want[3] - want[2] + 1) // 2 == m.shape[1] // 2)
    ctx.tag("layout:" + str(case.get("layout")), "offcentre" if not centred else "centred", gen.parity_tags("m", m.shape),
            "pad" if any(case["pad"]) else None, "special:" + special)
    ctx.nontrivial_if(not centred)
    x0 = x.copy()
    with lentil_call("C20.boundary", "boundary"):
        b = lentil.boundary(x, thr)
    if tuple(int(v) for v in b) != want:
        raise Violation("C20.boundary", f"boundary = {tuple(int(v) for v in b)}, index set spans {want}")
    p = case["pad"]
    with lentil_call("C20.boundary_slice", "boundary_slice"):
        sl = lhelper.boundary_slice(x, thr, pad=p[0] if p[0] == p[1] else tuple(p))      # scalar pad = both axes
    r0, r1 = max(want[0] - p[0], 0), min(want[1] + p[0] + 1, m.shape[0])
    c0, c1 = max(want[2] - p[1], 0), min(want[3] + p[1] + 1, m.shape[1])
    got = (int(sl[0].start), int(sl[0].stop), int(sl[1].start), int(sl[1].stop))
    if got != (r0, r1, c0, c1):
        raise Violation("C20.boundary_slice", f"slice {got} != padded bounding box {(r0, r1, c0, c1)}")
    with lentil_call("C20.slice_offset", "slice_offset"):
        off = lhelper.slice_offset(sl, m.shape)
    want_off = (r0 + (r1 - r0) // 2 - m.shape[0] // 2, c0 + (c1 - c0) // 2 - m.shape[1] // 2)
    if tuple(int(v) for v in off) != want_off:
        raise Violation("C20.slice_offset", f"slice_offset = {off}, floor-centre difference = {want_off}")
    # a sub-array cut with the slice and re-embedded at the offset reproduces the array
    sub = x[sl]
    canvas = np.zeros_like(x)
    rr0 = m.shape[0] // 2 + want_off[0] - sub.shape[0] // 2
    cc0 = m.shape[1] // 2 + want_off[1] - sub.shape[1] // 2
    canvas[rr0:rr0 + sub.shape[0], cc0:cc0 + sub.shape[1]] = sub
    with np.errstate(invalid="ignore"):
        above = x > thr
    if not np.array_equal(np.where(above, canvas, 0), np.where(above, x, 0)):
        raise Violation("C20.slice_offset.embed", "slice + offset do not reproduce the masked array")
    if special == "none" and x.sum() > 0:
        with lentil_call("C20.centroid", "centroid"):
            cr, cc = lentil.centroid(x)
        ii, jj = np.indices(x.shape)
        er, ec = float((ii * x).sum() / x.sum()), float((jj * x).sum() / x.sum())
        if abs(cr - er) > 1e-9 * (1 + m.shape[0]) or abs(cc - ec) > 1e-9 * (1 + m.shape[1]):
            raise Violation("C20.centroid", f"centroid = {(cr, cc)}, first moment = {(er, ec)}")
    if not np.array_equal(x, x0, equal_nan=True):
        raise Violation("C20.bounds.input_mutated", "helper modified its input")
    with lentil_call("C20.slice_offset", "slice_offset(Ellipsis)"):
        if tuple(lhelper.slice_offset(Ellipsis, m.shape)) != (0, 0):
            raise Violation("C20.slice_offset", "Ellipsis slice must have zero offset")


# --- rebin ---------------------------------------------------------------------------

@st.composite
def rebin_case(draw, tier):
    f = draw(st.integers(1, 5))
    nr, nc = draw(st.integers(1, 6)), draw(st.integers(1, 6))
    depth = draw(st.sampled_from([0, 0, 1, 3]))
    shape = (nr * f, nc * f) if depth == 0 else (depth, nr * f, nc * f)
    return {"factor": f, "img": draw(gen.real_array(shape, -100, 100, dense_prob=0.8)),
            "ints": draw(st.booleans()), "layout": draw(gen.layouts()),
            # narrow storage types (detector frames, masks): the same numbers, block sums beyond the type's own range
            "narrow": draw(st.sampled_from([None, None, "uint8", "int16", "uint16", "bool", "int8", "float32"]))}


@hyp("C20", "rebin", lambda tier: rebin_case(tier), "rebin vs explicit block sums (2-D and cubes)",
     examples=(300, 1200))
def rebin(case, ctx):
    f, img = case["factor"], case["img"]
    f_arg = gen.typed_int(f, img.shape[-1] + 3 * img.shape[-2] + f)
    ctx.tag("factor_type:" + type(f_arg).__name__)
    if case["ints"]:
        img = np.round(img).astype(int)
    nar = case.get("narrow")
    if nar == "bool":
        img = np.abs(img) > 30
    elif nar in ("uint8", "uint16"):
        img = (np.abs(np.round(img)) * (2 if nar == "uint8" else 600)).astype(nar)       # up to 200 / 60000 per sample
    elif nar in ("int8", "int16"):
        img = (np.round(img) * (1 if nar == "int8" else 300)).astype(nar)
    elif nar == "float32":
        img = np.round(img).astype(np.float32)
    ctx.tag("dtype:" + str(img.dtype))
    img = gen.relayout(img, case.get("layout"))
    ctx.tag(f"factor:{f}", "cube" if img.ndim == 3 else "2d", "int" if case["ints"] else "float", "layout:" + str(case.get("layout")))
    ctx.nontrivial_if(f >= 2)
    with lentil_call("C20.rebin", "rebin"):
        out = lentil.rebin(img, f_arg)
    planes = img[None] if img.ndim == 2 else img
    exp = np.zeros((planes.shape[0], planes.shape[1] // f, planes.shape[2] // f), dtype=float if nar else img.dtype)
    for d in range(planes.shape[0]):
        for i in range(exp.shape[1]):
            for j in range(exp.shape[2]):
                exp[d, i, j] = planes[d, i * f:(i + 1) * f, j * f:(j + 1) * f].astype(float if nar else img.dtype).sum()
    exp = exp[0] if img.ndim == 2 else exp
    scale = float(np.abs(planes).sum()) + 1.0
    if out.shape != exp.shape or float(np.max(np.abs(out - exp))) > 1e-12 * scale:
        raise Violation("C20.rebin.blocks", f"rebin(factor={f}) differs from block sums")
    if abs(float(out.sum()) - float(img.sum())) > 1e-12 * scale:
        raise Violation("C20.rebin.sum", "rebin does not preserve the sum")


# --- drawn shapes ----------------------------------------------------------------------

def _hex_edge_dist(shape, radius, shift, rotate):
    """min over the six edges of |rho - inner_radius| (independent formula)"""
    r = np.arange(shape[0])[:, None] - shape[0] // 2 - shift[0]
    c = np.arange(shape[1])[None, :] - shape[1] // 2 - shift[1]
    inner = radius * np.sqrt(3) / 2
    d = np.full(shape, np.inf)
    for n in range(6):
        th = n * np.pi / 3 + (0 if rotate else np.pi / 6)
        d = np.minimum(d, np.abs(r * np.sin(th) + c * np.cos(th) - inner))
    return d


@st.composite
def shape_case(draw, tier):
    hi = 40 if tier == "quick" else 64
    shape = draw(gen.shape2(8, hi))
    kind = draw(st.sampled_from(["circle", "hexagon", "rectangle"]))
    half = min(shape) // 2
    # room on the short side is half-1 samples; the drawn shape (circumradius + 0.5 antialias
    # margin) plus the shift must fit, so that translation never clips
    circ = draw(gen.finite(1.0, half - 2.0))
    smax = int(np.floor(half - 2.0 - circ))
    s = (draw(st.integers(-smax, smax)), draw(st.integers(-smax, smax)))
    case = {"kind": kind, "shape": list(shape), "shift": list(s), "antialias": draw(st.booleans())}
    if kind == "circle":
        case["radius"] = circ
    elif kind == "hexagon":
        case["radius"] = circ
        case["rotate"] = draw(st.booleans())
    else:
        ang = draw(gen.finite(0.15, np.pi / 2 - 0.15))
        case["width"] = 2 * circ * np.cos(ang)
        case["height"] = 2 * circ * np.sin(ang)
        case["angle"] = draw(st.sampled_from([0, 0, 90, 30.0, 45.0, -17.5, 180]))
    return case


def _near_edge(case, shape):
    """samples within 1e-9 of the drawn edge (their binary value is decided by rounding)"""
    r = (np.arange(shape[0])[:, None] - shape[0] // 2).astype(float)
    c = (np.arange(shape[1])[None, :] - shape[1] // 2).astype(float)
    if case["kind"] == "circle":
        return np.abs(case["radius"] + 0.5 - np.hypot(r, c)) < 1e-9
    if case["kind"] == "hexagon":
        return _hex_edge_dist(shape, case["radius"], (0, 0), case["rotate"]) < 1e-9
    a = np.deg2rad(case["angle"])
    rr = r * np.cos(a) + c * np.sin(a)
    cc = -r * np.sin(a) + c * np.cos(a)
    return (np.abs(0.5 + case["width"] / 2 - np.abs(cc)) < 1e-9) | (np.abs(0.5 + case["height"] / 2 - np.abs(rr)) < 1e-9)


def _draw(case, shape=None, shift=None):
    shape = tuple(case["shape"]) if shape is None else shape
    shift = tuple(case["shift"]) if shift is None else shift
    aa = case["antialias"]
    if case["kind"] == "circle":
        return lentil.circle(shape, case["radius"], shift=shift, antialias=aa)
    if case["kind"] == "hexagon":
        return lentil.hexagon(shape, case["radius"], shift=shift, rotate=case["rotate"], antialias=aa)
    return lentil.rectangle(shape, case["width"], case["height"], shift=shift, angle=case["angle"], antialias=aa)


@hyp("C20", "shapes", lambda tier: shape_case(tier),
     "circle/hexagon/rectangle: range, binarity, exact integer translation, half-turn and mirror symmetry",
     examples=(500, 2500))
def shapes(case, ctx):
    shape = tuple(case["shape"])
    s = tuple(case["shift"])
    ctx.tag(case["kind"], "antialias" if case["antialias"] else "binary", gen.parity_tags("s", shape),
            "shifted" if any(s) else None, "nonsquare" if shape[0] != shape[1] else None,
            ("angle" if case.get("angle") else None), ("rotate" if case.get("rotate") else None))
    ctx.nontrivial_if(any(s) or shape[0] % 2 != shape[1] % 2 or shape[0] % 2 == 1)
    with lentil_call("C20.shape", case["kind"]):
        a = _draw(case)
        a0 = _draw(case, shift=(0, 0))
    if a.shape != shape:
        raise Violation("C20.shape.shape", f"{case['kind']} returned shape {a.shape} for {shape}")
    if a.min() < 0 or a.max() > 1 or not np.all(np.isfinite(a)):
        raise Violation("C20.shape.range", f"{case['kind']} values outside [0,1]: [{a.min()}, {a.max()}]")
    if not case["antialias"] and not np.all((a == 0) | (a == 1)):
        raise Violation("C20.shape.binary", f"{case['kind']}(antialias=False) is not binary")
    if a.max() == 0:
        raise Violation("C20.shape.empty", f"{case['kind']} with radius/size >= 1 sample drew nothing")
    # exact translation (the generator keeps the shape clear of the border)
    rolled = np.roll(a0, s, axis=(0, 1))
    if not np.array_equal(a, rolled):
        raise Violation("C20.shape.translate", f"{case['kind']}(shift={s}) != roll(draw(shift=0), {s})")
    # half-turn about the origin sample floor(n/2): i -> 2*floor(n/2) - i
    cr, cc = shape[0] // 2, shape[1] // 2
    nr = min(cr, shape[0] - 1 - cr)
    nc = min(cc, shape[1] - 1 - cc)
    sub = a0[cr - nr:cr + nr + 1, cc - nc:cc + nc + 1]
    near_edge = np.zeros(sub.shape, dtype=bool)
    if not case["antialias"]:
        near_edge = _near_edge(case, shape)[cr - nr:cr + nr + 1, cc - nc:cc + nc + 1]
        near_edge = near_edge | near_edge[::-1, ::-1] | near_edge[::-1, :] | near_edge[:, ::-1]
    tol = 1e-9

    def differs(x, y):
        return bool(np.any((np.abs(x - y) > tol) & ~near_edge))
    if differs(sub, sub[::-1, ::-1]):
        raise Violation("C20.shape.halfturn", f"{case['kind']} is not invariant under a half-turn about floor(n/2)")
    unrotated = case["kind"] != "rectangle" or case["angle"] == 0
    if unrotated and (differs(sub, sub[::-1, :]) or differs(sub, sub[:, ::-1])):
        raise Violation("C20.shape.mirror", f"{case['kind']} (unrotated) is not mirror symmetric about floor(n/2)")


# --- hex_segments -----------------------------------------------------------------------

@known_predicate("hex_seg_gap_zero")
def _gap_zero(case):
    return case.get("gap", 1) == 0 or case.get("probe") == "hex_seg_gap_zero"


@st.composite
def hexseg_case(draw, tier):
    rings = draw(st.integers(1, 2 if tier == "quick" else 3))
    nseg = 1 + 3 * rings * (rings + 1)
    drop = draw(st.sampled_from(["default", "none", "some", "out_of_range"]))
    if drop == "default":
        dl = [0]
    elif drop == "none":
        dl = []
    elif drop == "some":
        dl = sorted(set(draw(st.lists(st.integers(0, nseg - 1), min_size=1, max_size=4))))
        if draw(st.booleans()):          # whole rings / runs of consecutive segments
            a = draw(st.integers(0, nseg - 2))
            dl = list(range(a, draw(st.integers(a + 1, min(nseg - 1, a + 12))) + 1))
    else:
        # entries that name no segment under any reading (beyond the last ring, or below -nseg): they drop nothing
        dl = draw(st.sampled_from([[1, nseg + 3], [1, -nseg - 3], [0, -(nseg + 1), nseg], [nseg + 40, -nseg - 40, 2]]))
    return {"rings": rings, "radius": draw(gen.finite(5.0, 12.0)),
            "gap": draw(st.sampled_from([0, 0.5, 1, 2, 2.75, 4])) if draw(st.booleans()) else draw(gen.finite(0.0, 4.0)),
            "rotate": draw(st.booleans()), "antialias": draw(st.booleans()), "pad": draw(st.integers(0, 4)),
            "drop": dl, "flatten": draw(st.booleans())}


@hyp("C20", "hex_segments", lambda tier: hexseg_case(tier),
     "hex_segments: segment count, areas, pairwise disjointness (binary masks), clear border",
     examples=(120, 500), budget_s=(60, 600))
def hex_segments(case, ctx):
    k, r, gap = case["rings"], case["radius"], case["gap"]
    nseg = 1 + 3 * k * (k + 1)
    ndrop = len([d for d in set(case["drop"]) if 0 <= d < nseg])
    ctx.tag(f"rings:{k}", "rotate" if case["rotate"] else None, "antialias" if case["antialias"] else "binary",
            f"pad:{case['pad']}", "gap0" if gap == 0 else "gap>0", "flatten" if case["flatten"] else None,
            f"dropped:{ndrop}", "drop_has_entries_below_-nseg" if any(d < -nseg for d in case["drop"]) else None)
    ctx.nontrivial_if(k >= 1 and ndrop < nseg)
    if ndrop == nseg:
        raise Skip("all_dropped")
    # the drop list in any list-like container (membership is all that matters)
    drop_arg, dform = gen.as_container(case["drop"], k + len(case["drop"]) + case["pad"] + int(case["rotate"]) * 3,
                                       ordered=False)
    ctx.tag("drop_as:" + dform)
    with lentil_call("C20.hexseg", f"hex_segments(drop as {dform})"):
        m = lentil.hex_segments(k, r, gap, rotate=case["rotate"], antialias=case["antialias"], flatten=False,
                                pad=case["pad"], drop=drop_arg)
    if m.ndim != 3 or m.shape[0] != nseg - ndrop:
        raise Violation("C20.hexseg.count", f"{m.shape[0] if m.ndim == 3 else m.shape} segments, expected "
                                            f"1+3k(k+1)-dropped = {nseg - ndrop}")
    if m.min() < 0 or m.max() > 1:
        raise Violation("C20.hexseg.range", "segment masks outside [0,1]")
    area = 1.5 * np.sqrt(3) * r * r
    tol = 0.25 * 6 * r + 2
    areas = m.reshape(m.shape[0], -1).sum(axis=1)
    if np.any(np.abs(areas - area) > tol):
        raise Violation("C20.hexseg.area", f"segment areas {np.round(areas, 1).tolist()} vs hexagon area {area:.1f}"
                                           f" (tol {tol:.1f})")
    if areas.max() - areas.min() > tol:
        raise Violation("C20.hexseg.equal_area", f"segment areas differ by {areas.max() - areas.min():.1f}")
    if not case["antialias"]:
        tot = m.sum(axis=0)
        n_over = int((tot > 1).sum())
        if n_over:
            raise Violation("C20.hexseg.disjoint", f"{n_over} samples belong to more than one segment "
                                                   f"(rings={k}, radius={r}, gap={gap}, rotate={case['rotate']})")
    # the antialiased edge reaches half a sample beyond the geometric hexagon and an even-sized
    # array has one sample less room on the high side, so a soft-edged aperture needs pad >= 2
    # (the default) to be clear of the border; binary masks are clear from pad >= 1
    if case["pad"] >= (2 if case["antialias"] else 1):
        tot = m.sum(axis=0)
        edge = tot[0].sum() + tot[-1].sum() + tot[:, 0].sum() + tot[:, -1].sum()
        if edge != 0:
            raise Violation("C20.hexseg.border", f"aperture touches the array border with pad={case['pad']}")
    if case["flatten"]:
        with lentil_call("C20.hexseg", "hex_segments(flatten=True)"):
            flat = lentil.hex_segments(k, r, gap, rotate=case["rotate"], antialias=case["antialias"],
                                       flatten=True, pad=case["pad"], drop=tuple(case["drop"]))
        if flat.shape != m.shape[1:] or not np.allclose(flat, m.sum(axis=0), atol=1e-12):
            raise Violation("C20.hexseg.flatten", "flatten=True is not the sum of the segment masks")


@st.composite
def spider_case(draw, tier):
    shape = draw(gen.shape2(8, 40))
    return {"shape": list(shape), "width": draw(gen.finite(0.5, 6.0)), "angle": draw(st.sampled_from([0, 45.0, 90, 120.0, -30.0, 270])),
            "shift": [draw(st.integers(-3, 3)), draw(st.integers(-3, 3))], "antialias": draw(st.booleans())}


@hyp("C20", "spider", lambda tier: spider_case(tier),
     "spider: values in [0, 1], binary without antialiasing, complement of the corresponding rectangle arm",
     examples=(150, 600))
def spider(case, ctx):
    shape = tuple(case["shape"])
    ctx.tag("antialias" if case["antialias"] else "binary", gen.parity_tags("s", shape))
    ctx.nontrivial_if(any(case["shift"]) or shape[0] != shape[1])
    with lentil_call("C20.spider", "spider"):
        a = lentil.spider(shape, case["width"], angle=case["angle"], shift=tuple(case["shift"]), antialias=case["antialias"])
    if a.shape != shape or a.min() < 0 or a.max() > 1 or not np.all(np.isfinite(a)):
        raise Violation("C20.shape.range", f"spider values outside [0,1] or wrong shape {a.shape}")
    if not case["antialias"] and not np.all((a == 0) | (a == 1)):
        raise Violation("C20.shape.binary", "spider(antialias=False) is not binary")
    if a.min() == 1:
        raise Violation("C20.shape.empty", "spider arm of width >= 0.5 drew nothing")


# --- large arrays (sizes at and around 64 / 128 / 256 / 512) ------------------------------------------------

@st.composite
def large_geom_case(draw, tier, mega=False):
    pool = gen.BIG + gen.HUGE
    n = (draw(st.sampled_from(pool)), draw(st.sampled_from(pool + [7, 20])))
    N = (draw(st.sampled_from(pool + [9, 30])), draw(st.sampled_from(pool)))
    if mega:             # more than 2^20 samples, sizes of no special form; padded a little or cropped a little
        n = draw(gen.mega_shape())
        N = (n[0] + draw(st.integers(-40, 40)), n[1] + draw(st.integers(-40, 40)))
    return {"n": list(n), "N": list(N), "depth": draw(st.sampled_from([0, 0, 2])), "seed": draw(st.integers(0, 2**31 - 1)),
            "layout": draw(gen.layouts()), "factor": draw(st.sampled_from([2, 3, 4, 8]))}


def _ref_pad_fast(a, N):
    out = np.zeros(a.shape[:-2] + tuple(N), dtype=a.dtype)
    n = a.shape[-2:]
    src, dst = [], []
    for ax in range(2):
        i = np.arange(n[ax])
        I = i - n[ax] // 2 + N[ax] // 2
        ok = (I >= 0) & (I < N[ax])
        src.append(i[ok])
        dst.append(I[ok])
    out[..., dst[0][:, None], dst[1][None, :]] = a[..., src[0][:, None], src[1][None, :]]
    return out


@hyp("C20", "mega", lambda tier: large_geom_case(tier, mega=True),
     "the same on arrays of more than 2^20 samples (1030..3000 rows/columns)", examples=(4, 16), budget_s=(150, 700))
def mega(case, ctx):
    ctx.tag("mega")
    large(case, ctx)


@hyp("C20", "large", lambda tier: large_geom_case(tier),
     "pad / crop / subarray / boundary_slice / slice_offset / centroid / rebin on arrays of 63..700 samples per axis",
     examples=(40, 150), budget_s=(120, 600))
def large(case, ctx):
    n, N = tuple(case["n"]), tuple(case["N"])
    rng = np.random.default_rng(case["seed"])
    shape = n if case["depth"] == 0 else (case["depth"],) + n
    a = gen.relayout(rng.uniform(1, 2, size=shape), case["layout"])
    ctx.tag("cube" if case["depth"] else "2d", "layout:" + case["layout"], f"max:{max(max(n), max(N)) // 128 * 128}+")
    ctx.nontrivial_if(True)
    with lentil_call("C20.large.pad", f"pad({a.shape} -> {N})"):
        out = lentil.pad(a, N)
    if not np.array_equal(out, _ref_pad_fast(a, N)):
        raise Violation("C20.large.pad", f"pad({a.shape} -> {N}) does not keep sample floor(n/2) at floor(N/2)")
    # a blob somewhere in the array: bounding slice, offset, centroid
    img = np.zeros(n)
    r0, c0 = int(rng.integers(0, n[0] - 3)), int(rng.integers(0, n[1] - 3))
    h, w = int(rng.integers(1, min(40, n[0] - r0))), int(rng.integers(1, min(40, n[1] - c0)))
    img[r0:r0 + h, c0:c0 + w] = rng.uniform(0.5, 1.5, size=(h, w))
    img = gen.relayout(img, case["layout"])
    with lentil_call("C20.large.bounds", "boundary_slice / slice_offset / centroid / subarray"):
        sl = lhelper.boundary_slice(img)
        off = lhelper.slice_offset(sl, n)
        cr, cc = lentil.centroid(img)
        sub = lentil.subarray(img, (h, w), tuple(int(v) for v in off))
    want_off = (r0 + h // 2 - n[0] // 2, c0 + w // 2 - n[1] // 2)
    if (int(sl[0].start), int(sl[0].stop), int(sl[1].start), int(sl[1].stop)) != (r0, r0 + h, c0, c0 + w):
        raise Violation("C20.large.boundary_slice", f"bounding slice {sl} != rows {r0}:{r0 + h}, cols {c0}:{c0 + w}")
    if tuple(int(v) for v in off) != want_off:
        raise Violation("C20.large.slice_offset", f"slice_offset {off} != {want_off} for array {n}")
    if not np.array_equal(sub, img[r0:r0 + h, c0:c0 + w]):
        raise Violation("C20.large.subarray", "subarray(shape, shift=slice_offset) is not the bounding box content")
    ii, jj = np.indices(n)
    er, ec = float((ii * img).sum() / img.sum()), float((jj * img).sum() / img.sum())
    if abs(cr - er) > 1e-8 * n[0] or abs(cc - ec) > 1e-8 * n[1]:
        raise Violation("C20.large.centroid", f"centroid {(cr, cc)} != first moment {(er, ec)} for array {n}")
    f = case["factor"]
    m2 = (n[0] // f * f, n[1] // f * f)
    if min(m2) >= f:
        src = np.ascontiguousarray(a[..., :m2[0], :m2[1]])
        with lentil_call("C20.large.rebin", f"rebin({src.shape}, {f})"):
            rb = lentil.rebin(src, f)
        exp = src.reshape(src.shape[:-2] + (m2[0] // f, f, m2[1] // f, f)).sum(axis=(-3, -1))
        if rb.shape != exp.shape or np.max(np.abs(rb - exp)) > 1e-10 * f * f:
            raise Violation("C20.large.rebin", f"rebin({src.shape}, {f}) differs from block sums")


# --- one very long axis (more than 2^16 samples) ----------------------------------------------------------------------

@hyp("C20", "long_axis", lambda tier: st.fixed_dictionaries(
        {"n": st.integers(65537, 140001), "thin": st.integers(1, 3), "axis": st.integers(0, 1),
         "pos": st.floats(0.5, 0.999), "len": st.integers(1, 40), "dN": st.integers(-30, 30), "seed": st.integers(0, 2**31 - 1)}),
     "arrays with one axis of 65537..140001 samples: centroid, bounding slice, slice offset, subarray and pad of a blob "
     "that lies beyond index 65535", examples=(12, 60), budget_s=(100, 500))
def long_axis(case, ctx):
    n, t = case["n"], case["thin"]
    rng = np.random.default_rng(case["seed"])
    start = min(int(case["pos"] * n), n - case["len"] - 1)
    start = max(start, 65536)
    L = min(case["len"], n - start)
    img = np.zeros((t, n))
    img[:, start:start + L] = rng.uniform(0.5, 1.5, size=(t, L))
    shape = (t, n)
    if case["axis"] == 0:
        img, shape = np.ascontiguousarray(img.T), (n, t)
    ctx.tag(f"axis:{case['axis']}", "beyond_2^16", "beyond_2^17" if start >= 131072 else None)
    ctx.nontrivial_if(True)
    with lentil_call("C20.long", f"centroid / boundary_slice / slice_offset / subarray / pad on a {shape} array"):
        cr, cc = lentil.centroid(img)
        sl = lhelper.boundary_slice(img)
        off = lhelper.slice_offset(sl, shape)
        bshape = (sl[0].stop - sl[0].start, sl[1].stop - sl[1].start)
        sub = lentil.subarray(img, bshape, tuple(int(v) for v in off))
        N = (shape[0] + (case["dN"] if case["axis"] == 0 else 0), shape[1] + (case["dN"] if case["axis"] == 1 else 0))
        padded = lentil.pad(img, N)
    ii = np.arange(shape[0])[:, None]
    jj = np.arange(shape[1])[None, :]
    er, ec = float((ii * img).sum() / img.sum()), float((jj * img).sum() / img.sum())
    if abs(cr - er) > 1e-6 or abs(cc - ec) > 1e-6:
        raise Violation("C20.long.centroid", f"centroid {(cr, cc)} of a blob at index {start}..{start + L - 1} of a {shape} "
                                             f"array, first moments give {(er, ec)}")
    rows, cols = np.flatnonzero(img.any(axis=1)), np.flatnonzero(img.any(axis=0))
    want = (int(rows[0]), int(rows[-1]) + 1, int(cols[0]), int(cols[-1]) + 1)
    if (sl[0].start, sl[0].stop, sl[1].start, sl[1].stop) != want:
        raise Violation("C20.long.boundary_slice", f"bounding slice {sl} != {want}")
    want_off = (want[0] + (want[1] - want[0]) // 2 - shape[0] // 2, want[2] + (want[3] - want[2]) // 2 - shape[1] // 2)
    if tuple(int(v) for v in off) != want_off:
        raise Violation("C20.long.slice_offset", f"slice_offset {tuple(off)} != {want_off}")
    if not np.array_equal(sub, img[want[0]:want[1], want[2]:want[3]]):
        raise Violation("C20.long.subarray", "subarray(bounding box shape, shift=slice_offset) is not the bounding box content")
    if not np.array_equal(padded, _ref_pad_fast(img, N)):
        raise Violation("C20.long.pad", f"pad({shape} -> {N}) does not keep sample floor(n/2) at floor(N/2)")
