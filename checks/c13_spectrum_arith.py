"""C13 - Spectrum arithmetic is pointwise, commutative and unit-agnostic."""
import operator

import numpy as np
from hypothesis import strategies as st

import lentil
from lentil.radiometry import Spectrum
from vlib import gen
from vlib.ref import spectrum as rs
from vlib.runner import Skip, Violation, hyp, lentil_call

# the check's own calls are issued with keywords or positionally in the documented order (vlib/callforms.py)
from vlib import callforms as _cf
lentil = _cf.proxy(lentil)

RULE = ("pairs of spectra in every range relation (identical, nested, partially overlapping, disjoint), uniform "
        "and non-uniform grids, five operators, sampling min/left/right/float, linear/quadratic/cubic "
        "interpolation, scalar and two-sided fill values, all four wavelength units (same and mixed), scalar and "
        "vector operands; non-trivial = the operands' grids differ; distinct = distinct canonical descriptors")
ASSUMPTIONS = [
    "grid points whose membership in an operand's range is decided by rounding (within 1e-9 of an end) are skipped",
    "one grid point more or less is accepted only when span/spacing is within 1e-9 of an integer",
    "quadratic/cubic reference is an independent scipy interp1d of the same kind",
    "products of two per-wavelength densities are not generated (their unit behaviour is not defined by the property)",
]

UNITS = ["nm", "um", "m", "angstrom"]
OPS = {"add": operator.add, "subtract": operator.sub, "multiply": operator.mul, "divide": operator.truediv,
       "power": operator.pow}


@st.composite
def grid_nm(draw, lo=200.0, hi=3000.0, nmin=2, nmax=40):
    n = draw(st.integers(nmin, nmax)) if draw(st.floats(0, 1)) > 0.03 else draw(st.sampled_from([257, 512, 1025, 3000]))
    a = draw(gen.finite(lo, hi - 50))
    b = draw(gen.finite(a + 5.0, hi))
    if draw(st.booleans()):
        return np.linspace(a, b, n), "uniform"
    k = draw(st.integers(0, 2**31 - 1))
    inc = np.random.default_rng(k).uniform(0.2, 1.0, size=n - 1)
    w = a + np.concatenate([[0], np.cumsum(inc)]) / inc.sum() * (b - a)
    w[-1] = b
    return w, "nonuniform"


@st.composite
def pair_case(draw, tier="quick"):
    relation = draw(st.sampled_from(["identical", "nested", "partial", "disjoint", "free", "same_numbers", "near_aligned"]))
    nmax = 25 if tier == "quick" else 60
    w1, k1 = draw(grid_nm(nmax=nmax))
    if relation == "identical":
        w2, k2 = w1.copy(), k1
    else:
        w2, k2 = draw(grid_nm(nmax=nmax))
        lo1, hi1 = w1[0], w1[-1]
        span = hi1 - lo1
        n2 = len(w2)
        u = (w2 - w2[0]) / (w2[-1] - w2[0])
        if relation == "nested":
            a = lo1 + span * draw(gen.finite(0.05, 0.4))
            b = hi1 - span * draw(gen.finite(0.05, 0.4))
            w2 = a + u * (b - a)
        elif relation == "partial":
            a = lo1 + span * draw(gen.finite(0.2, 0.8))
            b = hi1 + span * draw(gen.finite(0.1, 1.0))
            w2 = a + u * (b - a)
        elif relation == "disjoint":
            a = hi1 + span * draw(gen.finite(0.05, 0.5))
            b = a + span * draw(gen.finite(0.2, 1.0))
            w2 = a + u * (b - a)
        if draw(st.booleans()):
            w1, w2, k1, k2 = w2, w1, k2, k1
    if relation == "near_aligned":
        # a finely and uniformly sampled operand (spacing h = 1e-3 .. 1e-7 of the wavelength) and a coarser one whose
        # far end makes the union (K + e) h long with |e| = 0 .. 1e-2: the common grid nearly, but not exactly,
        # coincides with the fine operand's own samples
        L = draw(gen.finite(300.0, 2000.0))
        h = L * draw(st.sampled_from([1e-3, 1e-4, 1e-5, 1e-6, 1e-7]))
        N = draw(st.integers(40, 300))
        w1 = L + h * np.arange(N + 1)
        K = draw(st.integers(N + 1, 2 * N))
        if draw(st.booleans()):
            # drift of the common grid against the fine samples between 1e-12 and 5e-10 of the wavelength: far more
            # than rounding, far less than any "same wavelength" tolerance one might be tempted to use
            e = -min(0.02, draw(st.sampled_from([5e-10, 2e-10, 1e-10, 1e-11, 1e-12])) / (h / L)) * draw(st.sampled_from([1.0, 1.0, -1.0]))
        else:
            e = draw(st.sampled_from([0.0, 1e-2, 1e-3, 1e-4, 1e-5, 1e-6, 1e-7])) * draw(st.sampled_from([-1.0, 1.0]))
        n2 = draw(st.integers(3, 30))
        start = L + h * (draw(st.integers(0, N)) + (0.5 if draw(st.booleans()) else 0.0))
        w2 = np.linspace(start, L + (K + e) * h, n2)
        k1, k2 = "uniform", "uniform"
        if draw(st.booleans()):
            w1, w2 = w2, w1
    op = draw(st.sampled_from(list(OPS)))
    pos = op in ("divide", "power")
    s1 = draw(st.integers(0, 2**31 - 1))
    s2 = draw(st.integers(0, 2**31 - 1))
    r1, r2 = np.random.default_rng(s1), np.random.default_rng(s2)
    v1 = r1.uniform(0.5, 2.0, size=len(w1)) if pos else r1.uniform(-2, 2, size=len(w1))
    v2 = r2.uniform(0.5, 2.0, size=len(w2)) if pos else r2.uniform(-2, 2, size=len(w2))
    vs = draw(gen.scales())
    if op != "power":
        v1, v2 = v1 * vs, v2 * (1.0 if op in ("multiply", "divide") else vs)
    if draw(st.booleans()) and not pos:
        v1[: len(v1) // 3] = 0.0
    method = draw(st.sampled_from(["linear", "linear", "quadratic", "cubic"]))
    if min(len(w1), len(w2)) < 4:
        method = "linear"
    sampling = draw(st.sampled_from(["min", "min", "left", "right", "float"]))
    if relation == "near_aligned" and draw(st.booleans()):
        sampling = "min"
    if sampling == "float":
        span = max(w1[-1], w2[-1]) - min(w1[0], w2[0])
        sampling = span / draw(gen.finite(3.3, 80.7))
    fill = draw(st.sampled_from(["zero", "scalar", "two_sided"]))
    if pos and fill == "zero":
        fill = "scalar"
    if fill == "zero":
        fv = 0
    elif fill == "scalar":
        fv = draw(gen.finite(0.5, 3.0))
    else:
        fv = [draw(gen.finite(0.5, 3.0)), draw(gen.finite(0.5, 3.0))]
    unit1 = draw(st.sampled_from(UNITS))
    unit2 = unit1 if draw(st.floats(0, 1)) < 0.6 else draw(st.sampled_from(UNITS))
    if relation == "same_numbers":
        # the two operands hold the SAME numbers in DIFFERENT units (physically different ranges)
        unit1, unit2 = draw(st.sampled_from([("nm", "angstrom"), ("angstrom", "nm"), ("um", "nm"), ("nm", "um")]))
        # coarse uniform grid: the union grid then stays below ~2e5 points for a 1000x unit ratio
        # round numbers (integer start and step): exactly uniform and bit-identical in both operands
        raw = float(draw(st.integers(200, 2000))) + float(draw(st.integers(5, 200))) * np.arange(min(len(w1), 12))
        w1 = raw * rs.factor(unit1, "nm")
        w2 = raw * rs.factor(unit2, "nm")
        k1 = k2 = "uniform"
        v1, v2 = v1[:len(w1)], np.resize(v2, len(w1))
    # per-wavelength densities: only add/subtract, and only with fill 0 (a non-zero fill value is a raw
    # number whose unit the property does not define)
    density = op in ("add", "subtract") and fv == 0 and draw(st.booleans())
    return {"w1_nm": w1, "v1": v1, "w2_nm": w2, "v2": v2, "relation": relation, "grids": [k1, k2], "op": op,
            "method": method, "sampling": sampling, "fill": fv, "unit1": unit1, "unit2": unit2,
            "alt_unit": draw(st.sampled_from(UNITS)), "valueunit": "photlam" if density else None,
            "use_operator": draw(st.booleans()), "raw": raw if relation == "same_numbers" else None}


def mk(w_nm, v, unit, valueunit):
    from checks import common as cm
    f = rs.factor("nm", unit)
    vv = v / f if valueunit else v          # density per unit wavelength
    # as constructed, an equal duplicate (copy() / deepcopy / pickle round trip), or built in another process
    return cm.build_obj(Spectrum, "lentil.radiometry.Spectrum", len(w_nm) + int(abs(float(v[0])) * 1000),
                        w_nm * f, vv.copy(), waveunit=unit, valueunit=valueunit)[0]


def snapshot_phys(s):
    """(wavelengths in metres, values expressed per metre if density)"""
    f = rs.factor(s.waveunit, "m")
    v = np.asarray(s.value, dtype=float)
    return np.asarray(s.wave, dtype=float) * f, (v / f if s.valueunit else v)


def cm_max(a):
    return float(np.max(np.abs(a))) if np.size(a) else 0.0


def close(a, b, rel=1e-10):
    a, b = np.asarray(a, dtype=float), np.asarray(b, dtype=float)
    if a.shape != b.shape:
        return False
    sc = max(float(np.max(np.abs(b))) if b.size else 0.0, 1e-300)
    return bool(np.all(np.abs(a - b) <= rel * sc + 1e-300))


def _near_any_end(case, rw):
    span = rw[-1] - rw[0]
    out = np.zeros(rw.shape, dtype=bool)
    for w in (case["w1_nm"], case["w2_nm"]):
        out |= (np.abs(rw - w[0]) < 1e-9 * max(span, w[-1])) | (np.abs(rw - w[-1]) < 1e-9 * max(span, w[-1]))
    return out


def call_op(a, b, case, sampling=None, fill=None):
    sampling = case["sampling"] if sampling is None else sampling
    fill = case["fill"] if fill is None else fill
    default = sampling == "min" and case["method"] == "linear" and fill == 0
    if case["use_operator"] and default:
        return OPS[case["op"]](a, b)
    return getattr(a, case["op"])(b, sampling=sampling, method=case["method"], fill_value=fill)


@hyp("C13", "pair", lambda tier: pair_case(tier),
     "Spectrum (op) Spectrum vs the reference: uniform union grid at the finer/requested spacing, op applied to "
     "the interpolants with fill outside, commutativity, unit independence, operands intact",
     examples=(500, 2000), budget_s=(150, 900))
def pair(case, ctx):
    u1, u2 = case["unit1"], case["unit2"]
    vu = case["valueunit"]
    a = mk(case["w1_nm"], case["v1"], u1, vu)
    b = mk(case["w2_nm"], case["v2"], u2, vu)
    if case.get("raw") is not None:
        # the very same numbers in both operands, in different units
        a.wave = np.array(case["raw"], dtype=float)
        b.wave = np.array(case["raw"], dtype=float)
    a_phys, b_phys = snapshot_phys(a), snapshot_phys(b)
    a_raw = (a.wave.copy(), a.value.copy(), a.waveunit)
    same_grid = len(a.wave) == len(b.wave) and np.allclose(case["w1_nm"], case["w2_nm"], rtol=1e-15, atol=0)
    ctx.tag("rel:" + case["relation"], "grid:" + "/".join(case["grids"]), "op:" + case["op"],
            "units:" + (u1 if u1 == u2 else "mixed"), "sampling:" + (case["sampling"] if isinstance(case["sampling"], str) else "float"),
            "method:" + case["method"], "fill:" + ("two_sided" if isinstance(case["fill"], list) else "scalar"),
            "density" if vu else None)
    ctx.nontrivial_if(not same_grid)
    # sampling given as a float is a wavelength interval in the unit of the left operand
    sampling = case["sampling"] if isinstance(case["sampling"], str) else case["sampling"] * rs.factor("nm", u1)
    with lentil_call("C13.pair", f"{case['op']}({u1}, {u2}, sampling={case['sampling']}, method={case['method']}, "
                                 f"fill={case['fill']})"):
        res = call_op(a, b, case, sampling=sampling)
    if res is a or res is b:
        raise Violation("C13.pair.new_object", "the result is one of the operands")
    # --- reference, computed in nm ------------------------------------------------------------
    w1, w2 = case["w1_nm"], case["w2_nm"]
    lo, hi, d, npts, ambiguous = rs.common_grid(w1, w2, case["sampling"])
    f_res = rs.factor(res.waveunit, "nm")
    rw = np.asarray(res.wave, dtype=float) * f_res
    if res.waveunit != u1:
        raise Violation("C13.pair.unit", f"result unit {res.waveunit}, left operand is in {u1}")
    span = hi - lo
    if abs(rw[0] - lo) > 1e-9 * span or abs(rw[-1] - hi) > 1e-9 * span:
        raise Violation("C13.pair.range", f"result spans [{rw[0]}, {rw[-1]}] nm, union of the operands is [{lo}, {hi}] nm "
                                          f"(units {u1}/{u2})")
    if len(rw) != npts and not (ambiguous and abs(len(rw) - npts) == 1):
        raise Violation("C13.pair.npoints", f"result has {len(rw)} points, expected ceil(span/d)+1 = {npts} "
                                            f"(span {span}, d {d})")
    dd = np.diff(rw)
    res_eps = 8 * np.finfo(float).eps * float(np.max(np.abs(rw)))      # float resolution of the grid values
    if np.any(np.abs(dd - dd[0]) > 1e-9 * abs(dd[0]) + res_eps) or dd[0] > d * (1 + 1e-9) + res_eps:
        raise Violation("C13.pair.uniform", f"result grid is not uniform at spacing <= {d}")
    exact = u1 == "nm" and u2 == "nm"
    e1, ok1 = rs.operand_on_grid(w1, case["v1"], rw, case["method"], case["fill"], exact_ends=exact)
    e2, ok2 = rs.operand_on_grid(w2, case["v2"], rw, case["method"], case["fill"], exact_ends=exact)
    with np.errstate(all="ignore"):
        exp = OPS[case["op"]](e1, e2)
    got = np.asarray(res.value, dtype=float)
    if vu:
        got = got / f_res            # per nm
    sel = ok1 & ok2 & np.isfinite(exp)
    tol = 1e-9 if case["method"] == "linear" else 1e-7
    sc = max(float(np.max(np.abs(exp[sel]))) if sel.any() else 0.0, cm_max(e1[sel]), cm_max(e2[sel]), 1e-300)
    # conditioning of the interpolation itself: a grid point's position is known to ~eps*|x|, which on a dense
    # operand grid (spacing h) moves the interpolated value by eps*|x|/h times the local value step
    def _pos_err(w, v):
        h = float(np.min(np.diff(w)))
        dv = float(np.max(np.abs(np.diff(v)))) if len(v) > 1 else 0.0
        return (64 if case["method"] == "linear" else 512) * np.finfo(float).eps * float(np.max(np.abs(w))) / h * dv
    d1, d2 = _pos_err(w1, case["v1"]), _pos_err(w2, case["v2"])
    with np.errstate(all="ignore"):
        a1, a2 = np.abs(e1), np.abs(e2)
        if case["op"] in ("add", "subtract"):
            prop = d1 + d2 + 0 * a1
        elif case["op"] == "multiply":
            prop = a2 * d1 + a1 * d2
        elif case["op"] == "divide":
            prop = d1 / a2 + a1 * d2 / a2 ** 2
        else:
            prop = np.abs(e2 * e1 ** (e2 - 1)) * d1 + np.abs(e1 ** e2 * np.log(e1)) * d2
        prop = np.where(np.isfinite(prop), prop, np.inf)
    bad = sel & (np.abs(got - exp) > tol * sc + prop)
    if bad.any():
        i = int(np.argmax(bad))
        raise Violation("C13.pair.value",
                        f"{case['op']} of {u1}/{u2} spectra ({case['relation']}): at {rw[i]:.6f} nm got {got[i]:.9g}, "
                        f"expected op({e1[i]:.9g}, {e2[i]:.9g}) = {exp[i]:.9g}")
    # --- operands intact (physically) -----------------------------------------------------------
    for name, s, ph in (("left", a, a_phys), ("right", b, b_phys)):
        now = snapshot_phys(s)
        if not (close(now[0], ph[0], 1e-12) and close(now[1], ph[1], 1e-12)):
            raise Violation("C13.pair.operand_changed", f"the {name} operand no longer describes the same spectrum "
                                                        f"after the operation (unit now {s.waveunit})")
    # --- commutativity ----------------------------------------------------------------------------
    if case["op"] in ("add", "multiply") and u1 == u2:
        swapped = {"left": "right", "right": "left"}.get(sampling, sampling)
        with lentil_call("C13.pair.commute", "reflected operation"):
            res2 = call_op(b, a, case, sampling=swapped)
        if not (close(res2.wave, res.wave, 1e-12) and close(res2.value, res.value, 1e-9)):
            raise Violation("C13.pair.commutative", f"a {case['op']} b differs from b {case['op']} a")
    # --- unit independence (metamorphic) -----------------------------------------------------------
    alt = case["alt_unit"]
    a2 = mk(case["w1_nm"], case["v1"], alt, vu)
    b2 = mk(case["w2_nm"], case["v2"], alt, vu)
    s_alt = case["sampling"] if isinstance(case["sampling"], str) else case["sampling"] * rs.factor("nm", alt)
    with lentil_call("C13.pair.units", f"same operation with both operands in {alt}"):
        res_alt = call_op(a2, b2, case, sampling=s_alt)
    p1, p2 = snapshot_phys(res), snapshot_phys(res_alt)
    if len(p1[0]) != len(p2[0]):
        if not ambiguous:
            raise Violation("C13.pair.unit_independent", f"result has {len(p1[0])} points in {u1}/{u2} but "
                                                         f"{len(p2[0])} points in {alt}")
    elif not (close(p1[0], p2[0], 1e-9) and
              np.all(np.abs(np.where(sel & ~_near_any_end(case, rw), p1[1] - p2[1], 0))
                     <= 1e-6 * max(cm_max(a_phys[1]), cm_max(b_phys[1]), cm_max(p1[1][sel]), 1e-300))):
        raise Violation("C13.pair.unit_independent", f"operating in {u1}/{u2} and in {alt} gives different spectra")


# --- scalars and vectors ---------------------------------------------------------------------------

@st.composite
def scalar_case(draw, tier="quick"):
    w, k = draw(grid_nm(nmax=30))
    s = draw(st.integers(0, 2**31 - 1))
    v = np.random.default_rng(s).uniform(0.5, 2.0, size=len(w))
    other = draw(st.sampled_from(["int", "float", "list", "array", "tuple"]))
    if other == "int":
        o = draw(st.integers(1, 5))
    elif other == "float":
        o = draw(gen.finite(0.5, 3.0))
    else:
        o = np.random.default_rng(s + 1).uniform(0.5, 2.0, size=len(w))
    return {"w_nm": w, "v": v, "unit": draw(st.sampled_from(UNITS)), "op": draw(st.sampled_from(list(OPS))),
            "other_kind": other, "other": o, "rmul": draw(st.booleans()), "int_lists": draw(st.booleans())}


@hyp("C13", "scalar_vector", lambda tier: scalar_case(tier),
     "Spectrum (op) scalar / equal-length vector acts element-wise on the unchanged wavelength grid; reflected "
     "multiplication", examples=(400, 1500))
def scalar_vector(case, ctx):
    if case.get("int_lists") and case["unit"] == "nm":
        # a spectrum given as plain lists of integers
        wi = sorted(set(int(round(x)) for x in case["w_nm"]))
        vi = [int(x * 10) + 1 for x in case["v"][:len(wi)]]
        s = Spectrum(wi, vi, waveunit="nm")
        case = dict(case, w_nm=np.array(wi, dtype=float), v=np.array(vi, dtype=float),
                    other=(case["other"] if np.ndim(case["other"]) == 0 else np.asarray(case["other"])[:len(wi)]))
        ctx.tag("int_lists")
    else:
        s = mk(case["w_nm"], case["v"], case["unit"], None)
    w0, v0 = np.array(s.wave, copy=True), np.array(s.value, copy=True)
    o = case["other"]
    if case["other_kind"] == "list":
        o = list(np.asarray(o).tolist())
    elif case["other_kind"] == "tuple":
        o = tuple(np.asarray(o).tolist())
    ctx.tag("other:" + case["other_kind"], "op:" + case["op"], "unit:" + case["unit"], "rmul" if case["rmul"] else None)
    ctx.nontrivial_if(case["other_kind"] in ("list", "array", "tuple"))
    with lentil_call("C13.scalar", f"{case['op']} with {case['other_kind']}"):
        if case["rmul"] and case["op"] == "multiply" and case["other_kind"] in ("int", "float"):
            res = o * s
        else:
            res = OPS[case["op"]](s, o)
    exp = OPS[case["op"]](v0, np.asarray(case["other"], dtype=float))
    if res is s:
        raise Violation("C13.scalar.new_object", "the result is the operand itself")
    if not np.array_equal(res.wave, w0) or res.waveunit != case["unit"]:
        raise Violation("C13.scalar.grid", "the wavelength grid or unit changed")
    if not close(res.value, exp, 1e-14):
        raise Violation("C13.scalar.value", f"{case['op']} with {case['other_kind']} is not element-wise")
    if not (np.array_equal(s.wave, w0) and np.array_equal(s.value, v0)):
        raise Violation("C13.scalar.operand_changed", "the operand was modified")
    # a numpy vector on the LEFT (vec * spectrum), for the spectrum as constructed and for one that is
    # itself the result of a Spectrum-with-Spectrum operation
    if case["other_kind"] == "array" and case["op"] == "multiply":          # (only multiplication is reflected: there is no __radd__)
        fn = OPS[case["op"]]
        with lentil_call("C13.scalar.left", "spectrum (op) spectrum"):
            derived = s + s
        for name, sp in (("constructed", s), ("derived", derived)):
            vec = np.linspace(0.5, 2.0, len(np.asarray(sp.value)))
            gw, gv = np.array(sp.wave, copy=True), np.array(sp.value, copy=True)
            with lentil_call("C13.scalar.left", f"ndarray {case['op']} {name} spectrum"):
                left = fn(vec, sp)
                right = fn(sp, vec)
            for side, r in (("vector on the left", left), ("vector on the right", right)):
                if not isinstance(r, Spectrum):
                    raise Violation("C13.scalar.left_type", f"{case['op']} of a {name} spectrum with a numpy {side} returned "
                                                            f"{type(r).__name__}{getattr(r, 'shape', '')}, not a Spectrum")
                if not np.array_equal(r.wave, gw) or not close(r.value, fn(vec, gv), 1e-14):
                    raise Violation("C13.scalar.left_value", f"{case['op']} of a {name} spectrum with a numpy {side} is not element-wise "
                                                             f"on the unchanged grid")
        ctx.tag("ndarray_on_the_left")


# --- histories: operations interleaved with edits of the operands -----------------------------------

EDITS = ["set_value", "inplace_slice", "inplace_slice", "inplace_mask", "inplace_ufunc", "inplace_scale", "set_wave",
         "crop", "pad", "to_unit", "resample"]


@st.composite
def history_case(draw, tier="quick"):
    w1, k1 = draw(grid_nm(nmin=6, nmax=25))
    w2, k2 = draw(grid_nm(nmin=6, nmax=25))
    if draw(st.booleans()):          # overlapping ranges
        w2 = w1[0] + (w2 - w2[0]) / (w2[-1] - w2[0]) * (w1[-1] - w1[0]) * draw(gen.finite(0.5, 1.5)) \
             + (w1[-1] - w1[0]) * draw(gen.finite(-0.3, 0.3))
        w2 = w2 - min(0.0, w2[0] - 150.0)
    s = draw(st.integers(0, 2**31 - 1))
    rng = np.random.default_rng(s)
    method = draw(st.sampled_from(["linear", "quadratic", "cubic", "cubic"]))
    fill = draw(st.sampled_from([0, 0, 1.0]))
    steps = []
    for _ in range(draw(st.integers(2, 8 if tier == "quick" else 14))):
        if draw(st.floats(0, 1)) < 0.5:
            steps.append({"kind": "op", "op": draw(st.sampled_from(list(OPS))), "swap": draw(st.booleans()),
                          "method": method if draw(st.floats(0, 1)) < 0.8 else draw(st.sampled_from(["linear", "quadratic", "cubic"])),
                          "sampling": draw(st.sampled_from(["min", "min", "left", "right"])),
                          "fill": fill if draw(st.floats(0, 1)) < 0.8 else draw(st.sampled_from([0, 1.0]))})
        else:
            steps.append({"kind": "edit", "edit": draw(st.sampled_from(EDITS)), "target": draw(st.sampled_from(["a", "b"])),
                          "x": draw(gen.finite(0.0, 1.0)), "y": draw(gen.finite(0.0, 1.0)),
                          "seed": draw(st.integers(0, 2**31 - 1)), "unit": draw(st.sampled_from(UNITS))})
    if not any(x["kind"] == "op" for x in steps):
        steps.append({"kind": "op", "op": "multiply", "swap": False, "method": method, "sampling": "min", "fill": 0})
    return {"w1_nm": w1, "w2_nm": w2, "v1": rng.uniform(0.5, 2.0, size=len(w1)), "v2": rng.uniform(0.5, 2.0, size=len(w2)),
            "unit1": draw(st.sampled_from(UNITS)), "unit2": draw(st.sampled_from(UNITS)), "steps": steps}


def apply_edit(s, st_):
    """Edits a spectrum through its public attributes and its documented editing methods."""
    e = st_["edit"]
    n = len(s.wave)
    rng = np.random.default_rng(st_["seed"])
    if e == "set_value":
        s.value = rng.uniform(0.5, 2.0, size=n)
    elif e == "inplace_slice":
        i = int(st_["x"] * (n - 1))
        j = min(n, i + 1 + int(st_["y"] * (n - i)))
        s.value[i:j] = 0.25 + st_["y"]
    elif e == "inplace_mask":
        sel = np.asarray(s.wave) > np.asarray(s.wave)[int(st_["x"] * (n - 1))]
        s.value[sel] = 0.5 * st_["y"]
    elif e == "inplace_ufunc":
        np.multiply(s.value, 0.5 + st_["x"], out=s.value)
    elif e == "inplace_scale":
        s.value *= 0.5 + st_["x"]
    elif e == "set_wave":
        s.wave = np.asarray(s.wave) * (1.0 + 0.05 * st_["x"])
    elif e == "crop":
        w = np.asarray(s.wave)
        if n >= 12:                # keeps at least 6 samples (cubic interpolation needs 4)
            s.crop(w[1 + int(st_["x"] * 2)], w[-2 - int(st_["y"] * 2)])
    elif e == "pad":
        if n < 400:
            w = np.asarray(s.wave)
            span = w[-1] - w[0]
            s.pad((max(w[0] - span * 0.1 * (1 + st_["x"]), w[0] * 0.5), w[-1] + span * 0.1 * (1 + st_["y"])),
                  mode="edge" if st_["seed"] % 2 else "constant")
    elif e == "to_unit":
        s.to(st_["unit"])
    elif e == "resample":
        w = np.asarray(s.wave)
        m = max(4, min(60, int(n * (0.6 + st_["x"]))))
        s.resample(np.linspace(w[0], w[-1], m), waveunit=s.waveunit)


@hyp("C13", "edit_history", lambda tier: history_case(tier),
     "binary operations interleaved with edits of the operands (value/wave assignment, in-place edits of .value, "
     "crop, pad, to, resample): every operation must equal the same operation on freshly built spectra holding the "
     "operands' current wave/value/units", examples=(300, 1200), budget_s=(120, 600))
def edit_history(case, ctx):
    a = mk(case["w1_nm"], case["v1"], case["unit1"], None)
    b = mk(case["w2_nm"], case["v2"], case["unit2"], None)
    done, n_ops, edited_since_op = [], 0, False
    for i, st_ in enumerate(case["steps"]):
        if st_["kind"] == "edit":
            tgt = a if st_["target"] == "a" else b
            with lentil_call("C13.edit_history", f"edit {st_['edit']} [{' '.join(done)}]"):
                apply_edit(tgt, st_)
            done.append(f"{st_['target']}.{st_['edit']}")
            edited_since_op = edited_since_op or n_ops > 0
            continue
        x, y = (b, a) if st_["swap"] else (a, b)
        fx = Spectrum(np.array(x.wave, dtype=float), np.array(x.value, dtype=float), waveunit=x.waveunit, valueunit=x.valueunit)
        fy = Spectrum(np.array(y.wave, dtype=float), np.array(y.value, dtype=float), waveunit=y.waveunit, valueunit=y.valueunit)
        kw = dict(sampling=st_["sampling"], method=st_["method"], fill_value=st_["fill"])
        label = f"{'b' if st_['swap'] else 'a'}.{st_['op']}({st_['method']},{st_['sampling']})"
        with lentil_call("C13.edit_history", f"{label} after [{' '.join(done)}]"):
            with np.errstate(all="ignore"):
                got = getattr(x, st_["op"])(y, **kw)
                ref = getattr(fx, st_["op"])(fy, **kw)
        done.append(label)
        n_ops += 1
        gw, gv = np.asarray(got.wave, dtype=float), np.asarray(got.value, dtype=float)
        rw, rv = np.asarray(ref.wave, dtype=float), np.asarray(ref.value, dtype=float)
        fin = np.isfinite(rv)
        sc = max(cm_max(rv[fin]), 1e-300)
        if got.waveunit != ref.waveunit or gw.shape != rw.shape or not close(gw, rw, 1e-12) \
                or not np.array_equal(np.isfinite(gv), fin) or np.any(np.abs(gv[fin] - rv[fin]) > 1e-10 * sc):
            raise Violation("C13.edit_history.stale", f"step {i}: {label} differs from the same operation on fresh spectra "
                                                      f"with the operands' current data [history: {' '.join(done)}]")
    ctx.tag(f"ops:{min(n_ops, 4)}", "edit_between_ops" if edited_since_op else None,
            *sorted({"edit:" + x["edit"] for x in case["steps"] if x["kind"] == "edit"}))
    ctx.nontrivial_if(edited_since_op and n_ops >= 2)


# --- an operand that is a Spectrum subclass (Blackbody) -------------------------------------------------------------

@st.composite
def subclass_case(draw, tier="quick"):
    lo = draw(gen.finite(300.0, 900.0))
    hi = lo + draw(gen.finite(100.0, 900.0))
    n1 = draw(st.integers(5, 60))
    rel = draw(st.sampled_from(["wider", "shifted_up", "shifted_down", "disjoint", "inside", "same"]))
    span = hi - lo
    a, b = {"wider": (lo - 0.3 * span, hi + 0.4 * span), "shifted_up": (lo + 0.4 * span, hi + 0.5 * span),
            "shifted_down": (lo - 0.5 * span, hi - 0.3 * span), "disjoint": (hi + 0.2 * span, hi + 0.9 * span),
            "inside": (lo + 0.2 * span, hi - 0.2 * span), "same": (lo, hi)}[rel]
    n2 = draw(st.integers(3, 40))
    return {"w_bb": np.linspace(lo, hi, n1), "temp": draw(gen.finite(2500.0, 12000.0)), "w2": np.linspace(max(a, 50.0), b, n2),
            "seed": draw(st.integers(0, 2**31 - 1)), "rel": rel, "op": draw(st.sampled_from(["multiply", "add", "subtract", "divide"])),
            "bb_left": draw(st.booleans()), "fill": draw(st.sampled_from([0, 0, 0.5])),
            "vegamag": draw(st.sampled_from([False, False, True]))}


@hyp("C13", "subclass_operand", lambda tier: subclass_case(tier),
     "a Blackbody (or Blackbody.vegamag) combined with a plain spectrum on a wider / shifted / disjoint / nested range: "
     "inside its range the blackbody contributes its own law, outside the fill value like any operand", examples=(200, 800))
def subclass_operand(case, ctx):
    from lentil import radiometry as rad
    rng = np.random.default_rng(case["seed"])
    w1, w2 = case["w_bb"], case["w2"]
    v2 = rng.uniform(0.2, 1.0, size=len(w2))
    with lentil_call("C13.subclass.build", "Blackbody / Spectrum"):
        if case["vegamag"]:
            bb = rad.Blackbody.vegamag(w1.copy(), case["temp"], 3.0, "V", waveunit="nm")
        else:
            bb = rad.Blackbody(w1.copy(), case["temp"], waveunit="nm", valueunit="photlam")
        other = Spectrum(w2.copy(), v2.copy(), waveunit="nm")
    x, y = (bb, other) if case["bb_left"] else (other, bb)
    ctx.tag("rel:" + case["rel"], "op:" + case["op"], "bb_left" if case["bb_left"] else "bb_right",
            "vegamag" if case["vegamag"] else "blackbody")
    ctx.nontrivial_if(case["rel"] != "same")
    with lentil_call("C13.subclass", f"{case['op']}(fill={case['fill']})"):
        with np.errstate(all="ignore"):
            res = getattr(x, case["op"])(y, fill_value=case["fill"])
    rw = np.asarray(res.wave, dtype=float)
    lo, hi = min(w1[0], w2[0]), max(w1[-1], w2[-1])
    if abs(rw[0] - lo) > 1e-9 * (hi - lo) or abs(rw[-1] - hi) > 1e-9 * (hi - lo):
        raise Violation("C13.subclass.range", f"result spans [{rw[0]}, {rw[-1]}], union is [{lo}, {hi}]")
    eps_ = 1e-9 * (hi - lo)
    in1 = (rw >= w1[0] + eps_) & (rw <= w1[-1] - eps_)
    out1 = (rw < w1[0] - eps_) | (rw > w1[-1] + eps_)
    in2 = (rw >= w2[0] + eps_) & (rw <= w2[-1] - eps_)
    out2 = (rw < w2[0] - eps_) | (rw > w2[-1] + eps_)
    # the blackbody's own law at the grid points (its documented sampling), the plain operand by linear interpolation
    law = np.asarray(bb.sample(rw, waveunit="nm"), dtype=float)
    e1 = np.where(in1, law, case["fill"])
    e2 = np.where(in2, np.interp(rw, w2, v2), case["fill"])
    a_, b_ = (e1, e2) if case["bb_left"] else (e2, e1)
    with np.errstate(all="ignore"):
        exp = OPS[case["op"]](a_, b_)
    sel = (in1 | out1) & (in2 | out2) & np.isfinite(exp)
    got = np.asarray(res.value, dtype=float)
    sc = max(cm_max(exp[sel]), 1e-300)
    with np.errstate(all="ignore"):
        bad = sel & ~(np.abs(got - exp) <= 1e-9 * sc)
    if bad.any():
        i = int(np.argmax(bad))
        where = "outside the blackbody's range" if out1[i] else "inside both ranges" if in2[i] else "outside the plain operand's range"
        raise Violation("C13.subclass.value", f"{case['op']} of a Blackbody and a spectrum ({case['rel']}): at {rw[i]:.3f} nm "
                                              f"({where}) got {got[i]:.6g}, expected {exp[i]:.6g}")
