"""C19 - pixel, jitter and smear blurs are flux-preserving convolutions on any shape."""
import numpy as np
from hypothesis import strategies as st

import lentil
from lentil import detector
from vlib import gen
from vlib.runner import Skip, Violation, hyp, lentil_call

# the check's own calls are issued with keywords or positionally in the documented order (vlib/callforms.py)
from vlib import callforms as _cf
lentil = _cf.proxy(lentil)
detector = _cf.proxy(detector, "detector.")

RULE = ("non-negative images of 1..24 samples per axis (any aspect ratio and parity; smooth blobs, sparse points or "
        "dense noise), blur extents 0..6 samples, angles 0..360 deg, pixel scales and oversampling factors, circular "
        "shifts; non-trivial = image not constant and extent > 0; distinct = distinct canonical descriptors")
ASSUMPTIONS = [
    "reference = Re ifft2(fft2(img) * K) with the analytic transfer function K on the fftfreq grid (rows = y, "
    "columns = x)",
    "where the reference is non-negative the output must match it within b*(1 + N*(max ref + b)/sum img) with "
    "b = (1/N) * sum over the Nyquist rows/columns of |FFT(img) * K| (bound on the imaginary part that abs() folds in)",
]


@st.composite
def image(draw, tier, mega=False):
    hi = 24 if tier == "quick" else 40
    shape = draw(gen.mega_shape()) if mega else draw(gen.shape2(1, hi, big=0.04, big_pool=gen.BIG + [255, 256, 257, 300]))
    kind = draw(st.sampled_from(["points", "noise", "int_counts"] if mega else ["blob", "points", "noise", "const", "int_counts"]))
    k = draw(st.integers(0, 2**31 - 1))
    rng = np.random.default_rng(k)
    m, n = shape
    if kind == "blob":
        yy, xx = np.mgrid[0:m, 0:n]
        img = np.zeros(shape)
        for _ in range(rng.integers(1, 4)):
            r0, c0, s = rng.uniform(0, m), rng.uniform(0, n), rng.uniform(0.8, 4.0)
            img += rng.uniform(0.5, 2.0) * np.exp(-((yy - r0) ** 2 + (xx - c0) ** 2) / (2 * s * s))
    elif kind == "points":
        img = np.zeros(shape)
        for _ in range(rng.integers(1, 4)):
            img[rng.integers(0, m), rng.integers(0, n)] += rng.uniform(0.5, 5.0)
    elif kind == "noise":
        img = rng.uniform(0, 1, size=shape)
    elif kind == "int_counts":
        img = rng.integers(0, 50, size=shape)          # integer-typed frame
        if img.sum() == 0:
            img.flat[0] = 3
    else:
        img = np.full(shape, rng.uniform(0.5, 2.0))
    return img, kind


@st.composite
def _param_types(draw):
    t = draw(gen.scalar_types())
    return {"ext_type": t, "os_type": t if draw(st.booleans()) else draw(gen.scalar_types()),
            "angle_type": draw(gen.scalar_types())}


@st.composite
def blur_case(draw, tier, mega=False):
    img, kind = draw(image(tier, mega))
    fn = draw(st.sampled_from(["pixel", "jitter", "smear"]))
    os_ = draw(st.integers(1, 5))
    cat = draw(st.sampled_from(["zero", "sub", "sub", "sub", "few", "few", "few", "few", "round", "round", "huge"]))
    if cat == "zero":
        ext = 0.0
    elif cat == "sub":            # less than one (oversampled) sample: the kernel's ringing matters most here
        ext = draw(gen.finite(0.02, 0.95)) / os_
    elif cat == "few":
        ext = draw(gen.finite(0.0, 6.0))
    elif cat == "round":
        ext = draw(st.sampled_from([0.3, 0.5, 1.0, 2.5, 6.0, 1, 2, 3]))
    else:
        ext = draw(st.sampled_from([60, 100, 120, 200, 250]))
    if kind != "int_counts":
        img = img * draw(gen.scales())
    ptypes = draw(_param_types())
    eight_bit = draw(st.integers(0, 5)) == 0
    if eight_bit:
        # blur extents and oversampling read from 8-bit tables: integer-valued, same small numpy integer type
        ext = draw(st.sampled_from([60, 100, 120, 200, 250]))
        os_ = draw(st.integers(2, 5))
        t = draw(st.sampled_from(["uint8", "int8"]))
        if draw(st.booleans()):
            # products just beyond 256: in 8 bits they wrap to 0 .. 4 samples, a blur that is plainly not the (flat)
            # one of 256+ samples even on a small image
            ext, os_ = draw(st.sampled_from([(52, 5), (86, 3), (64, 4), (129, 2), (65, 4), (87, 3)]))
            t = "uint8"
        ptypes = {"ext_type": t, "os_type": t}
        fn = draw(st.sampled_from(["jitter", "jitter", "smear"]))          # (pixel takes no extent)
    return {"layout": draw(gen.layouts()), "img": img, "kind": kind, "fn": fn, "oversample": os_, "extent": ext,
            # numeric types of the scalar parameters (numpy integer / float scalars, 0-d arrays)
            **ptypes,
            "angle": draw(st.sampled_from([0, 90, 45.0, 180, 270, 30.0])) if draw(st.booleans()) else draw(gen.finite(0.0, 360.0)),
            "pixelscale": draw(gen.pos_log(1e-6, 1e-4)), "roll": [draw(st.integers(-30, 30)), draw(st.integers(-30, 30))],
            "phys": draw(st.booleans()) and not eight_bit, "positional": draw(st.booleans())}


def _eight_bit_overflow(case):
    e = gen.typed_scalar(case["extent"], case.get("ext_type"))
    o = gen.typed_scalar(case["oversample"], case.get("os_type"))
    small = (np.uint8, np.int8)
    if not (isinstance(e, small) and isinstance(o, small)):
        return False
    return int(e) * int(o) > min(np.iinfo(type(e)).max, np.iinfo(type(o)).max)


def call(case, img, typed_angle=True):
    fn = case["fn"]
    # the image as a plain array, a numpy MaskedArray with flagged pixels (underlying data intact) or an ndarray
    # subclass: array_like arguments are taken as their data
    img = gen.array_class(img, int(np.asarray(img).shape[0]) + 3 * int(np.asarray(img).shape[-1]) + int(case["oversample"]))[0]
    os_ = gen.typed_scalar(case["oversample"], case.get("os_type"))
    ext = gen.typed_scalar(case["extent"], case.get("ext_type"))
    # keyword calls, or positional calls in the documented parameter order:
    #   pixel(img, oversample)  jitter(img, scale, pixelscale, oversample)  smear(img, distance, angle, pixelscale, oversample)
    pos = bool(case.get("positional"))
    if fn == "pixel":
        return detector.pixel(img, os_) if pos else detector.pixel(img, oversample=os_)
    if fn == "jitter":
        if case["phys"]:
            if pos:
                return lentil.jitter(img, ext * case["pixelscale"], case["pixelscale"], os_)
            return lentil.jitter(img, scale=ext * case["pixelscale"], pixelscale=case["pixelscale"], oversample=os_)
        return lentil.jitter(img, ext, 1, os_) if pos else lentil.jitter(img, scale=ext, oversample=os_)
    # the angle as a Python number or as an equal numpy scalar (when exactly representable); the call in physical
    # units always passes the plain number, so that a typed call is followed by an untyped one with equal arguments
    ang = case["angle"] if case["phys"] or typed_angle is False else gen.typed_scalar(case["angle"], case.get("angle_type"))
    if case["phys"]:
        if pos:
            return lentil.smear(img, ext * case["pixelscale"], ang, case["pixelscale"], os_)
        return lentil.smear(img, distance=ext * case["pixelscale"], angle=ang, pixelscale=case["pixelscale"],
                            oversample=os_)
    return lentil.smear(img, ext, ang, 1, os_) if pos else lentil.smear(img, distance=ext, angle=ang, oversample=os_)


def transfer(case, shape):
    fy = np.fft.fftfreq(shape[0])[:, None]
    fx = np.fft.fftfreq(shape[1])[None, :]
    os_, ext = case["oversample"], case["extent"]
    if case["fn"] == "pixel":
        return np.sinc(fx * os_) * np.sinc(fy * os_) * np.ones(shape)
    if case["fn"] == "jitter":
        sig = ext * os_
        return np.exp(-2 * np.pi ** 2 * sig ** 2 * (fx ** 2 + fy ** 2))
    a = np.deg2rad(case["angle"])
    return np.sinc(ext * os_ * (fx * np.cos(a) + fy * np.sin(a)))


@hyp("C19", "blur", lambda tier: blur_case(tier),
     "pixel / jitter / smear on any shape: input shape, non-negative, circular-translation equivariant, identity for "
     "zero extent, equal to the analytic circular convolution where that is non-negative, flux preserving, physical "
     "units == sample units", examples=(800, 3000))
def blur(case, ctx):
    img = gen.relayout(case["img"], case.get("layout"))
    shape = img.shape
    fn = case["fn"]
    if img.sum() <= 0:
        raise Skip("all_zero_image")
    ext = case["extent"] if fn != "pixel" else float(case["oversample"])
    ctx.tag("fn:" + fn, "nonsquare" if shape[0] != shape[1] else "square", gen.parity_tags("img", shape),
            "img:" + case["kind"], "zero_extent" if ext == 0 else None,
            "sub_sample_extent" if 0 < ext * (1 if fn == "pixel" else case["oversample"]) < 1 else None, "phys_units" if case["phys"] and fn != "pixel" else None,
            f"os:{case['oversample']}", "1xN" if 1 in shape else None, "positional_call" if case.get("positional") else "keyword_call",
            "ext_type:" + type(gen.typed_scalar(case["extent"], case.get("ext_type"))).__name__,
            "os_type:" + type(gen.typed_scalar(case["oversample"], case.get("os_type"))).__name__,
            ("angle_type:" + type(gen.typed_scalar(case["angle"], case.get("angle_type"))).__name__) if fn == "smear" else None,
            "8bit_product_out_of_range" if fn != "pixel" and _eight_bit_overflow(case) else None)
    ctx.nontrivial_if(case["kind"] != "const" and ext > 0)
    img0 = img.copy()
    with lentil_call("C19." + fn, f"{fn}(image {shape})"):
        out = np.asarray(call(case, img), dtype=float)
    if out.shape != shape:
        raise Violation(f"C19.{fn}.shape", f"output shape {out.shape} for input {shape}")
    if not np.array_equal(img, img0):
        raise Violation(f"C19.{fn}.input_mutated", f"{fn} modified its input")
    if np.any(out < 0) or not np.all(np.isfinite(out)):
        raise Violation(f"C19.{fn}.nonnegative", f"{fn} returned negative or non-finite values")
    peak = float(img.max())
    total = float(img.sum())
    N = img.size
    # translation equivariance
    r = tuple(case["roll"])
    with lentil_call("C19." + fn, "rolled image"):
        out_r = np.asarray(call(case, np.roll(img, r, axis=(0, 1))), dtype=float)
    if np.max(np.abs(out_r - np.roll(out, r, axis=(0, 1)))) > 1e-11 * peak:
        raise Violation(f"C19.{fn}.translation", f"{fn}(roll(img, {r})) != roll({fn}(img), {r})")
    # analytic transfer function
    K = transfer(case, shape)
    spec = np.fft.fft2(img) * K
    z = np.fft.ifft2(spec)
    ref = z.real
    nyq = np.zeros(shape, dtype=bool)
    if shape[0] % 2 == 0:
        nyq[shape[0] // 2, :] = True
    if shape[1] % 2 == 0:
        nyq[:, shape[1] // 2] = True
    b = float(np.sum(np.abs(spec[nyq]))) / N
    if fn in ("jitter", "smear") and abs(out.sum() - total) > 1e-10 * total:
        raise Violation(f"C19.{fn}.flux", f"{fn} changed the total signal from {total} to {out.sum()}")
    if np.all(ref >= -1e-13 * peak):
        tol = b * (1 + N * (float(ref.max()) + b) / total) + 1e-11 * peak
        err = float(np.max(np.abs(out - ref)))
        if err > tol:
            raise Violation(f"C19.{fn}.transfer",
                            f"{fn}(image {shape}, extent {case['extent']}, os {case['oversample']}"
                            f"{', angle ' + str(case['angle']) if fn == 'smear' else ''}) differs from the circular "
                            f"convolution with the analytic transfer function by {err:.3e} (tol {tol:.3e}, peak {peak:.3e})")
        if fn == "pixel" and abs(out.sum() - total) > N * tol + 1e-10 * total:
            raise Violation("C19.pixel.flux", f"pixel changed the total signal from {total} to {out.sum()}")
        ctx.tag("ref_nonnegative")
    if fn != "pixel" and case["extent"] == 0:
        if np.max(np.abs(out - img)) > 1e-12 * peak:
            raise Violation(f"C19.{fn}.identity", f"{fn} with zero extent is not the identity")
    if fn != "pixel":
        other = dict(case, phys=not case["phys"])
        with lentil_call("C19." + fn, "physical vs sample units"):
            out2 = np.asarray(call(other, img), dtype=float)
        if np.max(np.abs(out2 - out)) > 1e-9 * peak:
            raise Violation(f"C19.{fn}.units", f"{fn} with the extent in physical units (pixel scale {case['pixelscale']}) "
                                               f"differs from the same extent in samples")


@hyp("C19", "blur_mega", lambda tier: blur_case(tier, mega=True),
     "the same relations on images of more than 2^20 samples (1030..3000 rows/columns, sizes of no special form)",
     examples=(4, 16), budget_s=(200, 800))
def blur_mega(case, ctx):
    ctx.tag("mega")
    blur(case, ctx)


@st.composite
def orient_case(draw, tier):
    n = draw(st.sampled_from([31, 32, 41]))
    m = draw(st.sampled_from([31, 32, 25]))
    return {"shape": [m, n], "angle": draw(gen.finite(0.0, 180.0)), "distance": draw(gen.finite(5.0, 9.0)),
            "pos": [draw(st.integers(0, m - 1)), draw(st.integers(0, n - 1))]}


@hyp("C19", "smear_orientation", lambda tier: orient_case(tier),
     "a smeared point source is elongated along (cos a, sin a) in (column, row): the requested angle, not its "
     "transpose or mirror", examples=(200, 800))
def smear_orientation(case, ctx):
    m, n = case["shape"]
    a = np.deg2rad(case["angle"])
    img = np.zeros((m, n))
    img[m // 2, n // 2] = 1.0
    ctx.tag("nonsquare" if m != n else "square")
    ctx.nontrivial_if(True)
    with lentil_call("C19.smear.orientation", "smear(point source)"):
        out = np.asarray(lentil.smear(img, distance=case["distance"], angle=case["angle"]), dtype=float)
    yy, xx = np.mgrid[0:m, 0:n]
    core = np.where(out >= 0.4 * out.max(), out, 0.0)     # the smeared core, without the ringing that abs() folds in
    w = core / core.sum()
    cy, cx = (w * yy).sum(), (w * xx).sum()
    sxx = (w * (xx - cx) ** 2).sum()
    syy = (w * (yy - cy) ** 2).sum()
    sxy = (w * (xx - cx) * (yy - cy)).sum()
    # principal axis of the second moment in (x = column, y = row)
    theta = 0.5 * np.arctan2(2 * sxy, sxx - syy)
    d = abs(np.cos(theta) * np.cos(a) + np.sin(theta) * np.sin(a))
    if d < np.cos(np.deg2rad(12.0)):
        raise Violation("C19.smear.orientation", f"smear(angle={case['angle']:.1f} deg) is elongated along "
                                                 f"{np.rad2deg(theta) % 180:.1f} deg in (column, row)")
