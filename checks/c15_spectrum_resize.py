"""C15 - Spectrum integration, binning and resizing keep the spectrum well-formed."""
import numpy as np
from hypothesis import strategies as st

import lentil
from lentil.radiometry import Spectrum
from vlib import gen
from vlib.ref import spectrum as rs
from vlib.runner import Skip, Violation, hyp, known_predicate, known_probe, lentil_call
from checks.c13_spectrum_arith import UNITS, grid_nm

# the check's own calls are issued with keywords or positionally in the documented order (vlib/callforms.py)
from vlib import callforms as _cf
lentil = _cf.proxy(lentil)

RULE = ("drawn spectra (uniform / non-uniform grids, four wavelength units); integration limits at sample points; "
        "bin-centre sets of any spacing (trapezoid) or uniform centres on uniformly sampled data (Simpson), both end "
        "treatments and power settings; programs of up to 15 crop/trim/pad/append/resample steps with arguments "
        "drawn relative to the current state, including invalid ones; non-trivial = program holds >= 2 different "
        "resizing operations / bins narrower than the data spacing; distinct = distinct canonical descriptors")
ASSUMPTIONS = [
    "invalid arguments may be refused with any exception or accepted; either way the spectrum must stay well-formed",
    "append may refuse legitimate appends (element-wise comparison); only integrity is asserted",
    "quadrature identities at 1e-11 relative; retained samples compared exactly",
]


def trapz(y, x):
    return float(np.sum((y[1:] + y[:-1]) * np.diff(x) / 2)) if len(x) > 1 else 0.0


def well_formed(oracle, s, what):
    w = np.asarray(s.wave)
    v = np.asarray(s.value)
    if w.ndim != 1 or v.ndim != 1 or len(w) != len(v):
        raise Violation(oracle + ".lengths", f"after {what}: {w.shape} wavelengths but {v.shape} values")
    if len(w) > 1 and not np.all(np.diff(w) > 0):
        raise Violation(oracle + ".increasing", f"after {what}: wavelength grid is not strictly increasing")
    if np.any(w <= 0):
        raise Violation(oracle + ".positive", f"after {what}: non-positive wavelength")


# --- integrate ---------------------------------------------------------------------------------------

@st.composite
def integ_case(draw, tier):
    w, kind = draw(grid_nm(nmin=3, nmax=40))
    k = draw(st.integers(0, 2**31 - 1))
    rng = np.random.default_rng(k)
    n = len(w)
    i0 = draw(st.integers(0, n - 2))
    i2 = draw(st.integers(i0 + 1, n - 1))
    i1 = draw(st.integers(i0, i2))
    vs = draw(gen.scales())
    return {"w_nm": w, "grid": kind, "v1": rng.uniform(-2, 3, size=n) * vs, "v2": rng.uniform(-2, 3, size=n) * vs,
            "a": draw(gen.finite(-3, 3)), "b": draw(gen.finite(-3, 3)), "idx": [i0, i1, i2],
            "unit": draw(st.sampled_from(UNITS)), "method": draw(st.sampled_from(["trapz", "simps"])),
            "bounds": draw(st.sampled_from(["none", "samples", "between", "outside", "outside"])),
            # limits beyond the data: an interval that holds no sample integrates to 0, one that holds them all to the
            # whole integral; 0 is a legitimate limit (below every wavelength), in any numeric type
            "outside": draw(st.sampled_from(["empty_below", "empty_below_zero", "empty_above", "zero_start", "wider", "first_only"])),
            "zero": draw(st.sampled_from(["int", "float", "uint8", "float64", "bool"]))}


@hyp("C15", "integrate", lambda tier: integ_case(tier),
     "integrate: linear in the values; trapezoid additive at a sample point and equal to the exact integral of "
     "the piecewise-linear interpolant", examples=(500, 2000))
def integrate(case, ctx):
    f = rs.factor("nm", case["unit"])
    w = case["w_nm"] * f
    v1, v2, a, b = case["v1"], case["v2"], case["a"], case["b"]
    s1 = Spectrum(w.copy(), v1.copy(), waveunit=case["unit"])
    s2 = Spectrum(w.copy(), v2.copy(), waveunit=case["unit"])
    s3 = Spectrum(w.copy(), a * v1 + b * v2, waveunit=case["unit"])
    i0, i1, i2 = case["idx"]
    m = case["method"]
    ctx.tag("grid:" + case["grid"], "method:" + m, "unit:" + case["unit"], "bounds:" + case["bounds"])
    ctx.nontrivial_if(case["grid"] == "nonuniform" or case["bounds"] != "none")
    if case["bounds"] == "none":
        lo, hi = None, None
        sel = slice(0, len(w))
    elif case["bounds"] == "samples":
        lo, hi = w[i0], w[i2]
        sel = slice(i0, i2 + 1)
    elif case["bounds"] == "outside":
        zero = {"int": 0, "float": 0.0, "uint8": np.uint8(0), "float64": np.float64(0), "bool": False}[case.get("zero", "int")]
        o = case.get("outside", "wider")
        ctx.tag("outside:" + o, "zero:" + case.get("zero", "int") if "zero" in o else None)
        if m == "simps" and o.startswith("empty"):
            raise Skip("simpson_on_an_empty_selection")          # scipy's rule has no value for zero samples
        if o == "empty_below":
            lo, hi, sel = 0.25 * w[0], 0.5 * w[0], slice(0, 0)
        elif o == "empty_below_zero":
            lo, hi, sel = (None if i0 % 2 else -1.0 * f), zero, slice(0, 0)
        elif o == "empty_above":
            lo, hi, sel = 1.5 * w[-1], (None if i0 % 2 == 0 else 2.0 * w[-1]), slice(0, 0)
            if hi is None:
                hi = 3.0 * w[-1]
        elif o == "zero_start":
            lo, hi, sel = zero, w[i2], slice(0, i2 + 1)
        elif o == "first_only":
            lo, hi, sel = zero, w[0], slice(0, 1)
            if m == "simps":
                raise Skip("simpson_on_a_single_sample")
        else:
            lo, hi, sel = 0.5 * w[0], 2.0 * w[-1], slice(0, len(w))
    else:   # limits strictly between samples: only the samples inside count
        lo = w[i0] - 0.25 * (w[i0] - (w[i0 - 1] if i0 > 0 else w[i0] - 1.0 * f))
        hi = w[i2] + 0.25 * ((w[i2 + 1] if i2 < len(w) - 1 else w[i2] + 1.0 * f) - w[i2])
        sel = slice(i0, i2 + 1)
    with lentil_call("C15.integrate", f"integrate({m})"):
        I1, I2, I3 = s1.integrate(lo, hi, method=m), s2.integrate(lo, hi, method=m), s3.integrate(lo, hi, method=m)
    sc = (abs(a) * np.sum(np.abs(v1)) + abs(b) * np.sum(np.abs(v2))) * (w[-1] - w[0]) + 1e-300
    if abs(I3 - (a * I1 + b * I2)) > 1e-11 * sc:
        raise Violation("C15.integrate.linear", f"integrate({m}) is not linear: {I3} vs {a * I1 + b * I2}")
    sc = np.sum(np.abs(v1)) * (w[-1] - w[0]) + 1e-300     # scale of the single-spectrum identities
    if m == "trapz":
        exact = trapz(v1[sel], w[sel])
        if abs(I1 - exact) > 1e-11 * sc:
            raise Violation("C15.integrate.exact", f"trapezoid integral {I1} != exact integral of the piecewise-linear "
                                                   f"data {exact} (bounds {case['bounds']})")
        with lentil_call("C15.integrate", "adjacent intervals"):
            A = s1.integrate(w[i0], w[i1], method="trapz")
            B = s1.integrate(w[i1], w[i2], method="trapz")
            C = s1.integrate(w[i0], w[i2], method="trapz")
        if abs(A + B - C) > 1e-11 * sc:
            raise Violation("C15.integrate.additive", f"[{i0},{i1}] + [{i1},{i2}] = {A + B} != [{i0},{i2}] = {C}")
    if not (np.array_equal(s1.wave, w) and np.array_equal(s1.value, v1)):
        raise Violation("C15.integrate.mutated", "integrate changed the spectrum")


# --- bin ------------------------------------------------------------------------------------------------

@known_predicate("simps_integer_centres")
def _simps_int(case):
    if case.get("probe") == "simps_integer_centres":
        return True
    return case.get("method") == "simps" and str(case.get("ctype", "float")).startswith("int")


@known_probe("C15", "simps_integer_centres")
def probe_simps_int():
    s = Spectrum([1, 2, 3, 4, 5], [2, 2, 2, 2, 2])
    out = np.asarray(s.bin([2, 3], preserve_power=False), dtype=float)
    if not np.allclose(out, [2.0, 2.0]):
        return (f"bin(interp_method='simps') with integer-typed centres truncates the half-integer mid-point edges: a "
                f"flat spectrum of 2 binned at [2, 3] gives {out.tolist()} instead of [2.0, 2.0] (float centres "
                f"[2., 3.] give {np.asarray(s.bin([2.0, 3.0], preserve_power=False)).tolist()})")
    return None


@st.composite
def bin_case(draw, tier):
    method = draw(st.sampled_from(["trapz", "trapz", "simps"]))
    n = draw(st.integers(5, 60))
    lo = draw(gen.finite(300.0, 900.0))
    hi = lo + draw(gen.finite(50.0, 900.0))
    k = draw(st.integers(0, 2**31 - 1))
    rng = np.random.default_rng(k)
    if method == "simps" or draw(st.booleans()):
        w = np.linspace(lo, hi, n)
        grid = "uniform"
    else:
        w = np.sort(rng.uniform(lo, hi, size=n))
        w[0], w[-1] = lo, hi
        if np.any(np.diff(w) <= 0):
            w = np.linspace(lo, hi, n)
        grid = "nonuniform"
    shape = draw(st.sampled_from(["linear", "random_nonneg", "random_signed"]))
    a, b = draw(gen.finite(-1e-3, 1e-3)), draw(gen.finite(1.0, 3.0))
    nc = draw(st.integers(2, 12))
    span = hi - lo
    c0 = lo + span * draw(gen.finite(0.15, 0.4))
    c1 = hi - span * draw(gen.finite(0.15, 0.4))
    if method == "simps" or draw(st.booleans()):
        centres = np.linspace(c0, c1, nc)
        cgrid = "uniform"
    else:
        centres = np.sort(rng.uniform(c0, c1, size=nc))
        centres[0], centres[-1] = c0, c1
        if np.any(np.diff(centres) <= 0):
            centres = np.linspace(c0, c1, nc)
        cgrid = "nonuniform"
    if method == "trapz" and draw(st.integers(0, 2)) == 0:
        nc = max(nc, 3)
        # centres that are almost, but not exactly, evenly spaced (slightly non-linear dispersion): spacings
        # within 1e-3 .. 1e-8 (relative) of one another
        p = np.arange(nc, dtype=float)
        q = draw(st.sampled_from([1e-3, 1e-4, 1e-5, 3e-6, 3e-6, 1e-6, 1e-6, 1e-7])) * draw(st.sampled_from([-1.0, 1.0]))
        if draw(st.booleans()):
            shape = "linear"
        centres = c0 + (c1 - c0) * (p + q * p * p / nc) / (nc - 1 + q * (nc - 1) ** 2 / nc)
        cgrid = "near_uniform"
    # keep every bin (symmetric ends reach half a spacing beyond the outer centres) inside the data range
    d0, d1 = (centres[1] - centres[0]) / 2, (centres[-1] - centres[-2]) / 2
    need_lo, need_hi = centres[0] - d0, centres[-1] + d1
    if need_lo < lo + 1e-3 * (hi - lo) or need_hi > hi - 1e-3 * (hi - lo):
        mid = (lo + hi) / 2
        shrink = 0.98 * min((mid - lo) / (mid - need_lo) if need_lo < mid else 1.0,
                            (hi - mid) / (need_hi - mid) if need_hi > mid else 1.0)
        centres = mid + (centres - mid) * min(shrink, 1.0)
    ctype = draw(st.sampled_from(["float", "float", "int_array", "int_list", "float_list", "int_narrow"]))
    force_unit = None
    if ctype == "int_narrow":
        # integer-valued centres in angstrom held in the narrowest integer type that fits them; the band is moved
        # into the near infrared (1.5 - 5 um: 15000 .. 50000 angstrom, around the int16 / uint16 limits)
        shift_nm = float(draw(st.integers(1200, 3200)))
        w = w + shift_nm
        centres = centres + shift_nm
        ci = np.unique(np.round(centres * 10.0).astype(int))
        if len(ci) >= 2 and method != "simps":
            centres = ci / 10.0
            force_unit = "angstrom"
        else:
            ctype = "float"
    elif ctype.startswith("int"):
        ci = np.unique(np.round(centres).astype(int))
        if len(ci) >= 2 and (method != "simps" or len(set(np.diff(ci).tolist())) == 1):
            centres = ci.astype(float)
        else:
            ctype = "float"
    force_nm = ctype.startswith("int") and force_unit is None     # integer centres are only meaningful in the spectrum's own grid
    if force_nm and draw(st.booleans()):
        shape = "linear"
    return {"w_nm": w, "grid": grid, "shape": shape, "lin": [a, b], "seed": k, "centres_nm": centres, "cgrid": cgrid,
            "ctype": ctype, "force_nm": force_nm, "force_unit": force_unit,
            "reused": draw(st.sampled_from([None, None, "set_value", "inplace", "set_wave_value", "resample"])),
            "method": method, "ends": draw(st.sampled_from(["symmetric", "inside"])),
            "preserve": draw(st.booleans()), "unit": draw(st.sampled_from(UNITS)),
            "bin_unit": draw(st.sampled_from(["same", "other"])), "other_unit": draw(st.sampled_from(UNITS))}


@hyp("C15", "bin", lambda tier: bin_case(tier),
     "bin: one value per centre, non-negative for non-negative spectra, exact bin integrals for spectra linear across "
     "each bin, power-preserving bins sum to integrate(min c, max c); spectrum left untouched",
     examples=(500, 2000))
def bin_(case, ctx):
    w_nm = case["w_nm"]
    rng = np.random.default_rng(case["seed"])
    if case["shape"] == "linear":
        v = case["lin"][0] * (w_nm - w_nm[0]) + case["lin"][1]
    elif case["shape"] == "random_nonneg":
        v = rng.uniform(0, 2, size=len(w_nm))
    else:
        v = rng.uniform(-2, 2, size=len(w_nm))
    unit = case.get("force_unit") or ("nm" if case.get("force_nm") else case["unit"])
    f = rs.factor("nm", unit)
    s = Spectrum(w_nm * f, v.copy(), waveunit=unit)
    bunit = unit if (case["bin_unit"] == "same" or case.get("force_nm") or case.get("force_unit")) else case["other_unit"]
    fb = rs.factor("nm", bunit)
    centres = case["centres_nm"] * fb
    ctype = case.get("ctype", "float")
    if ctype == "int_narrow":
        ci = np.round(centres).astype(np.int64)
        centres = ci.astype("int16" if ci.max() <= 32767 else "uint16" if ci.max() <= 65535 else "int32")
        ctx.tag("centre_dtype:" + str(centres.dtype), "adjacent_sum_beyond_type" if int(ci[-1]) + int(ci[-2]) > np.iinfo(centres.dtype).max else None)
    elif ctype.startswith("int") and bunit == "nm":
        centres = centres.astype(int)            # integer-typed bin centres (array or plain list)
    carg = centres.tolist() if ctype.endswith("list") else centres
    if _simps_int(case):
        raise Skip("simps_integer_centres(known)")
    m, ends, pres = case["method"], case["ends"], case["preserve"]
    ctx.tag("method:" + m, "ends:" + ends, "preserve" if pres else "raw", "shape:" + case["shape"],
            "unit:" + unit, "bin_unit:" + ("same" if bunit == unit else "other"), "centres:" + case["cgrid"],
            "grid:" + case["grid"], "centre_type:" + (ctype if bunit == "nm" or not ctype.startswith("int") or ctype == "int_narrow" else "float"))
    dmin = float(np.min(np.diff(case["centres_nm"])))
    ctx.nontrivial_if(dmin < float(np.max(np.diff(w_nm))) or bunit != unit)
    reused = case.get("reused")
    if reused:
        # the spectrum object has been binned and sampled before with other contents, and was then brought to
        # (w, v) through its public attributes / editing methods
        ctx.tag("reused:" + reused)
        if reused == "resample":
            s = Spectrum(np.linspace(w_nm[0], w_nm[-1], 7) * f, np.arange(7.0) + 1, waveunit=unit)
        elif reused == "set_wave_value":
            s = Spectrum((w_nm * 0.9 + 11.0) * f, 3.0 - v, waveunit=unit)
        else:
            s = Spectrum(w_nm * f, 3.0 - v[::-1], waveunit=unit)
        with lentil_call("C15.bin", "earlier bin/sample of the same object"):
            for mm in ("trapz", m):
                if mm != "simps" or reused != "set_wave_value":
                    s.bin(np.linspace(s.wave[1], s.wave[-2], 3), interp_method="trapz", waveunit=unit)
            s.sample(np.asarray(s.wave)[:3], waveunit=unit)
        with lentil_call("C15.bin", f"update of the spectrum ({reused})"):
            if reused == "set_value":
                s.value = v.copy()
            elif reused == "inplace":
                s.value[:] = v
            elif reused == "set_wave_value":
                s.wave = w_nm * f
                s.value = v.copy()
            else:
                s.resample(w_nm * f, waveunit=unit)
                s.value = v.copy()
    w0, v0, u0 = s.wave.copy(), s.value.copy(), s.waveunit
    with lentil_call("C15.bin", f"bin({m}, ends={ends}, preserve_power={pres}, spectrum in {unit}, centres in {bunit})"):
        out = np.asarray(s.bin(carg, interp_method=m, ends=ends, preserve_power=pres, waveunit=bunit), dtype=float)
    if out.shape != centres.shape:
        raise Violation("C15.bin.length", f"{out.shape} bins for {centres.shape} centres")
    if not np.all(np.isfinite(out)):
        raise Violation("C15.bin.finite", f"bins are not finite (spectrum in {unit}, centres in {bunit})")
    if not (np.array_equal(s.wave, w0) and np.array_equal(s.value, v0) and s.waveunit == u0):
        raise Violation("C15.bin.mutated", f"bin(waveunit={bunit}) changed the spectrum (now in {s.waveunit})")
    if case["shape"] != "random_signed" and np.any(out < -1e-12 * np.max(np.abs(v)) * (w_nm[-1] - w_nm[0]) * fb):
        raise Violation("C15.bin.nonnegative", "negative bin for a non-negative spectrum")
    c = case["centres_nm"]
    d = np.diff(c) / 2
    if ends == "symmetric":
        edges = np.concatenate([[c[0] - d[0]], c[:-1] + d, [c[-1] + d[-1]]])
    else:
        edges = np.concatenate([[c[0]], c[:-1] + d, [c[-1]]])
    # bin edges that coincide with the ends of the data are rounding-decided once units are converted
    span_nm = w_nm[-1] - w_nm[0]
    on_end = edges[0] < w_nm[0] + 1e-6 * span_nm or edges[-1] > w_nm[-1] - 1e-6 * span_nm
    if on_end:
        ctx.tag("edges_on_data_end(skipped_exactness)")
    if case["shape"] == "linear" and not pres and not on_end:
        a, b = case["lin"]
        F = lambda x: a * (x - w_nm[0]) ** 2 / 2 + b * x      # noqa: E731  antiderivative
        exact = (F(edges[1:]) - F(edges[:-1])) * fb
        sc = np.max(np.abs(exact)) + 1e-300
        if np.max(np.abs(out - exact)) > 1e-9 * sc:
            raise Violation("C15.bin.exact", f"bins of a linear spectrum differ from the exact bin integrals "
                                             f"(method {m}, ends {ends}, unit {unit}/{bunit}): {out[:3]} vs {exact[:3]}")
    if case["shape"] == "linear" and pres and not on_end:
        a, b = case["lin"]
        F = lambda x: a * (x - w_nm[0]) ** 2 / 2 + b * x      # noqa: E731
        exact = (F(edges[1:]) - F(edges[:-1]))
        if np.max(np.abs(out / out.sum() - exact / exact.sum())) > 1e-9:
            raise Violation("C15.bin.distribution", f"power-preserving bins of a linear spectrum are not distributed like "
                                                    f"the exact bin integrals (method {m}, ends {ends}, centres "
                                                    f"{np.asarray(carg)[:4].tolist()}...)")
    # a sample that coincides (to rounding) with the first / last centre may fall on either side of it once
    # wavelengths are scaled to another unit
    lim_on_sample = bool(np.any(np.abs(w_nm[:, None] - np.array([c.min(), c.max()])[None, :])
                                                  < 1e-9 * span_nm))
    if lim_on_sample:
        ctx.tag("centre_on_sample_after_conversion(skipped_power_clause)")
    if pres and not lim_on_sample:
        # total = integral of the spectrum samples lying inside the span of the centres (same rule)
        sel = (w_nm >= c.min()) & (w_nm <= c.max())
        if sel.sum() >= 2:
            ref = Spectrum(w_nm[sel] * fb, v[sel].copy(), waveunit=bunit)
            with lentil_call("C15.bin", "reference integrate"):
                total = ref.integrate(method=m)
            sc = np.sum(np.abs(v)) * (w_nm[-1] - w_nm[0]) * fb + 1e-300
            if abs(out.sum() - total) > 1e-9 * sc:
                raise Violation("C15.bin.preserve", f"power-preserving bins sum to {out.sum()}, the spectrum integrates "
                                                    f"to {total} over the span of the centres")


# --- resizing programs -------------------------------------------------------------------------------------

@st.composite
def resize_case(draw, tier):
    w, kind = draw(grid_nm(nmin=3, nmax=25))
    k = draw(st.integers(0, 2**31 - 1))
    rng = np.random.default_rng(k)
    v = rng.uniform(0, 2, size=len(w))
    if draw(st.booleans()):
        z = draw(st.integers(0, len(w) // 2))
        v[:z] = 0.0
        v[len(v) - draw(st.integers(0, len(w) // 3)):] = 0.0
    if draw(st.sampled_from([False, False, False, True])):
        v = -v        # all non-positive: trim must refuse or do nothing
    steps = []
    for _ in range(draw(st.integers(1, 15 if tier == "thorough" else 10))):
        op = draw(st.sampled_from(["crop", "crop", "trim", "pad", "pad", "append", "resample", "resample_bad",
                                   "crop_bad", "pad_bad", "append_bad"]))
        st_ = {"op": op, "a": draw(gen.finite(0.0, 1.0)), "b": draw(gen.finite(0.0, 1.0)),
               "n": draw(st.integers(1, 8)), "flag": draw(st.booleans()), "seed": draw(st.integers(0, 2**31 - 1)),
               "mode": draw(st.sampled_from(["constant", "constant", "edge"])),
               "tol": draw(st.sampled_from([1e-4, 1e-4, 0.3, 0.0]))}
        steps.append(st_)
    return {"w_nm": w, "grid": kind, "v": v, "unit": draw(st.sampled_from(UNITS)), "steps": steps}


@hyp("C15", "resize_program", lambda tier: resize_case(tier),
     "programs of crop / trim / pad / append / resample (valid and invalid arguments) against a model holding the "
     "retained samples; the invariant (strictly increasing grid, one value per wavelength, retained samples "
     "identical) is checked after every step", examples=(500, 2000), budget_s=(150, 900))
def resize_program(case, ctx):
    unit = case["unit"]
    f = rs.factor("nm", unit)
    s = Spectrum(case["w_nm"] * f, case["v"].copy(), waveunit=unit)
    mw, mv = np.asarray(s.wave).copy(), np.asarray(s.value).copy()      # model
    ops = [x["op"] for x in case["steps"]]
    refused = 0
    for i, st_ in enumerate(case["steps"]):
        op = st_["op"]
        what = f"step {i} {op} [program: {' '.join(ops[:i + 1])}]"
        if len(mw) < 2:
            break
        lo, hi = mw[0], mw[-1]
        span = hi - lo
        a, b = sorted((st_["a"], st_["b"]))
        expect = None          # (wave, value) expected on success; None = only well-formedness
        try:
            if op == "crop":
                cmin = lo + span * a * 0.9
                cmax = hi - span * (1 - b) * 0.9
                if st_["flag"] and len(mw) > 2:       # limits exactly on samples
                    cmin, cmax = mw[min(1, len(mw) - 1)], mw[-2] if mw[-2] >= mw[min(1, len(mw) - 1)] else mw[-1]
                keep = (mw >= cmin) & (mw <= cmax)
                if keep.sum() == 0:
                    cmin, cmax = lo, hi
                    keep[:] = True
                expect = (mw[keep], mv[keep])
                s.crop(cmin, cmax)
            elif op == "crop_bad":
                s.crop(hi + span, hi + 2 * span) if st_["flag"] else s.crop(hi, lo)
            elif op == "trim":
                tol = st_["tol"]
                if not mv.any():
                    expect = (mw, mv)
                elif mv.max() > 0:
                    idx = np.flatnonzero(mv / mv.max() > tol)
                    expect = (mw[idx[0]:idx[-1] + 1], mv[idx[0]:idx[-1] + 1])
                s.trim(tol)
            elif op == "pad":
                e0 = lo - span * (0.05 + a) if st_["flag"] or a > 0.3 else lo
                e1 = hi + span * (0.05 + b)
                e0 = max(e0, lo * 0.05)
                kw = {"mode": st_["mode"]}
                vals = (0.0, 0.0)
                if st_["mode"] == "constant" and st_["n"] % 2:
                    kw["values"] = (1.5, 2.5) if st_["n"] % 3 else 0.75
                    vals = (1.5, 2.5) if st_["n"] % 3 else (0.75, 0.75)
                if st_["mode"] == "edge":
                    vals = (mv[0], mv[-1])
                samp = "min" if st_["n"] % 4 else float(span / (2 + st_["n"]))
                if samp == "min" and ((lo - e0) + (e1 - hi)) / float(np.min(np.diff(mw))) > 2e5:
                    # padding at the finest existing spacing would add more than 2e5 samples (after appends /
                    # resamples the finest spacing can be tiny compared with the range): ask for a coarser one
                    samp = float(span / (2 + st_["n"]))
                s.pad((e0, e1), sampling=samp, **kw)
                expect = ("pad", e0, e1, vals, samp)
            elif op == "pad_bad":
                s.pad((hi, lo)) if st_["flag"] else s.pad((lo + span * 0.5, hi - span * 0.4), mode="edge")
            elif op in ("append", "append_bad"):
                n = len(mw) if st_["flag"] else st_["n"]
                if op == "append":
                    ow = hi + span * 0.1 + np.arange(1, n + 1) * span * 0.07
                elif st_["n"] % 3 == 0 and len(mw) >= 2:
                    # element-wise above the receiver but interleaved with it: passes the element-wise
                    # comparison, must then be rejected by the grid validation without damage
                    n = len(mw)
                    ow = mw + np.min(np.diff(mw)) * 0.5
                else:
                    ow = lo + np.arange(n) * span * 0.05      # overlaps the existing range
                ov = np.random.default_rng(st_["seed"]).uniform(0, 1, size=n)
                other = Spectrum(ow, ov, waveunit=unit)
                if st_["n"] % 2:
                    new = s.append(other, copy=True)
                    if new is not None:
                        well_formed("C15.resize.append_copy", new, what)
                        if op == "append" and not (np.array_equal(new.wave, np.append(mw, ow))
                                                   and np.array_equal(new.value, np.append(mv, ov))):
                            raise Violation("C15.resize.append_copy", f"{what}: copy does not hold old + new samples")
                    expect = (mw, mv)          # the receiver itself is untouched by copy=True
                else:
                    s.append(other)
                    if op == "append":
                        expect = (np.append(mw, ow), np.append(mv, ov))
            elif op == "resample":
                n = st_["n"] + 2
                g = np.linspace(lo - span * 0.1 * a, hi + span * 0.1 * b, n)
                g = g[g > 0]
                s.resample(g, waveunit=unit)
                expect = (g, np.where((g >= lo) & (g <= hi), np.interp(g, mw, mv), 0.0))
            elif op == "resample_bad":
                kind = st_["n"] % 3
                g = np.linspace(hi, lo, 5) if kind == 0 else (np.array([lo, lo, hi]) if kind == 1
                                                              else np.array([-lo, lo, hi]))
                s.resample(g, waveunit=unit)
        except Violation:
            raise
        except MemoryError:
            raise Skip("memory_cap") from None
        except Exception as e:  # noqa: BLE001 - any refusal is acceptable; integrity is what matters
            refused += 1
            well_formed("C15.resize", s, what + f" (refused with {type(e).__name__})")
            if op in ("crop", "trim", "pad", "resample") and not isinstance(e, Violation):
                # valid arguments must be accepted
                if not (op == "trim" and mv.max() <= 0):
                    raise Violation("C15.resize.raised", f"{what}: valid call raised {type(e).__name__}: {e}")
            # a refused edit must not have altered retained samples
            cw, cv = np.asarray(s.wave), np.asarray(s.value)
            pos = np.searchsorted(mw, cw)
            ok = np.all(pos < len(mw)) and np.array_equal(mw[np.minimum(pos, len(mw) - 1)], cw) and \
                np.array_equal(mv[np.minimum(pos, len(mw) - 1)], cv)
            if not ok:
                raise Violation("C15.resize.refused_altered", f"{what}: refused call altered retained samples")
            mw, mv = cw.copy(), cv.copy()
            continue
        well_formed("C15.resize", s, what)
        cw, cv = np.asarray(s.wave, dtype=float), np.asarray(s.value, dtype=float)
        if expect is not None and expect[0] is not None and isinstance(expect[0], np.ndarray):
            if op == "resample":
                if not (np.array_equal(cw, expect[0]) and np.allclose(cv, expect[1], rtol=1e-12, atol=1e-12)):
                    raise Violation("C15.resize.resample", f"{what}: resampled values differ from linear interpolation")
            elif not (np.array_equal(cw, expect[0]) and np.array_equal(cv, expect[1])):
                raise Violation("C15.resize." + op, f"{what}: kept {len(cw)} samples {cw[:4]}..., expected "
                                                    f"{len(expect[0])} samples {expect[0][:4]}...")
        elif expect is not None and expect[0] == "pad":
            _, e0, e1, vals, samp = expect
            j = np.searchsorted(cw, mw[0])
            if j + len(mw) > len(cw) or not (np.array_equal(cw[j:j + len(mw)], mw) and np.array_equal(cv[j:j + len(mw)], mv)):
                raise Violation("C15.resize.pad", f"{what}: padding altered the retained samples")
            left, right = slice(0, j), slice(j + len(mw), len(cw))
            if not (np.all(cv[left] == vals[0]) and np.all(cv[right] == vals[1])):
                raise Violation("C15.resize.pad", f"{what}: padded values are not {vals}")
            if e0 < mw[0] and not (len(cw[left]) and abs(cw[0] - e0) <= 1e-12 * abs(e0)):
                raise Violation("C15.resize.pad", f"{what}: left padding does not start at the requested end {e0}")
            if e1 > mw[-1] and not (len(cw[right]) and abs(cw[-1] - e1) <= 1e-12 * abs(e1)):
                raise Violation("C15.resize.pad", f"{what}: right padding does not stop at the requested end {e1}")
        elif expect is None:
            # accepted although the arguments were meant to be invalid: retained samples must be a sub-sequence
            # of the model or the grid a valid new one; integrity was checked above
            pass
        mw, mv = cw.copy(), cv.copy()
    ctx.tag("unit:" + unit, "grid:" + case["grid"], f"steps:{min(len(ops), 10)}", "refused" if refused else None,
            *{"op:" + o for o in ops})
    ctx.nontrivial_if(len(set(o.replace("_bad", "") for o in ops)) >= 2)


# --- whole-number grids held in integer arrays -------------------------------------------------------------------------

@hyp("C15", "integer_grids", lambda tier: st.fixed_dictionaries(
        {"dtype": st.sampled_from(["uint8", "uint16", "uint16", "uint32", "uint64", "int16", "int32", "int64"]),
         "start": st.integers(1, 60), "steps": st.lists(st.integers(1, 9), min_size=2, max_size=10),
         "ops": st.lists(st.tuples(st.sampled_from(["append_interleaved", "append_after", "append_before", "resample_descending",
                                                     "resample_valid", "resample_unsorted", "crop", "pad"]),
                                   st.integers(0, 1000), st.booleans()), min_size=1, max_size=5),
         "seed": st.integers(0, 2**31 - 1)}),
     "spectra whose whole-number wavelength grid (and the grids handed to append / resample) are unsigned or signed "
     "integer arrays: after every crop / pad / append / resample - accepted or refused - the grid read as Python "
     "numbers is strictly increasing, there is one value per wavelength and an accepted append kept every sample",
     examples=(300, 1200))
def integer_grids(case, ctx):
    dt = np.dtype(case["dtype"])
    top = int(np.iinfo(dt).max)
    w = np.cumsum([case["start"]] + case["steps"])
    w = w[w <= top - 40] if top < 1000 else w
    if len(w) < 3:
        raise Skip("grid_does_not_fit_the_type")
    rng = np.random.default_rng(case["seed"])
    s = Spectrum(w.astype(dt), rng.uniform(0.1, 2.0, size=len(w)), waveunit="nm")
    ctx.tag("dtype:" + case["dtype"], "unsigned" if dt.kind == "u" else "signed", *sorted({"op:" + o[0] for o in case["ops"]}))
    ctx.nontrivial_if(any(o[0] in ("append_interleaved", "resample_descending", "resample_unsorted") for o in case["ops"]))

    def formed(what):
        ww = [float(x) for x in np.asarray(s.wave).tolist()]
        vv = np.asarray(s.value)
        if np.asarray(s.wave).ndim != 1 or vv.ndim != 1 or len(ww) != len(vv):
            raise Violation("C15.intgrid.lengths", f"after {what}: {np.asarray(s.wave).shape} wavelengths, {vv.shape} values")
        bad = [(a, b) for a, b in zip(ww, ww[1:]) if not b > a]
        if bad:
            raise Violation("C15.intgrid.increasing", f"after {what} on a {case['dtype']} grid: wavelength grid is not strictly "
                                                      f"increasing ({bad[0][0]:g} followed by {bad[0][1]:g}); grid = {ww[:12]}")

    done = []
    for name, k, flag in case["ops"]:
        cur_w = np.asarray(s.wave).astype(np.int64)
        cur_v = np.asarray(s.value, dtype=float).copy()
        n = len(cur_w)
        if n < 2:
            break
        expect = None
        try:
            with np.errstate(all="ignore"):
                if name.startswith("append"):
                    if name == "append_interleaved":
                        # element by element greater than the current grid, but starting inside it
                        ow = cur_w + max(1, int(cur_w[1] - cur_w[0]) // 2 if cur_w[1] - cur_w[0] > 1 else 1)
                        if ow[0] >= cur_w[-1]:
                            ow = cur_w + 1
                    elif name == "append_after":
                        ow = cur_w[-1] + 1 + np.arange(n) * (1 + k % 4)
                        expect = "appended"
                    else:
                        ow = np.maximum(cur_w - (1 + k % 3), 0)
                    if ow.max() > top:
                        continue
                    other = Spectrum(ow.astype(dt), rng.uniform(0.1, 2.0, size=n), waveunit="nm")
                    if flag:
                        r = s.append(other, copy=True)
                        if r is not None:
                            s = r
                    else:
                        s.append(other)
                elif name.startswith("resample"):
                    lo, hi = int(cur_w[0]), int(cur_w[-1])
                    g = np.unique(np.linspace(lo, hi, 2 + k % 6).astype(np.int64))
                    if name == "resample_descending":
                        g = g[::-1]
                    elif name == "resample_unsorted" and len(g) >= 3:
                        g = np.concatenate([g[1:2], g[:1], g[2:]])
                    s.resample(g.astype(dt), waveunit="nm")
                elif name == "crop":
                    s.crop(float(cur_w[min(1, n - 1)]), float(cur_w[-1]))
                else:
                    s.pad(1 + k % 3)
        except Exception:  # noqa: BLE001 - a refusal is fine; the spectrum must still be well-formed
            ctx.tag("refused:" + name)
            expect = None
        done.append(name)
        formed(f"[{' '.join(done)}]")
        if expect == "appended" and len(np.asarray(s.wave)) == 2 * n:
            if not (np.array_equal(np.asarray(s.wave)[:n].astype(np.int64), cur_w) and np.array_equal(np.asarray(s.value, dtype=float)[:n], cur_v)):
                raise Violation("C15.intgrid.retained", f"append after [{' '.join(done)}] altered the samples it kept")
