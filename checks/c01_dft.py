"""C01 - dft2 equals the defining Fourier sum; idft2 inverts it; out= is transparent."""
import numpy as np
from hypothesis import strategies as st

import lentil
from lentil import fourier
from vlib import gen
from vlib.ref import dft as rdft
from vlib.runner import Violation, hyp, lentil_call

# the check's own calls are issued with keywords or positionally in the documented order (vlib/callforms.py)
from vlib import callforms as _cf
lentil = _cf.proxy(lentil)
fourier = _cf.proxy(fourier, "fourier.")

RULE = ("cases drawn by Hypothesis: input shape, output shape, per-axis alpha, real shift, integer "
        "offset, unitary flag, out= buffer; non-trivial = at least 2 non-zero input samples and at "
        "least 2 output samples; distinct = distinct canonical case descriptors")
ASSUMPTIONS = [
    "reference sum evaluated in numpy longdouble (80-bit); tolerance 32*eps*(1+max|phase|)*sum|f|*scale",
    "sizes bounded (quick <= 12, thorough <= 40 per axis); |alpha| in [1e-4, 1]; |offset| <= 50",
]


def _alpha(draw, shape):
    kind = draw(st.sampled_from(["scalar", "pair", "pair", "full_period", "mixed_sign"]))
    if kind == "scalar":
        a = draw(gen.signed_log(1e-4, 1.0))
        return a, (a, a), kind
    if kind == "full_period":
        return (1.0 / shape[0], 1.0 / shape[1]), (1.0 / shape[0], 1.0 / shape[1]), kind
    a = draw(gen.signed_log(1e-4, 1.0))
    b = draw(gen.signed_log(1e-4, 1.0))
    if kind == "mixed_sign":
        a, b = abs(a), -abs(b)
    return (a, b), (a, b), kind


@st.composite
def forward_case(draw, tier="quick"):
    hi = 12 if tier == "quick" else draw(st.sampled_from([12, 12, 24, 40]))
    in_shape = draw(gen.shape2(1, hi))
    out_shape = draw(gen.shape2(1, hi))
    f = draw(gen.complex_array(in_shape))
    alpha_arg, alpha, akind = _alpha(draw, in_shape)
    shape_arg_kind = draw(st.sampled_from(["pair", "pair", "none", "int"]))
    if shape_arg_kind == "none":
        out_shape = in_shape
    elif shape_arg_kind == "int":
        out_shape = (out_shape[0], out_shape[0])
    zero_shift = draw(st.booleans())
    shift = (0.0, 0.0) if zero_shift else (draw(gen.finite(-2.0 * out_shape[0], 2.0 * out_shape[0])),
                                           draw(gen.finite(-2.0 * out_shape[1], 2.0 * out_shape[1])))
    zero_off = draw(st.booleans())
    offset = (0, 0) if zero_off else (draw(st.integers(-50, 50)), draw(st.integers(-50, 50)))
    # argument forms: scalars are broadcast to both axes; real and integer inputs are accepted
    forms = {"shift_scalar": False, "offset_scalar": False, "dtype": draw(st.sampled_from(["complex", "complex", "float", "int", "list"])),
             "layout": draw(gen.layouts())}
    if not zero_shift and draw(st.sampled_from([False, False, True])):
        shift = (shift[0], shift[0])
        forms["shift_scalar"] = True
    if not zero_off and draw(st.sampled_from([False, False, True])):
        offset = (offset[0], offset[0])
        forms["offset_scalar"] = True
    if forms["dtype"] == "float":
        f = f.real.copy()
    elif forms["dtype"] in ("int", "list"):
        f = np.round(f.real).astype(np.int64)
    if draw(st.integers(0, 7)) == 0:
        # rows and columns sampled (almost) alike: square input and output, equal offsets, per-axis alpha and shift
        # equal, a few ulps apart or 1e-12..1e-3 apart
        n_in, n_out = in_shape[0], out_shape[0]
        f = draw(gen.complex_array((n_in, n_in)))
        out_shape = (n_out, n_out)
        shape_arg_kind = draw(st.sampled_from(["pair", "int"]))
        a0 = draw(gen.signed_log(1e-3, 0.5))
        alpha = (a0, draw(gen.near(a0)))
        alpha_arg, akind = alpha, "near_pair"
        s0 = 0.0 if draw(st.booleans()) else draw(gen.finite(-2.0 * n_out, 2.0 * n_out))
        shift = (s0, draw(gen.near(s0)) if draw(st.booleans()) else s0)
        o0 = draw(st.integers(-20, 20)) if draw(st.booleans()) else 0
        offset = (o0, o0)
        forms = {"shift_scalar": False, "offset_scalar": False, "dtype": "complex", "layout": draw(gen.layouts())}
    if draw(st.integers(0, 7)) == 0:
        # special relations between the sampling and a shape: the output (or the input) spans exactly one period,
        # two periods or half a period (alpha * size = 1, 2, 1/2), with the usual freedom in everything else
        rel = draw(st.sampled_from(["out_1", "out_1", "out_2", "out_half", "in_1", "in_2", "mixed"]))
        ref = {"out": out_shape, "in": in_shape}
        if rel == "mixed":
            alpha = (1.0 / out_shape[0], 1.0 / in_shape[1])
        else:
            which, mult = rel.split("_")
            k = {"1": 1.0, "2": 2.0, "half": 0.5}[mult]
            alpha = (k / ref[which][0], k / ref[which][1])
        alpha_arg, akind = alpha, "period:" + rel
        if draw(st.booleans()):
            shift, offset = (0.0, 0.0), (0, 0)
            forms["shift_scalar"] = forms["offset_scalar"] = False
    return {"forms": forms, "f": f, "alpha_arg": list(alpha_arg) if isinstance(alpha_arg, tuple) else alpha_arg,
            "alpha": list(alpha), "akind": akind, "out_shape": list(out_shape), "shape_arg": shape_arg_kind,
            "shift": list(shift), "offset": list(offset), "unitary": draw(st.booleans()),
            "out": draw(st.sampled_from(["none", "none", "zeros", "dirty"]))}


def _call_dft2(case, f=None):
    f = case["f"] if f is None else f
    kw = {}
    if case["shape_arg"] == "pair":
        kw["shape"] = tuple(case["out_shape"])
    elif case["shape_arg"] == "int":
        kw["shape"] = int(case["out_shape"][0])
    alpha = case["alpha_arg"]
    alpha = tuple(alpha) if isinstance(alpha, list) else alpha
    forms = case.get("forms", {})
    shift = case["shift"][0] if forms.get("shift_scalar") else tuple(case["shift"])
    offset = case["offset"][0] if forms.get("offset_scalar") else tuple(case["offset"])
    if forms.get("dtype") == "list":
        f = np.asarray(f).tolist()
    else:
        f = gen.relayout(f, forms.get("layout"))
    return dict(f=f, alpha=alpha, shift=shift, offset=offset, unitary=case["unitary"], **kw)


def _tags(case, ctx):
    f = case["f"]
    a = case["alpha"]
    fm = case.get("forms", {})
    ctx.tag("input:" + fm.get("dtype", "complex"), "shift_scalar" if fm.get("shift_scalar") else None,
            "offset_scalar" if fm.get("offset_scalar") else None)
    ctx.tag("aniso_alpha" if a[0] != a[1] else "iso_alpha", "alpha:" + case["akind"],
            "unitary" if case["unitary"] else "non_unitary",
            "shift&offset" if any(case["shift"]) and any(case["offset"]) else None,
            "nonsquare_in" if f.shape[0] != f.shape[1] else None,
            "out_shape!=in_shape" if tuple(case["out_shape"]) != f.shape else None,
            "out_buffer:" + case.get("out", "none"), gen.parity_tags("in", f.shape),
            gen.parity_tags("out", case["out_shape"]),
            "1x1_in" if f.size == 1 else None)
    ctx.nontrivial_if(np.count_nonzero(f) >= 2 and case["out_shape"][0] * case["out_shape"][1] >= 2)


def _check_forward(case, ctx, oracle="C01.forward"):
    f = case["f"]
    args = _call_dft2(case)
    f_before = f.copy()
    out = None
    if case.get("out", "none") != "none":
        out = np.zeros(tuple(case["out_shape"]), dtype=complex)
        if case["out"] == "dirty":
            out[:] = 7.25 - 3.5j
    with lentil_call(oracle, "dft2"):
        F = fourier.dft2(out=out, **args) if out is not None else fourier.dft2(**args)
    ref, max_phase = rdft.dft2_ref(f, case["alpha"], case["out_shape"], case["shift"], case["offset"],
                                   case["unitary"])
    tol = rdft.tol_dft(f, case["alpha"], max_phase, case["unitary"])
    if F.shape != tuple(case["out_shape"]):
        raise Violation(oracle + ".shape", f"returned shape {F.shape}, expected {tuple(case['out_shape'])}")
    err = float(np.max(np.abs(F.astype(rdft.CLD) - ref)))
    if not err <= tol:
        raise Violation(oracle + ".value", f"max |dft2 - defining sum| = {err:.3e} > tol {tol:.3e}")
    if not np.array_equal(f, f_before):
        raise Violation(oracle + ".input_mutated", "dft2 modified its input array")
    if out is not None:
        if F is not out:
            raise Violation("C01.out.identity", "dft2(out=buf) did not return buf")
        with lentil_call("C01.out", "dft2 fresh"):
            fresh = fourier.dft2(**args)
        d = float(np.max(np.abs(fresh - out))) if out.size else 0.0
        if not d <= 8 * np.finfo(float).eps * (float(np.max(np.abs(fresh))) + 1e-300):
            raise Violation("C01.out.value", f"out= result differs from fresh allocation by {d:.3e}")


@hyp("C01", "forward", lambda tier: forward_case(tier),
     "dft2 vs extended-precision defining sum over (shape, alpha, shift, offset, unitary, out=)",
     examples=(700, 2500))
def forward(case, ctx):
    _tags(case, ctx)
    _check_forward(case, ctx)


# --- inverse ---------------------------------------------------------------

@st.composite
def inverse_case(draw, tier="quick"):
    hi = 12 if tier == "quick" else 32
    shape = draw(gen.shape2(1, hi))
    f = draw(gen.complex_array(shape))
    # (the spectrum handed to idft2 as dft2 returned it, or stored in single / extended precision in between)
    return {"f": f, "unitary": draw(st.booleans()), "out": draw(st.sampled_from(["none", "none", "dirty"])),
            "F_dtype": draw(st.sampled_from(["complex128", "complex128", "complex64", "complex64", "clongdouble"]))}


@hyp("C01", "inverse", lambda tier: inverse_case(tier),
     "idft2(dft2(f)) == f and Parseval for alpha = 1/n, equal shapes, same unitary flag",
     examples=(500, 2000))
def inverse(case, ctx):
    f = case["f"]
    m, n = f.shape
    u = case["unitary"]
    alpha = (1.0 / m, 1.0 / n)
    ctx.tag("unitary" if u else "non_unitary", gen.parity_tags("in", f.shape),
            "nonsquare" if m != n else "square", "out:" + case["out"])
    ctx.nontrivial_if(np.count_nonzero(f) >= 2)
    eps = np.finfo(float).eps
    sumabs = float(np.sum(np.abs(f)))
    with lentil_call("C01.inverse", "dft2"):
        F = fourier.dft2(f, alpha, unitary=u)
    fdt = case.get("F_dtype", "complex128")
    e_F64 = float(np.sum(np.abs(F) ** 2))
    if fdt == "complex64" and not (1e-30 < float(np.max(np.abs(F))) < 1e30):
        fdt = "complex128"                  # (single precision cannot hold magnitudes outside ~1e-38 .. 1e38 at all)
    if fdt != "complex128":
        F = F.astype(fdt)
        ctx.tag("spectrum_dtype:" + fdt)
    F_before = F.copy()
    out = None
    if case["out"] == "dirty" and fdt != "clongdouble":        # (np.dot cannot write extended precision into a complex128 buffer)
        out = np.full((m, n), 3.0 + 1j, dtype=complex)
    with lentil_call("C01.inverse", "idft2"):
        g = fourier.idft2(F, alpha, unitary=u, out=out) if out is not None else fourier.idft2(F, alpha, unitary=u)
    # rounding bound: phase args up to pi*max(m,n)/2 in each of two passes
    max_phase = np.pi * (m + n)
    tol = 64 * eps * (1 + max_phase) * sumabs + 1e-300
    if fdt == "complex64":
        tol += 4 * float(np.finfo(np.float32).eps) * float(np.sum(np.abs(F_before))) * (np.sqrt(abs(alpha[0] * alpha[1])) if u else abs(alpha[0] * alpha[1]))
    err = float(np.max(np.abs(g - f)))
    if not err <= tol:
        raise Violation("C01.inverse.roundtrip",
                        f"unitary={u} shape={f.shape}: max|idft2(dft2(f)) - f| = {err:.3e} > {tol:.3e}")
    if not np.array_equal(F, F_before):
        raise Violation("C01.inverse.input_mutated", "idft2 modified its input")
    if out is not None and g is not out:
        raise Violation("C01.out.identity", "idft2(out=buf) did not return buf")
    if u:
        e_in = float(np.sum(np.abs(f) ** 2))
        e_F = e_F64
        with lentil_call("C01.inverse", "idft2 energy"):
            e_g = float(np.sum(np.abs(fourier.idft2(f, alpha, unitary=True)) ** 2))
        rel = 256 * eps * (1 + max_phase)
        if not abs(e_F - e_in) <= rel * e_in + 1e-300:
            raise Violation("C01.forward.parseval", f"forward unitary energy {e_F:.6e} != {e_in:.6e}")
        if not abs(e_g - e_in) <= rel * e_in + 1e-300:
            raise Violation("C01.inverse.parseval",
                            f"idft2(unitary=True) energy {e_g:.6e} != input energy {e_in:.6e} (shape {f.shape})")


# --- history: repeated shapes hit the coordinate cache ------------------------

@st.composite
def history_case(draw, tier="quick"):
    hi = 8 if tier == "quick" else 16
    in_shape = draw(gen.shape2(1, hi))
    out_shape = draw(gen.shape2(1, hi))
    steps = []
    for _ in range(draw(st.integers(2, 6))):
        c = draw(forward_case("quick"))
        f = draw(gen.complex_array(in_shape))
        a = c["alpha"]
        steps.append({"f": f, "alpha_arg": list(a), "alpha": list(a), "akind": "pair",
                      "out_shape": list(out_shape), "shape_arg": "pair",
                      "shift": [min(max(s, -2.0 * o), 2.0 * o) for s, o in zip(c["shift"], out_shape)],
                      "offset": c["offset"], "unitary": c["unitary"], "out": c["out"]})
    return {"steps": steps}


@hyp("C01", "history", lambda tier: history_case(tier),
     "2-6 consecutive dft2 calls sharing (m,n,M,N) with different alpha/shift/offset, each vs the defining sum",
     examples=(150, 600))
def history(case, ctx):
    steps = case["steps"]
    ctx.tag(f"steps:{len(steps)}")
    ctx.nontrivial_if(len(steps) >= 2 and any(any(s["offset"]) for s in steps))
    for i, s in enumerate(steps):
        _check_forward(s, ctx, oracle="C01.history")


# --- large arrays: sizes at and around the usual implementation thresholds -----------------------------

@st.composite
def large_case(draw, tier="quick"):
    in_shape = (draw(gen.big_dim()), draw(gen.big_dim()))
    kind = draw(st.sampled_from(["full_period", "full_period", "general"]))
    k = draw(st.integers(0, 2**31 - 1))
    rng = np.random.default_rng(k)
    f = rng.normal(size=in_shape) + 1j * rng.normal(size=in_shape)
    if kind == "full_period":
        alpha = [1.0 / in_shape[0], 1.0 / in_shape[1]]
        return {"forms": {"dtype": "complex", "layout": draw(gen.layouts())}, "f": f,
                "alpha_arg": alpha if draw(st.booleans()) or in_shape[0] != in_shape[1] else alpha[0], "alpha": alpha,
                "akind": "full_period", "out_shape": list(in_shape), "shape_arg": draw(st.sampled_from(["none", "pair"])),
                "shift": [0.0, 0.0], "offset": [0, 0], "unitary": draw(st.booleans()),
                "out": draw(st.sampled_from(["none", "dirty"]))}
    out_shape = (draw(st.integers(1, 40)), draw(st.integers(1, 40)))
    alpha = [draw(gen.signed_log(1e-4, 0.05)), draw(gen.signed_log(1e-4, 0.05))]
    return {"forms": {"dtype": "complex", "layout": draw(gen.layouts())}, "f": f, "alpha_arg": alpha, "alpha": alpha,
            "akind": "pair", "out_shape": list(out_shape), "shape_arg": "pair",
            "shift": [draw(gen.finite(-20, 20)), draw(gen.finite(-20, 20))],
            "offset": [draw(st.integers(-50, 50)), draw(st.integers(-50, 50))], "unitary": draw(st.booleans()),
            "out": "none"}


@hyp("C01", "large", lambda tier: large_case(tier),
     "inputs of 63..160 samples per axis (at and around 64 / 128, both parities): full-period transforms and general "
     "configurations vs the defining sum; inverse round trip", examples=(24, 40), budget_s=(120, 600))
def large(case, ctx):
    _tags(case, ctx)
    ctx.tag("large")
    _check_forward(case, ctx, oracle="C01.large")
    if case["akind"] == "full_period":
        f = case["f"]
        a = tuple(case["alpha"])
        with lentil_call("C01.large.inverse", "idft2(dft2(f))"):
            g = fourier.idft2(fourier.dft2(f, a, unitary=case["unitary"]), a, unitary=case["unitary"])
        tol = 64 * np.finfo(float).eps * (1 + np.pi * sum(f.shape)) * float(np.sum(np.abs(f)))
        if float(np.max(np.abs(g - f))) > tol:
            raise Violation("C01.large.roundtrip", f"idft2(dft2(f)) != f for shape {f.shape}")


# --- long thin arrays: kernels with millions of elements on one axis ---------------------------------------

LONG_IN = [1023, 1024, 1025, 1500, 2047, 2048, 2049, 2600, 3001]


@st.composite
def long_case(draw, tier="quick"):
    m = draw(st.sampled_from(LONG_IN))
    if draw(st.integers(0, 4)) == 0:
        # an output one or two samples longer than a power-of-two-sized input: block-wise evaluations end with a block
        # of a single output sample
        m = draw(st.sampled_from([2048, 2048, 4096, 2049, 3000]))
        return {"m": m, "M": m + draw(st.sampled_from([1, 1, 2])), "thin_in": draw(st.integers(1, 3)), "thin_out": draw(st.integers(1, 5)),
                "axis": draw(st.integers(0, 1)), "alpha_thin": draw(gen.signed_log(1e-2, 0.4)),
                "seed": draw(st.integers(0, 2**31 - 1)), "out": draw(st.sampled_from(["none", "none", "dirty"])),
                "layout": draw(gen.layouts()), "unitary": draw(st.booleans())}
    if draw(st.integers(0, 3)) == 0:
        # a short input onto a very long output axis (more than 2^14 = 16384 output samples, sizes of no special form)
        m = draw(st.integers(8, 60))
        M = draw(st.integers(16385, 40000))
        return {"m": m, "M": M, "thin_in": draw(st.integers(1, 3)), "thin_out": draw(st.integers(1, 5)),
                "axis": draw(st.integers(0, 1)), "alpha_thin": draw(gen.signed_log(1e-2, 0.4)),
                "seed": draw(st.integers(0, 2**31 - 1)), "out": draw(st.sampled_from(["none", "none", "dirty"])),
                "layout": draw(gen.layouts()), "unitary": draw(st.booleans())}
    if draw(st.integers(0, 3)):
        # kernel element count M*m aimed between 2^22 and 9e6, either parity and residue of M
        M = max(m, draw(st.integers(2**22 + 1, 9_000_000)) // m + draw(st.integers(0, 2)))
    else:
        M = draw(st.sampled_from([m, m + 1, m + 2, 2 * m - 1, 2 * m, 2 * m + 1]))
    while M * m > 9_100_000 and M > m:
        M = max(m, M // 2 + 1)
    return {"m": m, "M": M, "thin_in": draw(st.integers(1, 3)), "thin_out": draw(st.integers(1, 5)),
            "axis": draw(st.integers(0, 1)), "alpha_thin": draw(gen.signed_log(1e-2, 0.4)),
            "seed": draw(st.integers(0, 2**31 - 1)), "out": draw(st.sampled_from(["none", "none", "dirty"])),
            "layout": draw(gen.layouts())}


def long_reference(f, M, alpha_thin, thin_out):
    """full-period (alpha = 1/M) transform along axis 0 by zero-padded FFT, direct sum along the thin axis 1"""
    m, n = f.shape
    c = np.arange(n) - n // 2
    v = np.arange(thin_out) - thin_out // 2
    E2 = np.exp(-2j * np.pi * alpha_thin * np.outer(c, v))
    H = f @ E2                                         # (m, thin_out)
    g = np.zeros((M, thin_out), dtype=complex)
    x = np.arange(m) - m // 2
    g[x % M] = H                                       # circular placement (m <= M: no collisions)
    G = np.fft.fft(g, axis=0)
    u = np.arange(M) - M // 2
    return G[u % M]


@hyp("C01", "long", lambda tier: long_case(tier),
     "inputs of 1023..3001 samples on one axis and 1..3 on the other, transformed over one full period "
     "(1/alpha = M up to ~4 m, kernels of up to 9e6 elements) vs an FFT-based evaluation of the same sum",
     examples=(14, 60), budget_s=(150, 700))
def long(case, ctx):
    m, M = case["m"], case["M"]
    rng = np.random.default_rng(case["seed"])
    f = rng.normal(size=(m, case["thin_in"])) + 1j * rng.normal(size=(m, case["thin_in"]))
    ref = long_reference(f, M, case["alpha_thin"], case["thin_out"])
    alpha = [1.0 / M, case["alpha_thin"]]
    shape = [M, case["thin_out"]]
    if case["axis"] == 1:
        f, ref, alpha, shape = f.T, ref.T, alpha[::-1], shape[::-1]
    f = gen.relayout(np.ascontiguousarray(f), case["layout"])
    ctx.tag("output>16384" if M > 16384 else None)
    ctx.tag(f"kernel:2^{int(np.log2(M * m))}" if M * m >= 2**24 else None)
    ctx.tag(f"axis:{case['axis']}", "kernel>4M" if M * m > 2**22 else "kernel<=4M", "M_odd" if M % 2 else "M_even",
            "m_odd" if m % 2 else "m_even", "out:" + case["out"], "M=m" if M == m else "M>m")
    ctx.nontrivial_if(True)
    kw = {}
    if case["out"] == "dirty":
        kw["out"] = np.full(tuple(shape), 7.0 + 3j)
    with lentil_call("C01.long", f"dft2(input {f.shape}, alpha {alpha}, shape {shape})"):
        F = fourier.dft2(f, tuple(alpha), shape=tuple(shape), unitary=bool(case.get("unitary", False)), **kw)
    if case.get("unitary"):
        ref = ref * np.sqrt(abs(alpha[0] * alpha[1]))
    tol = 64 * np.finfo(float).eps * (1 + np.pi * m) * float(np.sum(np.abs(f))) / min(f.shape)
    if F.shape != tuple(shape):
        raise Violation("C01.long.shape", f"output shape {F.shape}, requested {shape}")
    err = np.abs(F - ref)
    if float(err.max()) > tol:
        i = np.unravel_index(int(np.argmax(err)), err.shape)
        raise Violation("C01.long.value", f"dft2(input {f.shape}, full period {M}) differs from the defining sum at output "
                                          f"sample {tuple(int(v) for v in i)} by {float(err.max()):.3e} (tol {tol:.3e})")
    if "out" in kw and F is not kw["out"]:
        raise Violation("C01.long.out", "out= buffer is not the returned array")


# --- output buffers that share memory with the input ------------------------------------------------------------

@st.composite
def inplace_case(draw, tier="quick"):
    # fixed shares: one case in three has the long axis on the rows with a kernel above 2^22 elements
    size = draw(st.sampled_from(["small", "small", "medium", "long_rows", "long_rows", "long_cols"]))
    if size == "small":
        m, n = draw(gen.shape2(1, 12))
    elif size == "medium":
        m, n = draw(st.sampled_from([63, 64, 65, 129, 300])), draw(st.integers(1, 20))
        if draw(st.booleans()):
            m, n = n, m
    else:
        # long axis: kernels of 4.2e6 .. 9e6 elements when the output has the input's shape
        m, n = draw(st.sampled_from([2049, 2200, 2600, 3001])), draw(st.integers(1, 3))
        if size == "long_cols":
            m, n = n, m
    kind = draw(st.sampled_from(["same_array", "same_array", "overlap_rows", "overlap_back"]))
    return {"shape": [m, n], "kind": kind, "lag": draw(st.integers(1, 3)), "seed": draw(st.integers(0, 2**31 - 1)),
            "alpha": [draw(gen.signed_log(1e-4, 0.5)), draw(gen.signed_log(1e-4, 0.5))] if draw(st.booleans()) else None,
            "shift": [draw(gen.finite(-2, 2)), draw(gen.finite(-2, 2))] if draw(st.booleans()) else [0.0, 0.0],
            "offset": [draw(st.integers(-5, 5)), draw(st.integers(-5, 5))] if draw(st.booleans()) else [0, 0],
            "unitary": draw(st.booleans()), "inverse": draw(st.sampled_from([False, False, False, True]))}


@hyp("C01", "inplace", lambda tier: inplace_case(tier),
     "dft2 / idft2 with out= sharing memory with the input (the input array itself - the in-place transform of the "
     "repository's own out= test -, or a window of the same buffer a few rows further on / back; np.dot requires "
     "C-contiguous buffers), from 1 x 1 to 3001 x 3 (kernels up to 9e6 elements): the buffer ends up holding exactly what a fresh "
     "allocation returns for a copy of the input", examples=(60, 250), budget_s=(200, 800))
def inplace(case, ctx):
    m, n = case["shape"]
    rng = np.random.default_rng(case["seed"])
    data = rng.normal(size=(m, n)) + 1j * rng.normal(size=(m, n))
    alpha = tuple(case["alpha"]) if case["alpha"] else (1.0 / m, 1.0 / n)
    fn = fourier.idft2 if case["inverse"] else fourier.dft2
    kw = dict(shift=tuple(case["shift"]), unitary=case["unitary"])
    if not case["inverse"]:
        kw["offset"] = tuple(case["offset"])
    kind = case["kind"]
    lag = case["lag"]
    if kind == "same_array":
        f = data.copy()
        out = f
    elif kind == "overlap_rows":
        big = np.zeros((m + lag, n), dtype=complex)
        big[:m] = data
        f, out = big[:m], big[lag:lag + m]
    else:
        big = np.zeros((m + lag, n), dtype=complex)
        big[lag:] = data
        f, out = big[lag:], big[:m]
    ctx.tag("kind:" + kind, "idft2" if case["inverse"] else "dft2", "row_kernel>4M" if m * m > 2**22 else ("col_kernel>4M" if n * n > 2**22 else "kernel<=4M"),
            "full_period" if case["alpha"] is None else "drawn_alpha", gen.parity_tags("in", (m, n)))
    ctx.nontrivial_if(data.size >= 2)
    with lentil_call("C01.inplace.fresh", f"{fn.__name__} on a copy of the input"):
        fresh = fn(data.copy(), alpha, shape=(m, n), **kw)
    with lentil_call("C01.inplace", f"{fn.__name__}(input {(m, n)}, out={kind})"):
        ret = fn(f, alpha, shape=(m, n), out=out, **kw)
    if ret is not out:
        raise Violation("C01.out.identity", f"{fn.__name__}(out=buf) did not return buf ({kind})")
    d = float(np.max(np.abs(fresh - out)))
    tol = 64 * np.finfo(float).eps * (float(np.max(np.abs(fresh))) + 1e-300)
    if not d <= tol:
        raise Violation("C01.out.aliased", f"{fn.__name__} of a {(m, n)} array with out= sharing memory with the input "
                                           f"({kind}{', lag ' + str(lag) if kind != 'same_array' else ''}): buffer differs from "
                                           f"the fresh-allocation result by {d:.3e} (peak {float(np.max(np.abs(fresh))):.3e})")


# --- kernels up to the memory limit: 2^24 .. 2^26.8 elements on one axis ----------------------------------------------

@st.composite
def giant_case(draw, tier="quick"):
    # four cases in five above 2^26 elements (1 GiB of complex128 for the matrix alone)
    # (a kernel above a size threshold is above every lower threshold too: most cases sit at the top of the range)
    K = int(2 ** (draw(st.floats(26.2, 26.8)) if draw(st.integers(0, 4)) else draw(st.floats(24.0, 26.2))))
    top = int(np.sqrt(K))
    m = int(np.exp(draw(st.floats(np.log(60.0), np.log(float(min(top, 12000)))))))
    M = max(m, K // m + draw(st.integers(0, 2)))
    return {"m": m, "M": M, "thin_in": draw(st.integers(1, 3)), "thin_out": draw(st.integers(1, 4)),
            "axis": draw(st.integers(0, 1)), "alpha_thin": draw(gen.signed_log(1e-2, 0.4)),
            "seed": draw(st.integers(0, 2**31 - 1)), "out": draw(st.sampled_from(["none", "none", "dirty"])),
            "layout": "C", "unitary": draw(st.booleans())}


hyp("C01", "giant", lambda tier: giant_case(tier),
    "inputs of 60..12000 samples on one axis transformed over one full period with kernels of 2^24 .. 2^26.8 "
    "elements (mostly at the top; up to ~1.9 GB for the transform matrix, i.e. up to what the memory cap allows) vs an "
    "FFT-based evaluation of the same sum, long axis first and long axis second", examples=(3, 5), budget_s=(400, 900), max_shards=2)(lambda case, ctx: [long(dict(case, axis=a), ctx) for a in (0, 1)] and None)


# --- both kernels large at once ----------------------------------------------------------------------------------------

@hyp("C01", "both_kernels", lambda tier: st.fixed_dictionaries(
        {"K": st.one_of(st.floats(24.05, 24.5), st.floats(24.05, 24.5), st.floats(24.05, 24.5), st.floats(22.2, 24.0)),
         "long": st.integers(9000, 16000), "swap": st.booleans(), "seed": st.integers(0, 2**31 - 1),
         "q": st.tuples(st.floats(0.2, 0.9), st.floats(0.2, 0.9)), "unitary": st.booleans(),
         "shift": st.tuples(st.floats(-2, 2), st.floats(-2, 2)), "offset": st.tuples(st.integers(-9, 9), st.integers(-9, 9))}),
     "an input that is long on one axis transformed onto an output that is long on the OTHER axis: the row kernel "
     "(output rows x input rows) and the column kernel (input columns x output columns) both hold 2^22 .. 2^24.5 "
     "elements; 400 output samples spread over the whole output vs the defining sum", examples=(2, 3), budget_s=(400, 900),
     max_shards=2)
def both_kernels(case, ctx):
    K = int(2 ** case["K"])
    L = case["long"]
    S = max(2, K // L + 1)
    m, n = (L, S) if not case["swap"] else (S, L)
    M, N = n, m
    rng = np.random.default_rng(case["seed"])
    f = rng.normal(size=(m, n)) + 1j * rng.normal(size=(m, n))
    a = (case["q"][0] / max(m, M), case["q"][1] / max(n, N))
    sh, off = case["shift"], case["offset"]
    ctx.tag(f"row_kernel:2^{int(np.log2(M * m))}", f"col_kernel:2^{int(np.log2(n * N))}", "unitary" if case["unitary"] else "plain")
    ctx.nontrivial_if(True)
    with lentil_call("C01.both_kernels", f"dft2(input {m}x{n} -> output {M}x{N})"):
        F = fourier.dft2(f, a, shape=(M, N), shift=sh, offset=off, unitary=case["unitary"])
    if F.shape != (M, N):
        raise Violation("C01.both_kernels.shape", f"output shape {F.shape}, requested {(M, N)}")
    rows = np.unique(np.concatenate([[0, M - 1, M // 2], rng.integers(0, M, size=17)]))
    cols = np.unique(np.concatenate([[0, N - 1, N // 2], rng.integers(0, N, size=17)]))
    x = np.arange(m) - m // 2 + off[0]
    y = np.arange(n) - n // 2 + off[1]
    E1 = np.exp(-2j * np.pi * a[0] * np.outer(rows - M // 2 - sh[0], x))
    E2 = np.exp(-2j * np.pi * a[1] * np.outer(y, cols - N // 2 - sh[1]))
    ref = E1 @ f @ E2
    if case["unitary"]:
        ref = ref * np.sqrt(a[0] * a[1])
    sub = F[np.ix_(rows, cols)]
    tol = 1e-9 * float(np.sum(np.abs(f))) * (np.sqrt(a[0] * a[1]) if case["unitary"] else 1.0)
    err = np.abs(sub - ref)
    if float(err.max()) > tol:
        i, j = np.unravel_index(int(np.argmax(err)), err.shape)
        raise Violation("C01.both_kernels.value", f"dft2(input {m}x{n}, output {M}x{N}): output sample ({int(rows[i])}, {int(cols[j])}) is "
                                                  f"{complex(sub[i, j]):.6g}, the defining sum is {complex(ref[i, j]):.6g} "
                                                  f"({int((err > tol).sum())} of {err.size} checked samples differ)")


# --- input planes of more than a million samples (both axes long), small output windows ------------------------

@st.composite
def huge2d_case(draw, tier="quick"):
    m = draw(st.integers(1030, 1500))
    n = draw(st.integers(max(700, 2**20 // m + 1), 1500)) if draw(st.integers(0, 3)) else draw(st.integers(600, 1000))
    if draw(st.booleans()):
        m, n = n, m
    k = draw(st.integers(0, 2**31 - 1))
    out_shape = (draw(st.integers(1, 6)), draw(st.integers(1, 6)))
    alpha = [draw(gen.signed_log(1e-5, 2e-3)), draw(gen.signed_log(1e-5, 2e-3))]
    return {"forms": {"dtype": draw(st.sampled_from(["complex", "float"])), "layout": draw(gen.layouts())},
            "seed": k, "in_shape": [m, n], "alpha_arg": alpha, "alpha": alpha, "akind": "pair",
            "out_shape": list(out_shape), "shape_arg": "pair",
            "shift": [draw(gen.finite(-3, 3)), draw(gen.finite(-3, 3))] if draw(st.booleans()) else [0.0, 0.0],
            "offset": [draw(st.integers(-30, 30)), draw(st.integers(-30, 30))] if draw(st.booleans()) else [0, 0],
            "unitary": draw(st.booleans()), "out": "none"}


@hyp("C01", "huge2d", lambda tier: huge2d_case(tier),
     "input planes of 600..1500 samples on both axes (mostly more than 2^20 samples in total, sizes of no special "
     "form) transformed onto 1..6 x 1..6 output samples vs the defining sum", examples=(8, 30), budget_s=(150, 700))
def huge2d(case, ctx):
    m, n = case["in_shape"]
    rng = np.random.default_rng(case["seed"])
    f = rng.normal(size=(m, n))
    if case["forms"]["dtype"] == "complex":
        f = f + 1j * rng.normal(size=(m, n))
    case = dict(case, f=f)
    ctx.tag("samples>2^20" if m * n > 2**20 else "samples<=2^20", "huge2d")
    _check_forward(case, ctx, oracle="C01.huge2d")


# --- one geometry, one parameter stepping through consecutive integers (a window slid sample by sample) -------------

@st.composite
def slide_case(draw, tier="quick"):
    big = draw(st.integers(0, 3)) == 0
    if big:
        in_shape = (draw(st.integers(90, 130)), draw(st.integers(90, 130)))
        out_shape = (draw(st.integers(90, 130)), draw(st.integers(90, 130)))
    else:
        in_shape, out_shape = draw(gen.shape2(2, 12)), draw(gen.shape2(2, 12))
    alpha = [draw(gen.signed_log(1e-3, 0.3)) / (10 if big else 1), draw(gen.signed_log(1e-3, 0.3)) / (10 if big else 1)]
    base_shift = [float(draw(st.integers(-3, 3))), float(draw(st.integers(-3, 3)))] if draw(st.booleans()) else [0.0, 0.0]
    base_off = [draw(st.integers(-3, 3)), draw(st.integers(-3, 3))] if draw(st.booleans()) else [0, 0]
    slot = draw(st.sampled_from(["shift_r", "shift_c", "offset_r", "offset_c"]))
    vals = draw(st.permutations([-3, -2, -1, 0, 1, 2]))
    return {"in_shape": list(in_shape), "out_shape": list(out_shape), "alpha": alpha, "base_shift": base_shift,
            "base_offset": base_off, "slot": slot, "values": list(vals)[:draw(st.integers(3, 6))],
            "seed": draw(st.integers(0, 2**31 - 1)), "unitary": draw(st.booleans()), "same_input": draw(st.booleans())}


@hyp("C01", "slide", lambda tier: slide_case(tier),
     "3-6 consecutive dft2 calls with identical shapes and alpha in which one of shift / offset (row or column) steps "
     "through consecutive integers in a drawn order, everything else equal: each result vs the defining sum",
     examples=(120, 500), budget_s=(150, 700))
def slide(case, ctx):
    rng = np.random.default_rng(case["seed"])
    shp = tuple(case["in_shape"])
    f0 = rng.normal(size=shp) + 1j * rng.normal(size=shp)
    ctx.tag("slot:" + case["slot"], "big" if max(shp) >= 90 else "small", f"steps:{len(case['values'])}",
            "passes_-1_and_-2" if -1 in case["values"] and -2 in case["values"] else None)
    ctx.nontrivial_if(len(case["values"]) >= 3)
    for v in case["values"]:
        shift, off = list(case["base_shift"]), list(case["base_offset"])
        if case["slot"] == "shift_r":
            shift[0] = float(v)
        elif case["slot"] == "shift_c":
            shift[1] = float(v)
        elif case["slot"] == "offset_r":
            off[0] = int(v)
        else:
            off[1] = int(v)
        f = f0 if case["same_input"] else rng.normal(size=shp) + 1j * rng.normal(size=shp)
        step = {"forms": {"dtype": "complex", "layout": "C"}, "f": f, "alpha_arg": list(case["alpha"]), "alpha": list(case["alpha"]),
                "akind": "pair", "out_shape": list(case["out_shape"]), "shape_arg": "pair", "shift": shift, "offset": off,
                "unitary": case["unitary"], "out": "none"}
        _check_forward(step, ctx, oracle="C01.slide")


# --- one full period of a frame of more than 2^20 samples --------------------------------------------------------------

@hyp("C01", "mega_period", lambda tier: st.fixed_dictionaries(
        {"shape": st.one_of(st.tuples(st.integers(512, 530).map(lambda k: 2 * k + 1), st.integers(1025, 1060)),
                            st.tuples(st.integers(1025, 1060), st.integers(512, 530).map(lambda k: 2 * k + 1)),
                            st.tuples(st.integers(513, 530).map(lambda k: 2 * k), st.integers(513, 530).map(lambda k: 2 * k))).map(list),
         "seed": st.integers(0, 2**31 - 1),
         "unitary": st.booleans(), "out": st.sampled_from(["none", "dirty"]), "inverse": st.booleans()}),
     "dft2 (and idft2) of a frame of more than 2^20 samples over exactly one period (alpha = 1/shape, output shape = "
     "input shape, no shift or offset; odd and even lengths) vs the centred FFT", examples=(2, 6), budget_s=(200, 800))
def mega_period(case, ctx):
    m, n = case["shape"]
    rng = np.random.default_rng(case["seed"])
    f = rng.normal(size=(m, n)) + 1j * rng.normal(size=(m, n))
    alpha = (1.0 / m, 1.0 / n)
    ctx.tag("mega", "odd_axis" if m % 2 or n % 2 else "even_axes", "unitary" if case["unitary"] else "plain", "out:" + case["out"])
    ctx.nontrivial_if(True)
    kw = {"out": np.full((m, n), 3.0 - 2j)} if case["out"] == "dirty" else {}
    with lentil_call("C01.mega_period", f"dft2({m}x{n}, alpha = 1/shape)"):
        F = fourier.dft2(f, alpha, unitary=case["unitary"], **kw)
    ref = np.fft.fftshift(np.fft.fft2(np.fft.ifftshift(f)))          # origin sample floor(n/2) on both planes, any parity
    if case["unitary"]:
        ref = ref / np.sqrt(m * n)
    tol = 64 * np.finfo(float).eps * (1 + np.pi * (m + n)) * float(np.sum(np.abs(f))) * (1 / np.sqrt(m * n) if case["unitary"] else 1.0) / np.sqrt(m * n) * 8
    err = float(np.max(np.abs(F - ref)))
    if F.shape != (m, n) or err > tol:
        raise Violation("C01.mega_period.value", f"dft2 of a {m}x{n} frame over one period differs from the centred FFT by "
                                                 f"{err:.3e} (tol {tol:.3e})")
    if kw and F is not kw["out"]:
        raise Violation("C01.mega_period.out", "out= buffer is not the returned array")
    if case["inverse"]:
        with lentil_call("C01.mega_period", "idft2"):
            g = fourier.idft2(ref, alpha, unitary=case["unitary"])
        if float(np.max(np.abs(g - f))) > tol / (1 if case["unitary"] else m * n) * 8 + 1e-9:
            raise Violation("C01.mega_period.inverse", f"idft2 of the one-period transform of a {m}x{n} frame does not return it")
