"""C04 - tilt carried as metadata is optically identical to tilt in the OPD."""
import itertools

import numpy as np
import scipy.integrate
from hypothesis import strategies as st

import lentil
from lentil.field import Field
from checks import common as cm
from vlib import gen
from vlib.ref import dft as rdft
from vlib.ref import plane_model as pm
from vlib.runner import Skip, Violation, hyp, lentil_call

# the check's own calls are issued with keywords or positionally in the documented order (vlib/callforms.py)
from vlib import callforms as _cf
lentil = _cf.proxy(lentil)

RULE = ("apertures (monolithic or segmented with one tilt per segment) whose tilt is expressed as an OPD ramp, "
        "Tilt planes at any chain position, Wavefront(tilt=), fit_tilt (copy / in place) or first-order "
        "dispersive elements, with square and non-square output pixels; non-trivial = some metadata shift has a "
        "sub-pixel part >= 0.05 sample; distinct = distinct canonical descriptors")
ASSUMPTIONS = [
    "reference: longdouble DFT of the model field with the total tilt applied as the exact phase ramp "
    "(shift theorem), compared on every sample covered by lentil's output fields",
    "the covered window must have the propagation-window shape clipped to the output and a centre within one "
    "sample of the exact metadata displacement (fix vs round is not pinned)",
    "segments whose least-squares tilt is ill-conditioned (collinear samples) are skipped and counted",
    "higher-order dispersive elements are checked at the displacement level only (root finding: 1e-6 relative)",
]


# ---------------------------------------------------------------------------------
# helpers

def ramp(shape, dx, tx, ty):
    """OPD ramp equivalent to Tilt(x=tx, y=ty): r*dx_r*tx - c*dx_c*ty about the origin sample"""
    r = (np.arange(shape[0]) - shape[0] // 2)[:, None] * dx[0]
    c = (np.arange(shape[1]) - shape[1] // 2)[None, :] * dx[1]
    return r * tx - c * ty


def angles_to_shift(tx, ty, z, du, os_):
    """displacement in oversampled output samples (row, col)"""
    return (z * tx * os_ / du[0], -z * ty * os_ / du[1])


def lsq_tilt(opd, mask, dx):
    """independent least-squares piston/tip/tilt over mask; returns (p, tx, ty, cond)"""
    idx = np.argwhere(mask != 0)
    r = (idx[:, 0] - opd.shape[0] // 2) * dx[0]
    c = (idx[:, 1] - opd.shape[1] // 2) * dx[1]
    A = np.stack([np.ones(len(idx)), r, -c], axis=1)
    sv = np.linalg.svd(A / np.maximum(np.abs(A).max(axis=0), 1e-300), compute_uv=False)
    cond = float(sv[0] / sv[-1]) if (len(idx) >= 3 and sv[-1] > 0) else np.inf
    sol = np.linalg.lstsq(A, opd[mask != 0], rcond=None)[0]
    return float(sol[0]), float(sol[1]), float(sol[2]), cond


def tilt_angles(t):
    """read the angles of a lentil Tilt through its public shift(): (x, y) = (-z*ty, -z*tx)"""
    x, y = t.shift(xs=0, ys=0, z=1.0, wavelength=1e-6)
    return float(-y), float(-x)


def field_rect(f, full):
    h, w = f.data.shape
    r0 = full[0] // 2 + int(f.offset[0]) - h // 2
    c0 = full[1] // 2 + int(f.offset[1]) - w // 2
    return r0, r0 + h, c0, c0 + w


def candidate_windows(full, win, s_meta):
    """all (r0, r1, c0, c1) clipped windows whose centre lies within one sample of s_meta"""
    out = []
    eps = 1e-6
    rs = [c for c in range(int(np.floor(s_meta[0])) - 1, int(np.ceil(s_meta[0])) + 2) if abs(c - s_meta[0]) < 1 + eps]
    cs = [c for c in range(int(np.floor(s_meta[1])) - 1, int(np.ceil(s_meta[1])) + 2) if abs(c - s_meta[1]) < 1 + eps]
    for cr in rs:
        for cc in cs:
            r0 = full[0] // 2 + cr - win[0] // 2
            c0 = full[1] // 2 + cc - win[1] // 2
            r1, c1 = r0 + win[0], c0 + win[1]
            R0, R1, C0, C1 = max(r0, 0), min(r1, full[0]), max(c0, 0), min(c1, full[1])
            if R1 <= R0 or C1 <= C0:
                out.append(None)
            else:
                out.append((R0, R1, C0, C1))
    return out


def check_tilted_output(oracle, out, segs, full, win, alpha, extra_tol=0.0):
    """segs: list of {"base": complex field, "s_total": (r, c), "s_meta": (r, c)} in segment order"""
    refs = []
    for sg in segs:
        F, max_phase = rdft.dft2_ref(sg["base"], alpha, full, shift=sg["s_total"], unitary=True)
        ramp_phase = 2 * np.pi * (abs(alpha[0] * sg["s_total"][0]) * sg["base"].shape[0]
                                  + abs(alpha[1] * sg["s_total"][1]) * sg["base"].shape[1])
        tol = rdft.tol_dft(sg["base"], alpha, max_phase + ramp_phase + sg.get("opd_phase", 0.0), True) * (1 + extra_tol)
        refs.append((F, tol))
    total = np.zeros(full, dtype=rdft.CLD)
    tol_total = 0.0
    ptr = 0
    for f in out.data:
        rect = field_rect(f, full)
        matched = False
        extent_ok = False
        while ptr < len(segs):
            cands = candidate_windows(full, win, segs[ptr]["s_meta"])
            if rect in cands:
                extent_ok = True
                F, tol = refs[ptr]
                sub = F[rect[0]:rect[1], rect[2]:rect[3]]
                err = cm.max_abs(f.data.astype(rdft.CLD) - sub)
                if err <= tol:
                    total[rect[0]:rect[1], rect[2]:rect[3]] += sub
                    tol_total += tol
                    matched = True
                    ptr += 1
                    break
                # extent fits this segment but the values do not: if the segment may legitimately be
                # uncovered try the next one, otherwise report
                if None in cands:
                    ptr += 1
                    continue
                raise Violation(oracle + ".value",
                                f"segment {ptr}: field on window rows {rect[0]}:{rect[1]} cols {rect[2]}:{rect[3]} differs "
                                f"from the tilted Fraunhofer sum by {err:.3e} > {tol:.3e} (shift {segs[ptr]['s_total']})")
            if None in cands:
                ptr += 1       # this segment's window may lie wholly outside the output
                continue
            break
        if not matched:
            if extent_ok:
                raise Violation(oracle + ".value", f"output field on {rect} matches no segment's tilted Fraunhofer sum")
            exp = [candidate_windows(full, win, s["s_meta"]) for s in segs[ptr:ptr + 1]]
            raise Violation(oracle + ".window",
                            f"output field covers rows {rect[0]}:{rect[1]} cols {rect[2]}:{rect[3]}, which is not the "
                            f"{win} window within one sample of the displacement "
                            f"{segs[ptr]['s_meta'] if ptr < len(segs) else None} (candidates {exp})")
    for j in range(ptr, len(segs)):
        if None not in candidate_windows(full, win, segs[j]["s_meta"]):
            raise Violation(oracle + ".missing", f"segment {j} (displacement {segs[j]['s_meta']}) lies inside the "
                                                 f"output but produced no field")
    if len(out.data) >= 2 and any(f.data.size == 1 for f in out.data):
        # several fields of which one is a single sample cannot be merged (one-element field = constant; known, C03)
        raise Skip("single_sample_output_field(known)")
    with lentil_call(oracle, "Wavefront.field / .intensity"):
        got = out.field
        inten = out.intensity
    ri = (np.abs(total) ** 2).astype(float)
    if inten.shape != ri.shape or cm.max_abs(inten - ri) > 4 * tol_total * (cm.max_abs(total) + tol_total) + 1e-300:
        raise Violation(oracle + ".intensity", f"intensity differs from |coherent sum of the segment fields|^2 by "
                                               f"{cm.max_abs(inten - ri):.3e} (peak {cm.max_abs(ri):.3e}): overlapping "
                                               f"fields are not added as complex amplitudes")
    if got.shape != tuple(full) or cm.max_abs(got.astype(rdft.CLD) - total) > tol_total + 1e-300:
        raise Violation(oracle + ".field", f"Wavefront.field differs from the sum of the tilted segment fields by "
                                           f"{cm.max_abs(got.astype(rdft.CLD) - total):.3e}")


# ---------------------------------------------------------------------------------
# 1. the four representations, propagated

@st.composite
def angle_for(draw, z, du, os_, half_width):
    """angle giving a displacement between 1e-3 of a sample and 3x the output half-width"""
    kind = draw(st.sampled_from(["subpixel", "few", "large", "zero"]))
    if kind == "zero":
        return 0.0
    mag = {"subpixel": draw(gen.finite(1e-3, 0.99)), "few": draw(gen.finite(0.5, 6.0)),
           "large": draw(gen.finite(0.5, 3.0)) * max(half_width, 1)}[kind]
    s = mag * draw(st.sampled_from([-1.0, 1.0]))
    return s * du / (z * os_)


@st.composite
def tilt_case(draw, tier="quick"):
    hi = 12 if tier == "quick" else draw(st.sampled_from([12, 20, 32]))
    shape = draw(gen.shape2(3, hi))
    samp = draw(gen.sampling(shape))
    wl, z, os_ = samp["wavelength"], samp["z"], samp["oversample"]
    du = samp["du"]
    if draw(st.booleans()):                 # force clearly non-square output pixels half of the time
        du = (du[0], du[0] * draw(st.sampled_from([0.4, 0.5, 2.0, 2.5])))
    amp, opd, mask = draw(gen.aperture(shape, wl, max_waves=1.0, min_samples=4))
    segmented = draw(st.booleans())
    if segmented:
        labels, _ = draw(gen.partition(mask.astype(bool), kmax=4, kmin=2))
    else:
        labels = (mask != 0).astype(int)
    k = int(labels.max())
    out_shape = list(draw(gen.shape2(2, 10)))
    prop_shape = None
    if draw(st.booleans()):
        prop_shape = [draw(st.integers(1, out_shape[0])), draw(st.integers(1, out_shape[1]))]
    half = (out_shape[0] * os_ / 2, out_shape[1] * os_ / 2)
    ang = lambda axis: draw(angle_for(z, du[axis], os_, half[axis]))  # noqa: E731
    seg_angles = [[ang(0), ang(1)] for _ in range(k)]
    if segmented and k >= 2 and draw(st.booleans()):
        # one segment that is exactly flat and untilted among tilted ones
        flat = draw(st.integers(1, k))
        opd = np.where(labels == flat, 0.0, opd)
        seg_angles[flat - 1] = [0.0, 0.0]
    ramp_repr = draw(st.sampled_from(["opd", "fit", "fit_inplace", "none"]))
    extras = []
    for _ in range(draw(st.integers(0, 3))):
        kind = draw(st.sampled_from(["tilt_before", "tilt_after", "dispersive_after", "dispersive_before"]))
        if kind.startswith("tilt"):
            extras.append({"kind": kind, "x": ang(0), "y": ang(1)})
        else:
            # first-order trace and dispersion: displacement along a line through the origin
            t0 = draw(gen.finite(-2.0, 2.0))
            t1 = draw(st.sampled_from([0.0, 0.0])) + 0.0
            sx = draw(gen.finite(-4.0, 4.0)) * du[1] / os_    # desired x displacement in metres
            d0 = draw(gen.signed_log(1e-5, 1e-2))
            dist = sx * np.sqrt(1 + t0 ** 2)
            d1 = wl - d0 * dist
            extras.append({"kind": kind, "trace": [t0, t1], "dispersion": [d0, d1]})
    # one case in five (when nothing is fitted): the aperture itself rides on a Tilt plane placed after a clear
    # pupil - by construction, so that this class does not depend on the drawn extras
    carrier = ramp_repr in ("opd", "none") and draw(st.integers(0, 4)) <= 1
    if carrier and not any(e["kind"] == "tilt_after" for e in extras):
        extras.insert(draw(st.integers(0, len(extras))), {"kind": "tilt_after", "x": ang(0), "y": ang(1)})
    wf_tilt = [ang(0), ang(1)] if draw(st.sampled_from([False, False, True])) else None
    # a steering mirror: a Tilt plane with its own surface (a ramp) that was fit_tilt()-ed, after the aperture
    steer = {"x": ang(0), "y": ang(1), "a": ang(0), "b": ang(1)} if draw(st.integers(0, 3)) == 0 else None
    if steer is not None and draw(st.booleans()):
        # by construction: the fields that reach the steering mirror carry no tilt at all (nothing fitted, no wavefront
        # tilt, no tilt element before the aperture, aperture on the pupil)
        ramp_repr = draw(st.sampled_from(["opd", "none"]))
        wf_tilt, carrier = None, False
        segmented = segmented or k >= 2          # one field per segment reaches the mirror
        # ... and the image stays inside the output window (displacements of a pixel or two, no further elements):
        # a field that has left the window is compared with nothing
        extras = []
        px = lambda axis: draw(gen.finite(-1.5, 1.5)) * du[axis] / (z * os_)  # noqa: E731
        steer = {"x": px(0), "y": px(1), "a": px(0), "b": px(1)}
    return {"steer": steer, "shape": list(shape), "amp": amp, "opd": opd, "labels": labels, "segmented": segmented,
            "dx": draw(cm.scalar_or_pair(samp["dx"])), "du": list(du), "z": z, "wavelength": wl, "oversample": os_,
            "out_shape": out_shape, "prop_shape": prop_shape, "seg_angles": seg_angles, "ramp_repr": ramp_repr,
            "extras": extras, "wf_tilt": wf_tilt, "carrier": carrier}


def dispersive_xy(trace, dispersion, wl):
    """first-order closed form (independent of lentil): distance from the dispersion line, then the
    point on the trace line at that arc length"""
    dist = (wl - dispersion[1]) / dispersion[0]
    x = dist / np.sqrt(1 + trace[0] ** 2)
    return x, trace[0] * x + trace[1]


def cube(labels):
    return np.stack([(labels == v).astype(int) for v in range(1, int(labels.max()) + 1)])


@hyp("C04", "propagate", lambda tier: tilt_case(tier),
     "propagated field for OPD-ramp / Tilt plane / Wavefront(tilt) / fit_tilt / first-order dispersive "
     "representations vs the exactly tilted Fraunhofer sum, per segment", examples=(500, 2000),
     budget_s=(150, 900))
def propagate(case, ctx):
    shape = tuple(case["shape"])
    labels = case["labels"]
    k = int(labels.max())
    wl, z, os_ = case["wavelength"], case["z"], case["oversample"]
    dx, du = cm.ps_pair(case["dx"]), tuple(case["du"])
    segm = [(labels == v) for v in range(1, k + 1)]
    for m in segm:
        b = gen.bbox(m)
        if (b[1] - b[0] + 1) * (b[3] - b[2] + 1) == 1:
            raise Skip("single_sample_segment(known)")
    full = (case["out_shape"][0] * os_, case["out_shape"][1] * os_)
    prop = case["out_shape"] if case["prop_shape"] is None else case["prop_shape"]
    win = (prop[0] * os_, prop[1] * os_)
    if win[0] * win[1] == 1:
        raise Skip("single_sample_output_window(known)")
    mask_arg = cube(labels) if case["segmented"] else (labels != 0).astype(int)
    seg_angles = case["seg_angles"] if case["ramp_repr"] != "none" else [[0.0, 0.0]] * k
    opd_total = case["opd"].copy()
    for m, (tx, ty) in zip(segm, seg_angles):
        opd_total = opd_total + ramp(shape, dx, tx, ty) * m
    # --- metadata displacement per segment -------------------------------------------------------
    meta = np.zeros((k, 2))
    if case["ramp_repr"] in ("fit", "fit_inplace"):
        for i, m in enumerate(segm):
            p, tx, ty, cond = lsq_tilt(opd_total, m, dx)
            if not cond < 1e6:
                raise Skip("ill_conditioned_tilt_fit")
            meta[i] = angles_to_shift(tx, ty, z, du, os_)
    glob = np.zeros(2)
    steer = case.get("steer")
    if steer is not None:
        # its angle is a global tilt; its ramp is optics like any OPD (in the model phasor), and fitting it moves the
        # evaluated window of every field by the ramp's tilt
        glob += angles_to_shift(steer["x"], steer["y"], z, du, os_)
        meta = meta + np.array(angles_to_shift(steer["a"], steer["b"], z, du, os_))
        opd_total = opd_total + ramp(shape, dx, steer["a"], steer["b"]) * (labels != 0)
    if case["wf_tilt"] is not None:
        glob += angles_to_shift(case["wf_tilt"][0], case["wf_tilt"][1], z, du, os_)
    for e in case["extras"]:
        if e["kind"].startswith("tilt"):
            glob += angles_to_shift(e["x"], e["y"], z, du, os_)
        else:
            x, y = dispersive_xy(e["trace"], e["dispersion"], wl)
            glob += (-y / du[0] * os_, x / du[1] * os_)
    meta = meta + glob
    # the model keeps the whole effective OPD (ramps included) in the phasor; only the global tilt
    # elements enter the reference as an exact shift.  Fitting moves the window, not the optics.
    opd_model = opd_total
    s_total = np.tile(glob, (k, 1))
    segs = []
    for i, m in enumerate(segm):
        base = pm.phasor(shape, case["amp"] * m, opd_model, m.astype(int), wl)
        segs.append({"base": base, "s_total": tuple(s_total[i]), "s_meta": tuple(meta[i]),
                     "opd_phase": 2 * np.pi * cm.max_abs(opd_model * m) / wl})
    frac = np.abs(meta - np.fix(meta))
    ctx.tag("nonsquare_du" if du[0] != du[1] else "square_du", "segmented" if case["segmented"] else "monolithic",
            f"k:{k}", "repr:" + case["ramp_repr"], f"n_tilt_elements:{len(case['extras'])}",
            "fit_with_untilted_segment_before_tilted" if case["ramp_repr"].startswith("fit") and k >= 2 and any(
                not np.any(meta[i] - glob) and np.any(meta[i + 1:] - glob) for i in range(k - 1)) else None,
            "wavefront_tilt" if case["wf_tilt"] is not None else None,
            "dispersive" if any(e["kind"].startswith("disp") for e in case["extras"]) else None,
            "shift>window" if np.any(np.abs(meta) > np.array(win) / 2) else None,
            "per_axis_dx" if dx[0] != dx[1] else None, f"os:{os_}")
    ctx.nontrivial_if(bool(np.any((frac >= 0.05) & (frac <= 0.95))))
    # --- lentil ---------------------------------------------------------------------------------
    opd_in = opd_total.copy() if steer is None else opd_total - ramp(shape, dx, steer["a"], steer["b"]) * (labels != 0)
    with lentil_call("C04.propagate.build", "planes"):
        # (the OPD / amplitude maps as plain arrays, masked arrays with flagged samples or ndarray subclasses)
        opd_arg, acls = gen.array_class(opd_in, int(np.count_nonzero(labels)) + 3 * shape[0] + shape[1])
        ctx.tag("opd_class:" + acls)
        pupil = lentil.Pupil(amplitude=gen.array_class(case["amp"].copy(), shape[0] + 2 * shape[1] + k)[0], opd=opd_arg, mask=mask_arg.copy(),
                             pixelscale=cm.as_ps(case["dx"]), focal_length=z)
        if case["ramp_repr"] == "fit":
            fitted = pupil.fit_tilt(inplace=False)
            if not np.array_equal(pupil.opd, opd_in) or pupil.tilt:
                raise Violation("C04.fit.copy_mutates", "fit_tilt(inplace=False) changed the original plane")
            pupil = fitted
        elif case["ramp_repr"] == "fit_inplace":
            ret = pupil.fit_tilt(inplace=True)
            if ret is not pupil:
                raise Violation("C04.fit.inplace_identity", "fit_tilt(inplace=True) returned a different object")
        w = lentil.Wavefront(wl, tilt=list(case["wf_tilt"])) if case["wf_tilt"] is not None else lentil.Wavefront(wl)
        # the tilt classes take the Plane parameters too: half of the time (when nothing is fitted) the aperture
        # itself - amplitude, OPD, (segmented) mask - rides on the first Tilt plane after a clear pupil
        carrier = None
        if case["ramp_repr"] in ("opd", "none") and case.get("carrier", (shape[0] + shape[1] + k) % 2 == 0):
            carrier = next((i for i, e in enumerate(case["extras"]) if e["kind"] == "tilt_after"), None)
        if carrier is not None:
            ctx.tag("aperture_on_tilt_plane", "aperture_on_tilt_plane:segmented" if case["segmented"] else None)
            pupil = lentil.Pupil(pixelscale=cm.as_ps(case["dx"]), focal_length=z)
        elems = []
        for i, e in enumerate(case["extras"]):
            if i == carrier:
                elems.append((e["kind"], lentil.Tilt(x=e["x"], y=e["y"], amplitude=case["amp"].copy(), opd=opd_in.copy(),
                                                     mask=mask_arg.copy(), pixelscale=cm.as_ps(case["dx"]))))
            elif e["kind"].startswith("tilt"):
                elems.append((e["kind"], lentil.Tilt(x=e["x"], y=e["y"])))
            else:
                elems.append((e["kind"], lentil.DispersiveTilt(trace=e["trace"], dispersion=e["dispersion"])))
        for kind, el in elems:
            if kind.endswith("before"):
                w = w * el
        w_mid = w * pupil
        w = w_mid
        if steer is not None:
            ctx.tag("steering_mirror", "steering_mirror:multi_field" if len(w.data) >= 2 else None,
                    "steering_mirror:untilted_fields" if len(w.data) >= 2 and all(not f.tilt for f in w.data) else None)
            mirror = lentil.Tilt(x=steer["x"], y=steer["y"], amplitude=np.ones(shape), opd=ramp(shape, dx, steer["a"], steer["b"]),
                                 pixelscale=cm.as_ps(case["dx"])).fit_tilt(inplace=False)
            w = w * mirror
        for kind, el in elems:
            if kind.endswith("after"):
                w = w * el
        # the intermediate wavefront is used a second time for the same chain (field-point scans do this)
        w_again = w_mid if steer is None else w_mid * mirror
        for kind, el in elems:
            if kind.endswith("after"):
                w_again = w_again * el
    kw = {} if case["prop_shape"] is None else {"prop_shape": tuple(case["prop_shape"])}
    with lentil_call("C04.propagate", "propagate_dft"):
        out_again = lentil.propagate_dft(w_again, pixelscale=du, shape=tuple(case["out_shape"]), oversample=os_, **kw)
        out = lentil.propagate_dft(w, pixelscale=du, shape=tuple(case["out_shape"]), oversample=os_, **kw)
    fa, fb = out.field, out_again.field
    if fa.shape != fb.shape or cm.max_abs(fa - fb) > 1e-12 * max(cm.max_abs(fa), 1e-300):
        raise Violation("C04.propagate.reuse", "building the same chain a second time from the same intermediate wavefront "
                                               "gives a different propagated field")
    alpha = pm.alpha(dx, du, wl, z, os_)
    check_tilted_output("C04.propagate", out, segs, full, win, alpha, extra_tol=2.0)


# ---------------------------------------------------------------------------------
# 2. fit_tilt algebra

@st.composite
def fit_case(draw, tier="quick"):
    hi = 12 if tier == "quick" else 28
    shape = draw(gen.shape2(3, hi))
    wl = 1e-6
    amp, opd, mask = draw(gen.aperture(shape, wl, max_waves=3.0, min_samples=4))
    segmented = draw(st.booleans())
    labels = draw(gen.partition(mask.astype(bool), kmax=4))[0] if segmented else (mask != 0).astype(int)
    k = int(labels.max())
    dxr = draw(gen.pos_log(1e-4, 1e-1))
    dx = (dxr, dxr * draw(st.sampled_from([1.0, 1.0, 0.5, 3.0])))
    angles = [[draw(gen.finite(-1e-4, 1e-4)), draw(gen.finite(-1e-4, 1e-4))] for _ in range(k)]
    if segmented and k >= 2 and draw(st.booleans()):
        # one exactly flat, untilted segment among tilted ones (its fitted tip/tilt is exactly zero)
        flat = draw(st.integers(1, k))
        opd = np.where(labels == flat, 0.0, opd)
        angles[flat - 1] = [0.0, 0.0]
    return {"shape": list(shape), "amp": amp, "opd": opd, "labels": labels, "segmented": segmented, "dx": list(dx),
            "angles": angles,
            "inplace": draw(st.booleans()), "outside_seed": draw(st.integers(0, 2**31 - 1))}


@hyp("C04", "fit_tilt", lambda tier: fit_case(tier),
     "fit_tilt removes exactly the per-segment least-squares tip/tilt (not piston), records the angles, "
     "leaves OPD+recorded tilt unchanged, is idempotent, and (copy mode) leaves the plane untouched",
     examples=(500, 2000))
def fit_tilt(case, ctx):
    shape = tuple(case["shape"])
    labels = case["labels"]
    k = int(labels.max())
    dx = tuple(case["dx"])
    segm = [(labels == v) for v in range(1, k + 1)]
    opd = case["opd"].copy()
    for m, (tx, ty) in zip(segm, case["angles"]):
        opd = opd + ramp(shape, dx, tx, ty) * m
    mask_arg = cube(labels) if case["segmented"] else (labels != 0).astype(int)
    ctx.tag("segmented" if case["segmented"] else "monolithic", f"k:{k}", "inplace" if case["inplace"] else "copy",
            "per_axis_dx" if dx[0] != dx[1] else None,
            "flat_segment_among_tilted" if k >= 2 and any(not np.any(opd[m]) for m in segm) and any(np.any(opd[m]) for m in segm) else None)
    ctx.nontrivial_if(any(abs(a) > 0 for ang in case["angles"] for a in ang))
    opd_in = opd.copy()
    with lentil_call("C04.fit", "fit_tilt"):
        opd_arg, acls = gen.array_class(opd_in, int(np.count_nonzero(labels)) + 3 * shape[0] + shape[1])
        ctx.tag("opd_class:" + acls)
        plane = lentil.Pupil(amplitude=case["amp"].copy(), opd=opd_arg, mask=mask_arg.copy(), pixelscale=dx,
                             focal_length=1.0)
        fitted = plane.fit_tilt(inplace=case["inplace"])
    if case["inplace"]:
        if fitted is not plane:
            raise Violation("C04.fit.inplace_identity", "fit_tilt(inplace=True) returned a different object")
    else:
        if fitted is plane:
            raise Violation("C04.fit.copy_identity", "fit_tilt(inplace=False) returned the original object")
        if not np.array_equal(plane.opd, opd) or len(plane.tilt) != 0 or not np.array_equal(opd_in, opd):
            raise Violation("C04.fit.copy_mutates", "fit_tilt(inplace=False) changed the original plane")
    if len(fitted.tilt) != k:
        raise Violation("C04.fit.count", f"{len(fitted.tilt)} tilt records for {k} segment(s)")
    scale = max(cm.max_abs(opd), 1e-300)
    well = True
    for i, m in enumerate(segm):
        p, tx, ty, cond = lsq_tilt(opd, m, dx)
        with lentil_call("C04.fit", "Tilt.shift"):
            rx, ry = tilt_angles(fitted.tilt[i])
        rec = ramp(shape, dx, rx, ry)
        resid = (np.asarray(fitted.opd) + rec - opd)[m]
        if cm.max_abs(resid) > 1e-9 * scale:
            raise Violation("C04.fit.effective_opd", f"segment {i}: OPD + recorded tilt differs from the original OPD "
                                                     f"inside the mask by {cm.max_abs(resid):.3e} (scale {scale:.3e})")
        if cond < 1e6:
            lever = max(np.ptp(np.argwhere(m)[:, 0]) * dx[0], np.ptp(np.argwhere(m)[:, 1]) * dx[1], 1e-300)
            atol = 1e-9 * cond * scale / lever
            if abs(rx - tx) > atol or abs(ry - ty) > atol:
                raise Violation("C04.fit.angles", f"segment {i}: recorded angles ({rx:.6e}, {ry:.6e}) differ from the "
                                                  f"least-squares tip/tilt ({tx:.6e}, {ty:.6e})")
            # piston stays in the OPD: mean residual of the new OPD equals the fitted piston
            p2, tx2, ty2, _ = lsq_tilt(np.asarray(fitted.opd), m, dx)
            if abs(p2 - p) > 1e-9 * cond * scale:
                raise Violation("C04.fit.piston", f"segment {i}: piston changed from {p:.6e} to {p2:.6e}")
            if abs(tx2) > atol or abs(ty2) > atol:
                raise Violation("C04.fit.residual_tilt", f"segment {i}: residual OPD still holds tilt ({tx2:.3e}, {ty2:.3e})")
        else:
            well = False
    ctx.tag("well_conditioned" if well else "ill_conditioned_segment")
    if well:
        with lentil_call("C04.fit", "second fit_tilt"):
            again = fitted.fit_tilt(inplace=False)
        for i, m in enumerate(segm):
            new = again.tilt[len(fitted.tilt) + i] if len(again.tilt) >= 2 * k else None
            if new is None:
                raise Violation("C04.fit.refit_count", f"re-fit recorded {len(again.tilt)} tilts, expected {2 * k}")
            rx, ry = tilt_angles(new)
            p, tx, ty, cond = lsq_tilt(opd, m, dx)
            lever = max(np.ptp(np.argwhere(m)[:, 0]) * dx[0], np.ptp(np.argwhere(m)[:, 1]) * dx[1], 1e-300)
            if max(abs(rx), abs(ry)) > 1e-9 * cond * scale / lever:
                raise Violation("C04.fit.idempotent", f"segment {i}: re-fitting found more tilt ({rx:.3e}, {ry:.3e})")


# ---------------------------------------------------------------------------------
# 3. displacement algebra (Field.shift over permutations) and dispersive geometry

@st.composite
def shift_case(draw, tier="quick"):
    n = draw(st.integers(1, 4))
    elems = []
    for _ in range(n):
        if draw(st.booleans()):
            elems.append({"kind": "tilt", "x": draw(gen.finite(-1e-3, 1e-3)), "y": draw(gen.finite(-1e-3, 1e-3))})
        else:
            elems.append({"kind": "disp", "trace": [draw(gen.finite(-3, 3)), draw(gen.finite(-1e-3, 1e-3))],
                          "dispersion": [draw(gen.signed_log(1e-5, 1e-2)), draw(gen.finite(2e-7, 2e-6))]})
    return {"elems": elems, "z": draw(gen.finite(0.5, 30.0)), "wavelength": draw(gen.finite(3e-7, 2e-6)),
            "du": [draw(gen.pos_log(1e-6, 1e-4)), draw(gen.pos_log(1e-6, 1e-4))], "oversample": draw(st.integers(1, 4)),
            "perm_seed": draw(st.integers(0, 10**6))}


@hyp("C04", "shift_algebra", lambda tier: shift_case(tier),
     "Field.shift of 1-4 angular / first-order dispersive tilt elements: additive, order independent, correct "
     "axis, sign and per-axis pixel size", examples=(800, 3000))
def shift_algebra(case, ctx):
    z, wl, du, os_ = case["z"], case["wavelength"], tuple(case["du"]), case["oversample"]
    x = y = 0.0
    objs = []
    with lentil_call("C04.shift", "build tilt elements"):
        for e in case["elems"]:
            if e["kind"] == "tilt":
                objs.append(lentil.Tilt(x=e["x"], y=e["y"]))
                x += -z * e["y"]
                y += -z * e["x"]
            else:
                objs.append(lentil.DispersiveTilt(trace=e["trace"], dispersion=e["dispersion"]))
                dx_, dy_ = dispersive_xy(e["trace"], e["dispersion"], wl)
                x += dx_
                y += dy_
    want_ij = (-y / du[0] * os_, x / du[1] * os_)
    want_xy = (x / du[1] * os_, y / du[0] * os_)
    n = len(objs)
    ctx.tag(f"n:{n}", "nonsquare_du" if du[0] != du[1] else None,
            "dispersive" if any(e["kind"] == "disp" for e in case["elems"]) else None,
            "mixed" if len({e["kind"] for e in case["elems"]}) == 2 else None)
    ctx.nontrivial_if(n >= 2)
    perms = list(itertools.permutations(range(n)))
    rng = np.random.default_rng(case["perm_seed"])
    if len(perms) > 6:
        perms = [perms[i] for i in rng.choice(len(perms), 6, replace=False)]
    scale = abs(want_ij[0]) + abs(want_ij[1]) + 1e-12
    for p in perms:
        f = Field(data=np.ones((2, 2)), offset=[0, 0], tilt=[objs[i] for i in p])
        with lentil_call("C04.shift", "Field.shift"):
            ij = f.shift(z=z, wavelength=wl, pixelscale=du, oversample=os_, indexing="ij")
            xy = f.shift(z=z, wavelength=wl, pixelscale=du, oversample=os_, indexing="xy")
        ij = tuple(float(np.ravel(v)[0]) for v in ij)
        xy = tuple(float(np.ravel(v)[0]) for v in xy)
        if abs(ij[0] - want_ij[0]) > 1e-9 * scale or abs(ij[1] - want_ij[1]) > 1e-9 * scale:
            raise Violation("C04.shift.ij", f"Field.shift(ij) = {ij}, expected (row, col) = {want_ij} for order {p} "
                                            f"(du = {du}, os = {os_})")
        if abs(xy[0] - want_xy[0]) > 1e-9 * scale or abs(xy[1] - want_xy[1]) > 1e-9 * scale:
            raise Violation("C04.shift.xy", f"Field.shift(xy) = {xy}, expected {want_xy}")


@st.composite
def disp_case(draw, tier="quick"):
    to = draw(st.integers(1, 3))
    do = draw(st.integers(1, 3))
    xt = draw(gen.finite(-5e-3, 5e-3))          # true x position on the focal plane (metres)
    # trace polynomial, highest power first; curvature kept moderate so arc length is monotonic in x
    trace = [draw(gen.finite(-20.0, 20.0)) for _ in range(to - 1)] + [draw(gen.finite(-2, 2)), draw(gen.finite(-1e-3, 1e-3))]
    # coefficient tables of a fixed length: a polynomial of lower degree written with exactly-zero leading
    # coefficients ([0, a, b] is the line a x + b), for the trace and / or the dispersion
    return {"trace": trace, "xt": xt, "do": do,
            "dcoef": [draw(gen.finite(-1.0, 1.0)) for _ in range(do - 1)], "d1": draw(gen.signed_log(1e-5, 1e-3)),
            "wavelength": draw(gen.finite(3e-7, 2e-6)),
            "pad_trace": draw(st.sampled_from([0, 0, 0, 1, 2])), "pad_disp": draw(st.sampled_from([0, 0, 0, 1, 2]))}


@hyp("C04", "dispersive", lambda tier: disp_case(tier),
     "DispersiveTilt.shift for trace/dispersion orders 1-3: the displacement lies on the trace at the arc length "
     "that the dispersion polynomial maps to the wavelength", examples=(300, 1200), budget_s=(120, 600))
def dispersive(case, ctx):
    trace = np.array(case["trace"], dtype=float)
    xt, wl = case["xt"], case["wavelength"]
    dtr = np.polyder(trace)
    arc = lambda a: scipy.integrate.quad(lambda t: np.sqrt(1 + np.polyval(dtr, t) ** 2), 0, a,  # noqa: E731
                                         epsabs=0, epsrel=1e-12)[0]
    dist = arc(xt)
    # dispersion polynomial with a root exactly at dist: lambda = d_hi*d^k ... + d1*d + d0
    hi = [c * case["d1"] / max(abs(dist), 1e-4) ** (case["do"] - 1 - i) * 0.1 for i, c in enumerate(case["dcoef"])]
    disp = np.array(hi + [case["d1"], 0.0])
    disp[-1] = wl - np.polyval(disp, dist)
    to, do = len(trace) - 1, len(disp) - 1
    trace = np.concatenate([np.zeros(case.get("pad_trace", 0)), trace])
    disp = np.concatenate([np.zeros(case.get("pad_disp", 0)), disp])
    dtr = np.polyder(trace)
    ctx.tag(f"trace_order:{to}", f"dispersion_order:{do}", f"zero_padded_trace:{case.get('pad_trace', 0)}" if case.get("pad_trace") else None,
            f"zero_padded_dispersion:{case.get('pad_disp', 0)}" if case.get("pad_disp") else None)
    ctx.nontrivial_if(abs(dist) > 0)
    with lentil_call("C04.dispersive", "DispersiveTilt.shift"):
        el = lentil.DispersiveTilt(trace=trace.tolist(), dispersion=disp.tolist())
        x, y = el.shift(wavelength=wl, xs=0.0, ys=0.0)
        x2, y2 = el.shift(wavelength=wl, xs=1.5e-3, ys=-2.5e-3)
    x, y = float(np.ravel(x)[0]), float(np.ravel(y)[0])
    x2, y2 = float(np.ravel(x2)[0]), float(np.ravel(y2)[0])
    sc = abs(xt) + 1e-6
    if abs(y - np.polyval(trace, x)) > 1e-9 * (abs(y) + 1e-6):
        raise Violation("C04.dispersive.on_trace", f"displacement ({x:.6e}, {y:.6e}) is not on the trace polynomial")
    lam = np.polyval(disp, arc(x))
    if abs(lam - wl) > 1e-6 * wl + 1e-6 * abs(case["d1"]) * sc:
        raise Violation("C04.dispersive.arclength", f"dispersion(arclength(0->x)) = {lam:.9e} != wavelength {wl:.9e} "
                                                    f"(orders {to}/{do}, x = {x:.6e}, expected about {xt:.6e})")
    if abs((x2 - x) - 1.5e-3) > 1e-9 or abs((y2 - y) + 2.5e-3) > 1e-9:
        raise Violation("C04.dispersive.additive", "incoming displacement is not added to the element's own")


# ---------------------------------------------------------------------------------
# 4. history: OPD updates, repeated fits and Tilt planes on one plane object

@st.composite
def history_case(draw, tier="quick"):
    hi = 10 if tier == "quick" else 20
    shape = draw(gen.shape2(3, hi))
    samp = draw(gen.sampling(shape, per_axis=True))
    wl, z, os_ = samp["wavelength"], samp["z"], samp["oversample"]
    du = samp["du"]
    amp, opd, mask = draw(gen.aperture(shape, wl, max_waves=0.5, min_samples=4))
    segmented = draw(st.booleans())
    labels = draw(gen.partition(mask.astype(bool), kmax=3))[0] if segmented else (mask != 0).astype(int)
    out_shape = list(draw(gen.shape2(3, 8)))
    half = max(out_shape) * os_ / 2
    steps = []
    for _ in range(draw(st.integers(2, 7))):
        kind = draw(st.sampled_from(["ramp", "ramp", "aberration", "fit_inplace", "fit_inplace", "fit_copy_replace",
                                     "tilt_plane"]))
        if kind == "ramp":
            steps.append({"op": kind, "x": draw(angle_for(z, du[0], os_, half)), "y": draw(angle_for(z, du[1], os_, half))})
        elif kind == "aberration":
            steps.append({"op": kind, "seed": draw(st.integers(0, 2**31 - 1)), "waves": draw(gen.finite(0.01, 0.3))})
        elif kind == "tilt_plane":
            steps.append({"op": kind, "x": draw(angle_for(z, du[0], os_, half)), "y": draw(angle_for(z, du[1], os_, half))})
        else:
            steps.append({"op": kind})
    return {"shape": list(shape), "amp": amp, "opd": opd, "labels": labels, "segmented": segmented,
            "dx": list(samp["dx"]), "du": list(du), "z": z, "wavelength": wl, "oversample": os_,
            "out_shape": out_shape, "steps": steps}


@hyp("C04", "history", lambda tier: history_case(tier),
     "programs of OPD updates (ramps, aberrations), fit_tilt in place / copy-and-replace and Tilt planes on one "
     "plane; the propagated field must equal that of a model plane holding the effective OPD",
     examples=(300, 1200), budget_s=(150, 900))
def history(case, ctx):
    shape = tuple(case["shape"])
    labels = case["labels"]
    k = int(labels.max())
    wl, z, os_ = case["wavelength"], case["z"], case["oversample"]
    dx, du = tuple(case["dx"]), tuple(case["du"])
    segm = [(labels == v) for v in range(1, k + 1)]
    for m in segm:
        b = gen.bbox(m)
        if (b[1] - b[0] + 1) * (b[3] - b[2] + 1) == 1:
            raise Skip("single_sample_segment(known)")
        if lsq_tilt(case["opd"], m, dx)[3] >= 1e6:
            raise Skip("ill_conditioned_tilt_fit")
    union = labels != 0
    mask_arg = cube(labels) if case["segmented"] else union.astype(int)
    full = (case["out_shape"][0] * os_, case["out_shape"][1] * os_)
    y_, x_ = np.mgrid[0:shape[0], 0:shape[1]]
    y_ = (y_ - shape[0] / 2) / shape[0]
    x_ = (x_ - shape[1] / 2) / shape[1]
    eff = case["opd"].copy()                    # model: effective OPD (everything, tilt included)
    meta = np.zeros((k, 2))                     # model: displacement carried as metadata per segment
    glob_planes = []
    n_fit = 0
    fitted_since_update = True
    refit_after_update = False
    with lentil_call("C04.history.build", "Pupil"):
        acl_sel = int(np.count_nonzero(union)) + 3 * shape[0] + shape[1]
        opd_arg, acls = gen.array_class(case["opd"].copy(), acl_sel)
        ctx.tag("opd_class:" + acls)
        plane = lentil.Pupil(amplitude=case["amp"].copy(), opd=opd_arg, mask=mask_arg.copy(),
                             pixelscale=dx, focal_length=z)
    cur_opd_model = case["opd"].copy()          # what plane.opd should hold now (inside the mask)
    kept = []         # wavefronts formed along the way: later in-place work on the plane must not reach them
    for si, st_ in enumerate(case["steps"]):
        op = st_["op"]
        if len(kept) < 2 and (n_fit >= 1 or si == 0):
            with lentil_call("C04.history.keep", "multiply + propagate_dft (kept wavefront)"):
                wk = lentil.Wavefront(wl) * plane
                fk = lentil.propagate_dft(wk, pixelscale=du, shape=tuple(case["out_shape"]), oversample=os_).field
            kept.append((wk, fk, si))
        with lentil_call("C04.history." + op, op):
            if op == "ramp":
                r = ramp(shape, dx, st_["x"], st_["y"]) * union
                plane.opd = gen.array_class(np.asarray(plane.opd) + r, acl_sel + si)[0]
                eff = eff + r
                fitted_since_update = False
            elif op == "aberration":
                c = np.random.default_rng(st_["seed"]).normal(size=5)
                ab = (c[0] * x_ * y_ + c[1] * x_ ** 2 + c[2] * y_ ** 2 + c[3] * x_ + c[4] * y_)
                ab = ab / max(cm.max_abs(ab), 1e-300) * st_["waves"] * wl * union
                plane.opd = gen.array_class(np.asarray(plane.opd) + ab, acl_sel + si)[0]
                eff = eff + ab
                fitted_since_update = False
            elif op in ("fit_inplace", "fit_copy_replace"):
                before = np.array(plane.opd, dtype=float, copy=True)
                for i, m in enumerate(segm):
                    p, tx, ty, cond = lsq_tilt(before, m, dx)
                    meta[i] += angles_to_shift(tx, ty, z, du, os_)
                if op == "fit_inplace":
                    plane.fit_tilt(inplace=True)
                else:
                    plane = plane.fit_tilt(inplace=False)
                if n_fit >= 1 and not fitted_since_update:
                    refit_after_update = True
                n_fit += 1
                fitted_since_update = True
            else:
                glob_planes.append(lentil.Tilt(x=st_["x"], y=st_["y"]))
                meta += angles_to_shift(st_["x"], st_["y"], z, du, os_)
    ctx.tag("segmented" if case["segmented"] else "monolithic", f"fits:{min(n_fit, 3)}",
            "refit_after_update" if refit_after_update else None, f"steps:{len(case['steps'])}",
            "tilt_planes" if glob_planes else None, "nonsquare_du" if du[0] != du[1] else None)
    ctx.nontrivial_if(n_fit >= 1 and len(case["steps"]) >= 2)
    glob = np.zeros(2)
    for st_ in case["steps"]:
        if st_["op"] == "tilt_plane":
            glob += angles_to_shift(st_["x"], st_["y"], z, du, os_)
    segs = []
    for i, m in enumerate(segm):
        base = pm.phasor(shape, case["amp"] * m, eff, m.astype(int), wl)
        segs.append({"base": base, "s_total": tuple(glob), "s_meta": tuple(meta[i]),
                     "opd_phase": 2 * np.pi * cm.max_abs(eff * m) / wl})
    with lentil_call("C04.history.propagate", "multiply + propagate_dft"):
        w = lentil.Wavefront(wl)
        half_n = len(glob_planes) // 2
        for t in glob_planes[:half_n]:
            w = w * t
        w = w * plane
        for t in glob_planes[half_n:]:
            w = w * t
        out = lentil.propagate_dft(w, pixelscale=du, shape=tuple(case["out_shape"]), oversample=os_)
    check_tilted_output("C04.history", out, segs, full, full, pm.alpha(dx, du, wl, z, os_), extra_tol=4.0)
    for wk, fk, si in kept:
        with lentil_call("C04.history.keep", "propagate_dft of a wavefront formed earlier"):
            again = lentil.propagate_dft(wk, pixelscale=du, shape=tuple(case["out_shape"]), oversample=os_).field
        if again.shape != fk.shape or cm.max_abs(again - fk) > 1e-12 * max(cm.max_abs(fk), 1e-300):
            ops_ = [s_["op"] for s_ in case["steps"]]
            raise Violation("C04.history.kept_wavefront",
                            f"a wavefront formed before step {si} propagates differently after the later in-place work on "
                            f"the plane [{' '.join(ops_[:si])} | {' '.join(ops_[si:])}]")
