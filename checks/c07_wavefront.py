"""C07 - wavefront views agree with each other and planes act as pointwise phasors."""
import numpy as np
from hypothesis import strategies as st

import lentil
from checks import common as cm
from vlib import gen
from vlib.ref import fieldmodel as fm
from vlib.ref import plane_model as pm
from vlib.runner import Skip, Violation, expect_raises, hyp, lentil_call

# the check's own calls are issued with keywords or positionally in the documented order (vlib/callforms.py)
from vlib import callforms as _cf
lentil = _cf.proxy(lentil)

RULE = ("chains of 1-3 planes (Plane / Pupil / Image) whose amplitude, OPD and mask are each scalar or array "
        "(2-D or segmented 3-D masks), wavefronts with one or many (overlapping) fields, accumulation targets "
        "with drawn prior content and weights; non-trivial = the wavefront holds >= 2 fields or a mask with a "
        "hole/concavity inside its bounding box; distinct = distinct canonical descriptors")
ASSUMPTIONS = [
    "a plane whose amplitude and mask are both scalar but whose OPD is an array is only applied to a wavefront "
    "that already has that shape (the plane itself has no shape to give)",
    "planes / segments whose support bounding box is a single sample are skipped (known finding, C03)",
    "values compared at 1e-13 relative",
]


@st.composite
def plane_desc(draw, shape, wl, allow_shapeless):
    """attribute forms: each of amplitude / opd / mask is scalar or array"""
    amp_a, opd_a, mask_a = draw(gen.aperture(shape, wl, max_waves=2.0, min_samples=3))
    amp_form = draw(st.sampled_from(["array", "array", "scalar1", "scalar"]))
    opd_form = draw(st.sampled_from(["array", "array", "scalar0", "scalar"]))
    mask_form = draw(st.sampled_from(["none", "2d", "2d", "3d"]))
    if amp_form != "array" and mask_form == "none" and not allow_shapeless:
        mask_form = "2d"
    d = {"amp_form": amp_form, "opd_form": opd_form, "mask_form": mask_form}
    sc = draw(gen.scales())
    d["amp"] = amp_a * sc if amp_form == "array" else (1.0 if amp_form == "scalar1" else draw(gen.finite(0.1, 3.0)) * sc)
    d["opd"] = opd_a if opd_form == "array" else (0.0 if opd_form == "scalar0" else draw(gen.finite(-2.0, 2.0)) * wl)
    if mask_form == "none":
        d["mask"] = None
    elif mask_form == "2d":
        d["mask"] = mask_a
    else:
        labels, _ = draw(gen.partition(mask_a.astype(bool), kmax=3))
        d["mask"] = np.stack([(labels == v).astype(int) for v in range(1, int(labels.max()) + 1)])
    d["mask_values"] = draw(st.sampled_from([1, 1, 3]))   # non-binary masks are binarised by the plane
    return d


@st.composite
def chain_case(draw, tier="quick"):
    hi = 10 if tier == "quick" else 24
    shape = draw(gen.shape2(2, hi, big=0.02, big_pool=[64, 65, 128, 129, 257]))
    wl = draw(gen.finite(0.4e-6, 2e-6))
    cls = draw(st.sampled_from(["Plane", "Pupil", "Pupil", "Image"]))
    n = draw(st.integers(1, 3))
    planes = []
    shaped = False
    for i in range(n):
        d = draw(plane_desc(shape, wl, allow_shapeless=shaped or draw(st.booleans())))
        shapeless = d["amp_form"] != "array" and d["mask_form"] == "none"
        if shapeless and d["opd_form"] == "array" and not shaped:
            d["opd_form"], d["opd"] = "scalar", 0.25 * wl
        shaped = shaped or not shapeless
        d["ps"] = draw(st.sampled_from(["same", "same", "none"]))
        d["f"] = draw(gen.finite(0.5, 50.0))
        planes.append(d)
    ps = draw(gen.pos_log(1e-4, 1e-1))
    ps = [ps, ps * draw(st.sampled_from([1.0, 1.0, 2.0]))]
    return {"shape": list(shape), "wavelength": wl, "cls": cls, "planes": planes, "ps": ps,
            "wf_ps": draw(st.sampled_from(["none", "none", "same"])),
            "target": draw(st.sampled_from(["same", "same", "larger", "smaller"])),
            "weight": draw(st.sampled_from([1, 1, 0, -1.5, 0.25, 7])), "fill_seed": draw(st.integers(0, 2**31 - 1)),
            "prefill": draw(st.booleans()),
            # optionally a tilt-class plane at the end of the chain; like every plane it may carry a (scalar)
            # amplitude - a grism's throughput - and OPD - a piston
            "tilt_plane": draw(st.sampled_from([None, None, {"cls": "Tilt"}, {"cls": "DispersiveTilt"}, {"cls": "Grism"}])),
            "tilt_amp": draw(st.sampled_from([None, 0.8, 0.5])), "tilt_opd": draw(st.sampled_from([None, 0.1, -0.3]))}


def make_plane(cls, d, ps, wl):
    mask = None
    if d["mask"] is not None:
        mask = (d["mask"] * d["mask_values"]).copy()
    kw = dict(amplitude=np.array(d["amp"], copy=True) if d["amp_form"] == "array" else d["amp"],
              opd=np.array(d["opd"], copy=True) if d["opd_form"] == "array" else d["opd"],
              mask=mask, pixelscale=tuple(ps) if d["ps"] == "same" else None)
    if cls == "Pupil":
        return lentil.Pupil(focal_length=d["f"], **kw)
    if cls == "Image":
        return lentil.Image(**kw)
    return lentil.Plane(**kw)


def single_sample_support(d):
    if d["mask"] is None:
        if d["amp_form"] != "array":
            return False
        sup = [d["amp"] != 0]
    elif d["mask"].ndim == 3:
        sup = [m != 0 for m in d["mask"]]
    else:
        sup = [d["mask"] != 0]
    for s in sup:
        if not s.any():
            return True
        b = gen.bbox(s)
        if (b[1] - b[0] + 1) * (b[3] - b[2] + 1) == 1:
            return True
    return False


def has_hole(d):
    if d["mask"] is None:
        if d["amp_form"] != "array":
            return False
        m = d["amp"] != 0
    else:
        m = pm.global_mask(d["mask"]) != 0
    if not m.any():
        return False
    b = gen.bbox(m)
    return not m[b[0]:b[1] + 1, b[2]:b[3] + 1].all()


def check_views(oracle, w, case, expected_field=None, tol_rel=1e-13):
    """intensity == |field|^2; insert(out, weight) adds weight*intensity and nothing else"""
    with lentil_call(oracle, "Wavefront.field / .intensity"):
        field = w.field
        inten = w.intensity
    if expected_field is not None:
        peak = max(cm.max_abs(expected_field), 1e-300)
        if field.shape != expected_field.shape or cm.max_abs(field - expected_field) > tol_rel * peak:
            raise Violation(oracle + ".field", f"field differs from the product of pointwise phasors by "
                                               f"{cm.max_abs(field - expected_field) if field.shape == expected_field.shape else 'shape ' + str(field.shape)}")
    peak2 = max(cm.max_abs(field) ** 2, 1e-300)
    if inten.shape != field.shape or cm.max_abs(inten - np.abs(field) ** 2) > 1e-12 * peak2:
        raise Violation(oracle + ".intensity", "intensity != |field|^2 sample by sample")
    # accumulate into a target
    shape = field.shape
    if case["target"] == "same":
        tshape = shape
    elif case["target"] == "larger":
        tshape = (shape[0] + 3, shape[1] + 2)
    else:
        tshape = (max(1, shape[0] - 1), max(1, shape[1] - 2))
    rng = np.random.default_rng(case["fill_seed"])
    out = rng.uniform(-3, 3, size=tshape) if case["prefill"] else np.zeros(tshape)
    before = out.copy()
    emb = fm.embed(np.abs(field) ** 2, (0, 0), dtype=float) if max(shape) <= 2 * fm.L else None
    if emb is None:
        return
    exp = before + case["weight"] * fm.window(emb, tshape)
    with lentil_call(oracle + ".insert", f"Wavefront.insert(target {tshape}, weight {case['weight']})"):
        ret = w.insert(out, weight=case["weight"])
    if ret is not out:
        raise Violation(oracle + ".insert.identity", "insert did not return the target array")
    sc = max(cm.max_abs(exp), cm.max_abs(before), 1e-300)
    if cm.max_abs(out - exp) > 1e-12 * sc:
        raise Violation(oracle + ".insert.value", f"insert(weight={case['weight']}) into a {tshape} target differs from "
                                                  f"target + weight*intensity by {cm.max_abs(out - exp):.3e}")


@hyp("C07", "phasor_chain", lambda tier: chain_case(tier),
     "field after each plane of a chain vs the running product of pointwise phasors (all scalar/array forms), "
     "wavelength / focal length / pixel scale bookkeeping, views and accumulation", examples=(700, 3000),
     budget_s=(150, 900))
def phasor_chain(case, ctx):
    shape = tuple(case["shape"])
    wl = case["wavelength"]
    if any(single_sample_support(d) for d in case["planes"]):
        raise Skip("single_sample_support(known)")
    ps = case["ps"]
    w = lentil.Wavefront(wl, pixelscale=tuple(ps) if case["wf_ps"] == "same" else None)
    model = None       # None = scalar (shape-less) field so far, value scalar_acc
    scalar_acc = 1.0 + 0j
    cur_ps = tuple(ps) if case["wf_ps"] == "same" else None
    cur_f = np.inf
    forms = set()
    for i, d in enumerate(case["planes"]):
        if tuple(w.shape) != () and any(f.data.size == 1 for f in w.data):
            # an intermediate field of one sample is an infinite constant for lentil (C06) - known finding C03
            raise Skip("single_sample_intermediate_field(known)")
        forms.add(f"{d['amp_form']}/{d['opd_form']}/{d['mask_form']}")
        with lentil_call("C07.multiply", f"{case['cls']}({d['amp_form']}/{d['opd_form']}/{d['mask_form']}) multiply"):
            p = make_plane(case["cls"], d, ps, wl)
            w_new = w * p
        shapeless = d["amp_form"] != "array" and d["mask_form"] == "none"
        if shapeless and model is None:
            # still a scalar (shape-less) wavefront: remember the constant factor
            scalar_acc = scalar_acc * complex(d["amp"] * np.exp(2j * np.pi * d["opd"] / wl))
        else:
            phs = pm.phasor(shape, d["amp"], d["opd"], d["mask"], wl)
            model = scalar_acc * phs if model is None else model * phs
        if d["ps"] == "same":
            cur_ps = tuple(ps)
        if case["cls"] == "Pupil":
            cur_f = d["f"]
        # bookkeeping
        if w_new.wavelength != wl:
            raise Violation("C07.meta.wavelength", f"wavelength changed to {w_new.wavelength}")
        if w_new.focal_length != cur_f:
            raise Violation("C07.meta.focal_length", f"focal_length {w_new.focal_length}, expected {cur_f}")
        got_ps = None if w_new.pixelscale is None else tuple(float(v) for v in w_new.pixelscale)
        if got_ps != (None if cur_ps is None else tuple(float(v) for v in cur_ps)):
            raise Violation("C07.meta.pixelscale", f"pixelscale {got_ps}, expected {cur_ps}")
        if w_new is w:
            raise Violation("C07.multiply.identity", "multiply returned the input wavefront object")
        w = w_new
        if tuple(w.shape) != () and any(f.data.size == 1 for f in w.data):
            raise Skip("single_sample_intermediate_field(known)")
        if model is not None:
            with lentil_call("C07.field", f"Wavefront.field after plane {i} "
                                          f"({d['amp_form']}/{d['opd_form']}/{d['mask_form']})"):
                got = w.field
            peak = max(cm.max_abs(model), 1e-300)
            if got.shape != model.shape or cm.max_abs(got - model) > 1e-13 * peak:
                raise Violation("C07.field.value",
                                f"after plane {i} ({case['cls']}: amp {d['amp_form']}, opd {d['opd_form']}, mask "
                                f"{d['mask_form']}) the field differs from model*amp*mask*exp(2 pi i opd/lambda) by "
                                f"{cm.max_abs(got - model) if got.shape == model.shape else got.shape}")
    tp = case.get("tilt_plane")
    if tp is not None and model is not None:
        kw = {}
        if case.get("tilt_amp") is not None:
            kw["amplitude"] = case["tilt_amp"]
        if case.get("tilt_opd") is not None:
            kw["opd"] = case["tilt_opd"] * wl
        with lentil_call("C07.multiply", f"{tp['cls']}({', '.join(kw) or 'defaults'}) multiply"):
            if tp["cls"] == "Tilt":
                tplane = lentil.Tilt(x=1e-6, y=-2e-6, **kw)
            else:
                import warnings as _w
                with _w.catch_warnings():
                    _w.simplefilter("ignore")
                    tplane = getattr(lentil, tp["cls"])(trace=[0.5, 0.0], dispersion=[1e-3, wl], **kw)
            w = w * tplane
        model = model * (kw.get("amplitude", 1.0) * np.exp(2j * np.pi * kw.get("opd", 0.0) / wl))
        ctx.tag("tilt_plane:" + tp["cls"], "tilt_plane_scalars" if kw else None)
        if w.wavelength != wl or w.focal_length != cur_f:
            raise Violation("C07.meta.tilt_plane", "a tilt plane changed the wavelength / focal length")
    ctx.tag(case["cls"], *["form:" + f for f in forms], f"n_planes:{len(case['planes'])}",
            "3d_mask" if any(d["mask_form"] == "3d" for d in case["planes"]) else None,
            "weight:" + str(case["weight"]), "target:" + case["target"],
            "many_fields" if len(w.data) >= 2 else None)
    ctx.nontrivial_if(len(w.data) >= 2 or any(has_hole(d) for d in case["planes"]))
    if model is None:
        return
    check_views("C07.views", w, case, expected_field=model)


# --- default plane and pixel-scale reconciliation ------------------------------------------------------

@st.composite
def neutral_case(draw, tier="quick"):
    c = draw(chain_case(tier))
    c["cls"] = "Plane"
    c["neutral_pos"] = draw(st.integers(0, len(c["planes"])))
    c["bad_ps"] = draw(st.sampled_from(["row", "col", "both"]))
    return c


@hyp("C07", "neutral_and_refusal", lambda tier: neutral_case(tier),
     "a default Plane() anywhere in a chain changes nothing; planes with a pixel scale inconsistent with the "
     "wavefront's are refused with ValueError and leave the wavefront usable", examples=(300, 1200))
def neutral_and_refusal(case, ctx):
    shape = tuple(case["shape"])
    wl = case["wavelength"]
    if any(single_sample_support(d) for d in case["planes"]):
        raise Skip("single_sample_support(known)")
    ps = case["ps"]
    ctx.tag(f"neutral_pos:{case['neutral_pos']}", "bad_ps:" + case["bad_ps"])
    ctx.nontrivial_if(True)

    def run(with_neutral):
        w = lentil.Wavefront(wl)
        for i, d in enumerate(case["planes"]):
            if tuple(w.shape) != () and any(f.data.size == 1 for f in w.data):
                raise Skip("single_sample_intermediate_field(known)")
            if with_neutral and i == case["neutral_pos"]:
                w = w * lentil.Plane()
            w = w * make_plane("Plane", d, ps, wl)
        if tuple(w.shape) != () and any(f.data.size == 1 for f in w.data):
            raise Skip("single_sample_intermediate_field(known)")
        if with_neutral and case["neutral_pos"] == len(case["planes"]):
            w = w * lentil.Plane()
        return w

    with lentil_call("C07.neutral", "chain with / without a default Plane"):
        a, b = run(False), run(True)
    if tuple(a.shape) != tuple(b.shape) or a.wavelength != b.wavelength or a.focal_length != b.focal_length \
            or str(a.ptype) != str(b.ptype):
        raise Violation("C07.neutral.meta", "a default Plane changed the wavefront's shape/wavelength/focal length/type")
    pa = None if a.pixelscale is None else tuple(a.pixelscale)
    pb = None if b.pixelscale is None else tuple(b.pixelscale)
    if pa != pb:
        raise Violation("C07.neutral.meta", f"a default Plane changed the pixel scale {pa} -> {pb}")
    if tuple(a.shape) != ():
        with lentil_call("C07.neutral", "field"):
            fa, fb = a.field, b.field
        if not np.array_equal(fa, fb):
            raise Violation("C07.neutral.field", "a default Plane changed the field")
    # refusal
    if a.pixelscale is None:
        return
    bad = list(a.pixelscale)
    if case["bad_ps"] in ("row", "both"):
        bad[0] = bad[0] * 1.5
    if case["bad_ps"] in ("col", "both"):
        bad[1] = bad[1] * 0.5
    snap = a.field.copy() if tuple(a.shape) != () else None
    plane = lentil.Plane(amplitude=np.ones(shape), pixelscale=tuple(bad))
    expect_raises("C07.pixelscale.refuse", (ValueError,), lambda: a * plane,
                  f"plane pixelscale {tuple(bad)} vs wavefront {tuple(a.pixelscale)}")
    if snap is not None and not np.array_equal(a.field, snap):
        raise Violation("C07.pixelscale.refuse", "refused multiplication changed the wavefront")


# --- wavefronts with several, partially overlapping fields --------------------------------------------

@st.composite
def many_fields_case(draw, tier="quick"):
    c = draw(cm.chips_case(tier))
    c["target"] = draw(st.sampled_from(["same", "larger", "smaller"]))
    c["weight"] = draw(st.sampled_from([1, 0, -1.5, 0.25, 7]))
    c["fill_seed"] = draw(st.integers(0, 2**31 - 1))
    c["prefill"] = draw(st.booleans())
    c["image_plane"] = draw(st.booleans())
    return c


@hyp("C07", "many_fields", lambda tier: many_fields_case(tier),
     "propagated wavefronts holding 2-5 partially overlapping fields (optionally passed through an Image plane): "
     "intensity == |field|^2 and weighted accumulation", examples=(400, 1500))
def many_fields(case, ctx):
    with lentil_call("C07.many", "build"):
        out = cm.build_chips(case)
    rects = cm.chip_rects(out)
    n_ov = sum(1 for i in range(len(rects)) for j in range(i + 1, len(rects)) if cm.rects_overlap(rects[i], rects[j]))
    expected = None
    if case["image_plane"] and any(f.data.size == 1 for f in out.data):
        ctx.tag("image_plane_skipped_single_sample_field(known)")
    elif case["image_plane"]:
        rng = np.random.default_rng(case["seed"] + 1)
        amp = rng.uniform(0.2, 1.2, size=tuple(int(v) for v in out.shape))
        before = out.field
        with lentil_call("C07.many", "Image multiply"):
            out = out * lentil.Image(amplitude=amp)
        expected = before * amp
    ctx.tag(f"fields:{len(out.data)}", "overlapping_fields" if n_ov else None,
            "bridge_in_order" if cm.bridge_in_order(rects) else None, "image_plane" if case["image_plane"] else None,
            "weight:" + str(case["weight"]), "target:" + case["target"])
    ctx.nontrivial_if(len(out.data) >= 2)
    check_views("C07.many", out, case, expected_field=expected, tol_rel=1e-12)


# --- stamps: accumulation targets of exactly a field's size --------------------------------------------------------

@hyp("C07", "stamp_insert", lambda tier: st.fixed_dictionaries(
        {"shape": st.tuples(st.integers(8, 20), st.integers(8, 20)).map(list), "h": st.integers(2, 7), "w": st.integers(2, 7),
         "k": st.integers(-4, 4), "dir": st.sampled_from(["anti_diagonal", "anti_diagonal", "diagonal", "rows", "cols", "free"]),
         "k2": st.integers(-4, 4), "dt": st.sampled_from([[0, 0], [0, 0], [1, 0], [0, -1], [2, 3]]),
         "weight": st.sampled_from([1, 0.25, -1.5, 3]), "seed": st.integers(0, 2**31 - 1), "prefill": st.booleans()}),
     "an aperture block displaced from the array centre along the anti-diagonal / diagonal / one axis, accumulated into "
     "a target of exactly the block's size (a stamp cut to a sub-aperture) or a sample larger: the target gains "
     "weight x intensity of the part of the wavefront that falls inside it, origin samples aligned", examples=(300, 1200))
def stamp_insert(case, ctx):
    m, n = case["shape"]
    h, w_ = min(case["h"], m - 2), min(case["w"], n - 2)
    k, k2 = case["k"], case["k2"]
    dr, dc = {"anti_diagonal": (k, -k), "diagonal": (k, k), "rows": (k, 0), "cols": (0, k), "free": (k, k2)}[case["dir"]]
    # block with its origin sample (index floor(size/2)) at the array's origin sample + (dr, dc), kept inside the array
    r0 = min(max(m // 2 + dr - h // 2, 0), m - h)
    c0 = min(max(n // 2 + dc - w_ // 2, 0), n - w_)
    off = (r0 + h // 2 - m // 2, c0 + w_ // 2 - n // 2)
    rng = np.random.default_rng(case["seed"])
    amp = np.zeros((m, n))
    amp[r0:r0 + h, c0:c0 + w_] = rng.uniform(0.3, 1.0, size=(h, w_))
    opd = rng.normal(size=(m, n)) * 1e-7
    tshape = (h + case["dt"][0], max(1, w_ + case["dt"][1]))
    ctx.tag("dir:" + case["dir"], "target=field_shape" if tshape == (h, w_) else "target!=field_shape",
            "offset_antidiagonal_nonzero" if off[0] == -off[1] and off[0] != 0 else None, "offset_zero" if off == (0, 0) else None)
    ctx.nontrivial_if(off != (0, 0))
    if h * w_ == 1:
        raise Skip("single_sample_field(known)")
    with lentil_call("C07.stamp.build", "Wavefront * Pupil"):
        w = lentil.Wavefront(1e-6) * lentil.Pupil(amplitude=amp, opd=opd, pixelscale=1e-3, focal_length=2.0)
    inten = np.abs(amp * np.exp(2j * np.pi * opd / 1e-6)) ** 2
    out = rng.uniform(-3, 3, size=tshape) if case["prefill"] else np.zeros(tshape)
    before = out.copy()
    exp = before + case["weight"] * fm.window(fm.embed(inten, (0, 0), dtype=float), tshape)
    with lentil_call("C07.stamp.insert", f"Wavefront.insert(target {tshape}, weight {case['weight']})"):
        ret = w.insert(out, weight=case["weight"])
    if ret is not out:
        raise Violation("C07.stamp.identity", "insert did not return the target array")
    sc = max(cm.max_abs(exp), cm.max_abs(before), 1e-300)
    if cm.max_abs(out - exp) > 1e-12 * sc:
        raise Violation("C07.stamp.value", f"a {h}x{w_} aperture block at offset {off} accumulated into a {tshape} target (weight "
                                           f"{case['weight']}) differs from target + weight*intensity by {cm.max_abs(out - exp):.3e}")


# --- histories: one plane object used, edited and derived between multiplications ---------------------------

PLANE_EDITS = ["set_opd", "set_opd_scalar", "set_amp", "inplace_opd", "inplace_amp", "aug_opd", "copy", "deepcopy",
               "rescale", "resample", "fit_tilt",
               # whole-array refills in place (a new phase screen copied into the plane's OPD array), resets to the
               # neutral value, and updates made through the array the caller handed to the constructor
               "fill_opd", "fill_opd", "zero_opd", "fill_amp", "caller_opd", "caller_amp"]


@st.composite
def plane_history_case(draw, tier="quick"):
    shape = draw(gen.shape2(10, 16))
    m, n = shape
    wl = draw(st.sampled_from([0.5e-6, 1e-6]))
    # solid apertures by construction (a thick rectangle or disc, >= 6 samples across), so that resampling by
    # 0.5 .. 3 keeps every segment populated: this check is about staleness, not about degenerate masks
    rr, cc = np.mgrid[0:m, 0:n]
    if draw(st.booleans()):
        r0, c0 = draw(st.integers(0, m - 8)), draw(st.integers(0, n - 8))
        h, w_ = draw(st.integers(8, m - r0)), draw(st.integers(8, n - c0))
        mask = ((rr >= r0) & (rr < r0 + h) & (cc >= c0) & (cc < c0 + w_)).astype(int)
    else:
        rad = draw(gen.finite(4.0, min(m, n) / 2 - 0.5))
        mask = ((rr - m // 2) ** 2 + (cc - n // 2) ** 2 <= rad ** 2).astype(int)
    k = draw(st.integers(0, 2**31 - 1))
    rng = np.random.default_rng(k)
    amp = mask * (0.5 + 0.5 * rng.uniform(size=shape))
    u, v = (rr - m / 2) / m, (cc - n / 2) / n
    cf = rng.normal(size=4)
    opd = mask * 0.3 * wl * (cf[0] * u + cf[1] * v + cf[2] * u * v + cf[3] * (u * u - v * v))
    forms = draw(st.sampled_from(["array/array/none", "array/array/2d", "scalar/scalar/2d", "scalar/array/2d",
                                  "array/scalar/2d", "scalar/scalar/3d", "array/array/3d"]))
    labels = None
    if forms.endswith("3d"):
        # two or three stripes, each at least 4 samples wide
        b = gen.bbox(mask != 0)
        labels = np.zeros(shape, dtype=int)
        if draw(st.booleans()):
            cut = (b[0] + b[1] + 1) // 2
            labels[:cut] = 1
            labels[cut:] = 2
        else:
            cut = (b[2] + b[3] + 1) // 2
            labels[:, :cut] = 1
            labels[:, cut:] = 2
        labels = labels * mask
    steps = []
    for _ in range(draw(st.integers(3, 9 if tier == "quick" else 14))):
        if draw(st.floats(0, 1)) < 0.5:
            steps.append({"kind": "multiply", "wl": draw(st.sampled_from([wl, wl, 1.3 * wl]))})
        else:
            steps.append({"kind": "edit", "edit": draw(st.sampled_from(PLANE_EDITS)), "x": draw(gen.finite(0.0, 1.0)),
                          "y": draw(gen.finite(0.0, 1.0)), "seed": draw(st.integers(0, 2**31 - 1)),
                          "s": draw(st.sampled_from([2.0, 0.5, 1.5, 3.0]))})
    steps.append({"kind": "multiply", "wl": wl})
    # neutral starting values held in arrays (an aperture built with opd=np.zeros(shape) / amplitude=np.ones(shape))
    opd0 = draw(st.sampled_from(["drawn", "drawn", "zeros", "zeros", "const"]))
    amp0 = draw(st.sampled_from(["drawn", "drawn", "ones"]))
    if opd0 == "zeros":
        opd = np.zeros(shape)
    elif opd0 == "const":
        opd = np.full(shape, 0.1 * wl)
    if amp0 == "ones":
        amp = mask.astype(float)
    return {"shape": list(shape), "wavelength": wl, "amp": amp, "opd": opd, "mask": mask, "labels": labels,
            "forms": forms, "cls": draw(st.sampled_from(["Plane", "Pupil"])), "ps": draw(gen.pos_log(1e-4, 1e-1)),
            "steps": steps, "opd0": opd0, "amp0": amp0}


def _expected_field(p, wl):
    """amplitude * exp(2 pi i opd / lambda) inside the plane's current mask, from its reported attributes"""
    m = np.asarray(p.mask)
    m2 = (m != 0) if m.ndim == 2 else (m != 0).any(axis=0)
    a = np.broadcast_to(np.asarray(p.amplitude, dtype=float), m2.shape)
    o = np.broadcast_to(np.asarray(p.opd, dtype=float), m2.shape)
    return np.where(m2, a * np.exp(2j * np.pi * o / wl), 0)


@hyp("C07", "plane_history", lambda tier: plane_history_case(tier),
     "one plane object multiplied into fresh wavefronts (repeated wavelengths) between edits of its attributes "
     "(assignment, in-place writes, augmented assignment), copies and rescale/resample/fit_tilt: every product "
     "must be amplitude*exp(2 pi i opd/lambda) inside the mask as the plane reports them at that moment",
     examples=(300, 1200), budget_s=(150, 700))
def plane_history(case, ctx):
    import copy as _copy
    wl0 = case["wavelength"]
    af, of, mf = case["forms"].split("/")
    mask = None
    if mf == "2d":
        mask = case["mask"].copy()
    elif mf == "3d":
        lab = case["labels"]
        mask = np.stack([(lab == v).astype(int) for v in range(1, int(lab.max()) + 1)])
    kw = dict(amplitude=case["amp"].copy() if af == "array" else 0.75,
              opd=case["opd"].copy() if of == "array" else 0.1 * wl0, mask=mask, pixelscale=case["ps"])
    # the arrays the caller handed over (the plane may hold them without copying)
    caller = {"opd": kw["opd"] if of == "array" else None, "amp": kw["amplitude"] if af == "array" else None}
    # ... as plain arrays, numpy MaskedArrays with flagged samples (data intact) or ndarray subclasses
    acl_sel = int(case["shape"][0]) + 3 * int(case["shape"][1]) + len(case["steps"])
    if of == "array":
        kw["opd"], acls = gen.array_class(kw["opd"], acl_sel)
        ctx.tag("opd_class:" + acls)
        if acls != "ndarray":
            caller["opd"] = None          # (a copy was made: the caller's array is no longer the plane's)
    if af == "array" and acl_sel % 3 == 0:
        kw["amplitude"] = gen.array_class(kw["amplitude"], acl_sel + 5)[0]
        caller["amp"] = None
    with lentil_call("C07.history.build", f"{case['cls']}({case['forms']})"):
        p = lentil.Pupil(focal_length=2.0, **kw) if case["cls"] == "Pupil" else lentil.Plane(**kw)
    done, n_mul, edited_between = [], 0, False
    for i, st_ in enumerate(case["steps"]):
        if st_["kind"] == "edit":
            e = st_["edit"]
            rng = np.random.default_rng(st_["seed"])
            arr_opd, arr_amp = np.ndim(p.opd) == 2, np.ndim(p.amplitude) == 2
            shp = np.asarray(p.mask).shape[-2:]
            # smallest extent of any segment's support: resampling must leave every segment a few samples wide
            pm_ = np.asarray(p.mask)
            segs_ = [pm_] if pm_.ndim == 2 else list(pm_)
            ext_ = min(min(gen.bbox(s_ != 0)[1] - gen.bbox(s_ != 0)[0] + 1, gen.bbox(s_ != 0)[3] - gen.bbox(s_ != 0)[2] + 1)
                       for s_ in segs_)
            applied = True
            with lentil_call("C07.history.edit", f"{e} after [{' '.join(done)}]"):
                if e == "set_opd":
                    p.opd = gen.array_class(rng.uniform(-0.3, 0.3, size=shp) * wl0, acl_sel + i)[0]
                elif e == "set_opd_scalar":
                    p.opd = (0.05 + st_["x"]) * wl0
                elif e == "set_amp":
                    p.amplitude = rng.uniform(0.2, 1.0, size=shp)
                elif e == "inplace_opd" and arr_opd and p.opd.flags.writeable:
                    r0, c0 = int(st_["x"] * (shp[0] - 1)), int(st_["y"] * (shp[1] - 1))
                    p.opd[r0:r0 + 3, c0:c0 + 3] += 0.2 * wl0
                elif e == "inplace_amp" and arr_amp and p.amplitude.flags.writeable:
                    r0, c0 = int(st_["x"] * (shp[0] - 1)), int(st_["y"] * (shp[1] - 1))
                    p.amplitude[r0:r0 + 2, c0:c0 + 4] *= 0.5
                elif e == "aug_opd":
                    p.opd -= 0.07 * wl0
                elif e == "fill_opd" and arr_opd and p.opd.flags.writeable:
                    p.opd[...] = rng.uniform(-0.3, 0.3, size=shp) * wl0
                elif e == "zero_opd" and arr_opd and p.opd.flags.writeable:
                    p.opd[...] = 0
                elif e == "fill_amp" and arr_amp and p.amplitude.flags.writeable:
                    np.copyto(p.amplitude, np.where(np.asarray(p.amplitude) != 0, rng.uniform(0.2, 1.0, size=shp), 0))
                elif e == "caller_opd" and caller["opd"] is not None and caller["opd"].shape == shp:
                    caller["opd"][...] = rng.uniform(-0.3, 0.3, size=shp) * wl0
                elif e == "caller_amp" and caller["amp"] is not None and caller["amp"].shape == shp:
                    caller["amp"] *= 0.5 + 0.5 * rng.uniform(size=shp)
                elif e == "copy":
                    p = p.copy()
                elif e == "deepcopy":
                    p = _copy.deepcopy(p)
                elif e == "rescale" and max(shp) * st_["s"] <= 60 and ext_ * st_["s"] >= 4:
                    p = p.rescale(st_["s"])
                elif e == "resample" and max(shp) * st_["s"] <= 60 and ext_ * st_["s"] >= 4:
                    p = p.resample(p.pixelscale[0] / st_["s"])
                elif e == "fit_tilt" and arr_opd:
                    p.fit_tilt(inplace=True)
                else:
                    applied = False
            if applied:
                done.append(e)
                edited_between = edited_between or n_mul > 0
            continue
        wl = st_["wl"]
        with lentil_call("C07.history.multiply", f"multiply at {wl} after [{' '.join(done)}]"):
            w = lentil.Wavefront(wl) * p
        if any(np.ndim(f.data) == 2 and f.data.size == 1 for f in w.data):
            raise Skip("single_sample_intermediate_field(known)")
        pm_ = np.asarray(p.mask)
        if pm_.ndim == 3 and np.any((pm_ != 0).sum(axis=0) > 1):
            # abutting segments resampled one by one (nearest neighbour) can come to share boundary samples; such a
            # mask is no longer a partition and the pointwise-phasor statement does not say what the field is there
            raise Skip("segments_overlap_after_resampling")
        with lentil_call("C07.history.field", "Wavefront.field"):
            got = w.field
        exp = _expected_field(p, wl)
        done.append(f"x@{wl / wl0:.1f}")
        n_mul += 1
        peak = max(cm.max_abs(exp), 1e-300)
        if got.shape != exp.shape or cm.max_abs(got - exp) > 1e-13 * peak:
            raise Violation("C07.history.stale", f"step {i}: the product at wavelength {wl} is not amplitude*exp(2 pi i "
                                                 f"opd/lambda) inside the mask as the plane reports them now "
                                                 f"({case['cls']} {case['forms']}; history: {' '.join(done)})")
    ctx.tag(case["cls"], "forms:" + case["forms"], f"multiplies:{min(n_mul, 5)}", "opd0:" + case.get("opd0", "drawn"),
            "amp0:" + case.get("amp0", "drawn"),
            *sorted({"edit:" + d for d in done if not d.startswith("x@")}))
    ctx.nontrivial_if(edited_between and n_mul >= 2)


# --- planes of more than a million samples ------------------------------------------------------------------

@st.composite
def mega_plane_case(draw, tier="quick"):
    return {"shape": list(draw(gen.mega_shape())), "seed": draw(st.integers(0, 2**31 - 1)),
            "segmented": draw(st.booleans()), "cls": draw(st.sampled_from(["Plane", "Pupil"])),
            "weight": draw(st.sampled_from([1, 0.25, -1.5]))}


@hyp("C07", "mega", lambda tier: mega_plane_case(tier),
     "planes of more than 2^20 samples (monolithic or two segments): field = amplitude*exp(2 pi i opd/lambda) inside "
     "the mask, intensity = |field|^2, insert adds weight*intensity", examples=(3, 12), budget_s=(150, 700))
def mega(case, ctx):
    m, n = case["shape"]
    rng = np.random.default_rng(case["seed"])
    wl = 1e-6
    amp = rng.uniform(0.2, 1.0, size=(m, n))
    amp[:, : n // 60] = 0
    opd = rng.normal(size=(m, n)) * 0.1 * wl
    sup = amp != 0
    if case["segmented"]:
        top = np.zeros((m, n), dtype=int)
        top[: m // 2 + 3] = 1
        mask = np.stack([top * sup, (1 - top) * sup])
    else:
        mask = sup.astype(int)
    ctx.tag("mega", "segmented" if case["segmented"] else "monolithic", case["cls"])
    ctx.nontrivial_if(True)
    kw = dict(amplitude=amp.copy(), opd=opd.copy(), mask=mask.copy(), pixelscale=1e-3)
    with lentil_call("C07.mega", f"{case['cls']} {m}x{n} multiply"):
        p = lentil.Pupil(focal_length=3.0, **kw) if case["cls"] == "Pupil" else lentil.Plane(**kw)
        w = lentil.Wavefront(wl) * p
        got, inten = w.field, w.intensity
    exp = np.where(sup, amp * np.exp(2j * np.pi * opd / wl), 0)
    if got.shape != exp.shape or cm.max_abs(got - exp) > 1e-13:
        bad = np.argwhere(np.abs(got - exp) > 1e-13) if got.shape == exp.shape else []
        raise Violation("C07.mega.field", f"field of a {m}x{n} plane differs from amplitude*exp(2 pi i opd/lambda) "
                                          f"(first differing sample {bad[0].tolist() if len(bad) else got.shape})")
    if cm.max_abs(inten - np.abs(exp) ** 2) > 1e-12:
        raise Violation("C07.mega.intensity", "intensity != |field|^2")
    out = np.full((m, n), 0.5)
    with lentil_call("C07.mega.insert", "Wavefront.insert"):
        ret = w.insert(out, weight=case["weight"])
    if ret is not out or cm.max_abs(out - (0.5 + case["weight"] * np.abs(exp) ** 2)) > 1e-12:
        raise Violation("C07.mega.insert", f"insert(weight={case['weight']}) into a {m}x{n} target differs from "
                                           f"target + weight*intensity")


# --- user subclasses that redefine amplitude / opd as (stateful) properties ------------------------------------
# (the documented extension mechanism: docs/user/advanced/extend.rst, "Redefining the amplitude, OPD, or mask
# attributes"): multiplication must use what the plane reports at that moment


class _StatefulPupil(lentil.Pupil):
    def __init__(self, base_amp, base_opd, mask, pixelscale, which):
        super().__init__(amplitude=base_amp, opd=base_opd, mask=mask, pixelscale=pixelscale, focal_length=2.0)
        self.transmission, self.piston, self.which = 1.0, 0.0, which
        self._base_amp, self._base_opd = np.array(base_amp, dtype=float), np.array(base_opd, dtype=float)

    @property
    def amplitude(self):
        return self._base_amp * self.transmission if "amplitude" in self.which else self._amplitude

    @amplitude.setter
    def amplitude(self, value):
        self._amplitude = np.asarray(value)

    @property
    def opd(self):
        return self._base_opd + self.piston if "opd" in self.which else self._opd

    @opd.setter
    def opd(self, value):
        self._opd = np.asarray(value)


@hyp("C07", "subclass_properties", lambda tier: st.fixed_dictionaries(
        {"shape": gen.shape2(4, 12).map(list), "seed": st.integers(0, 2**31 - 1),
         "which": st.sampled_from(["amplitude", "opd", "amplitude+opd"]), "segmented": st.booleans(),
         "states": st.lists(st.tuples(st.sampled_from([1.0, 0.25, 0.5, 2.0]), st.sampled_from([0.0, 0.1, -0.3])),
                            min_size=1, max_size=4)}),
     "a Pupil subclass whose amplitude and/or OPD are redefined as properties computed from its state (documented "
     "extension mechanism): after every state change the product with a wavefront is amplitude*exp(2 pi i opd/lambda) "
     "of what the plane reports", examples=(200, 800))
def subclass_properties(case, ctx):
    m, n = case["shape"]
    rng = np.random.default_rng(case["seed"])
    wl = 1e-6
    yy, xx = np.mgrid[0:m, 0:n]
    sup = ((yy - m / 2 + 0.5) ** 2 / (m / 2) ** 2 + (xx - n / 2 + 0.5) ** 2 / (n / 2) ** 2) <= 1.0
    if sup.sum() < 4:
        sup[:] = True
    amp = rng.uniform(0.4, 1.0, size=(m, n)) * sup
    opd = rng.normal(size=(m, n)) * 0.1 * wl * sup
    if case["segmented"] and n >= 4:
        mask = np.stack([sup * (xx < n // 2), sup * (xx >= n // 2)]).astype(int)
        if any(s_.sum() < 2 for s_ in mask):
            mask = sup.astype(int)
    else:
        mask = sup.astype(int)
    ctx.tag("redefines:" + case["which"], "segmented" if np.ndim(mask) == 3 else "monolithic", f"states:{len(case['states'])}")
    ctx.nontrivial_if(any(t != 1.0 or p != 0.0 for t, p in case["states"]))
    with lentil_call("C07.subclass.build", "Pupil subclass"):
        p = _StatefulPupil(amp.copy(), opd.copy(), mask.copy(), 1e-3, case["which"])
    for i, (t, pist) in enumerate([(1.0, 0.0)] + [tuple(x) for x in case["states"]]):
        p.transmission, p.piston = t, pist * wl
        with lentil_call("C07.subclass.multiply", f"multiply in state {i} (transmission {t}, piston {pist} waves)"):
            w = lentil.Wavefront(wl) * p
            if any(np.ndim(f.data) == 2 and f.data.size == 1 for f in w.data):
                raise Skip("single_sample_intermediate_field(known)")
            got = w.field
        exp = np.where(sup, np.asarray(p.amplitude, dtype=float) * np.exp(2j * np.pi * np.asarray(p.opd, dtype=float) / wl), 0)
        if got.shape != exp.shape or cm.max_abs(got - exp) > 1e-13 * max(cm.max_abs(exp), 1e-300):
            raise Violation("C07.subclass.field", f"state {i} (transmission {t}, piston {pist} waves): the product is not "
                                                  f"amplitude*exp(2 pi i opd/lambda) of the attributes the subclass reports "
                                                  f"(redefined: {case['which']})")
        if cm.max_abs(w.intensity - np.abs(exp) ** 2) > 1e-12 * max(cm.max_abs(exp) ** 2, 1e-300):
            raise Violation("C07.subclass.intensity", "intensity != |field|^2 for a subclass with redefined attributes")
