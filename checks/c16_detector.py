"""C16 - detector chain: right quantum efficiency at every pixel, exact digitisation."""
import warnings

import numpy as np
from hypothesis import strategies as st

import lentil
from lentil import detector
from lentil.radiometry import Spectrum
from vlib import gen
from vlib.ref import spectrum as rs
from vlib.runner import Skip, Violation, hyp, lentil_call

# the check's own calls are issued with keywords or positionally in the documented order (vlib/callforms.py)
from vlib import callforms as _cf
lentil = _cf.proxy(lentil)
detector = _cf.proxy(detector, "detector.")

RULE = ("photon cubes (1-6 wavelengths, frames up to 12x12) with scalar / vector / Spectrum efficiencies in any "
        "wavelength unit; square colour patterns of size 1-4 with drawn content, image sizes that are (different) "
        "multiples of the pattern, oversampling 1-6; electron frames incl. negatives, values above saturation and "
        "integer dtypes with the four gain forms and polynomial orders 1-4; non-trivial = (Bayer) >= 2 colours and "
        "oversample >= 2, (ADC) some pixel saturates or is negative; distinct = distinct canonical descriptors")
ASSUMPTIONS = [
    "reference: explicit per-pixel loops; channel(r, c) = pattern[(r // os) % k, (c // os) % k]",
    "digital numbers are compared exactly except where the real-valued gain polynomial lies within 1e-9 (relative) "
    "of an integer (floor decided by rounding; skipped and counted)",
]

UNITS = ["nm", "um", "m", "angstrom"]


def _spread(wave_nm):
    """sampled wavelengths at least 0.01 nm apart (the shrinker's ulp-apart pairs make every statement about a curve's
    end or knot 'between two samples' rounding-decided)"""
    out = []
    for w in wave_nm:
        out.append(w if not out or w - out[-1] >= 0.01 else out[-1] + 0.01)
    return out


@st.composite
def qe_desc(draw, wave_nm):
    kind = draw(st.sampled_from(["scalar", "vector", "spectrum", "spectrum"]))
    n = len(wave_nm)
    if kind == "scalar":
        if draw(st.integers(0, 3)) == 0:
            # a 0 / 1 efficiency (band mask element) held in a bool or narrow integer type
            return {"kind": kind, "value": draw(st.sampled_from([0, 1, 1])), "dtype": draw(st.sampled_from(["bool", "uint8", "int8", "int16", "int64"]))}
        return {"kind": kind, "value": draw(gen.finite(0.0, 1.0))}
    if kind == "vector":
        if draw(st.integers(0, 3)) == 0:
            return {"kind": kind, "value": [draw(st.sampled_from([0, 1, 1])) for _ in range(n)],
                    "dtype": draw(st.sampled_from(["bool", "uint8", "int8", "int16", "float32"]))}
        return {"kind": kind, "value": [draw(gen.finite(0.0, 1.0)) for _ in range(n)]}
    lo, hi = min(wave_nm) - draw(gen.finite(1.0, 80.0)), max(wave_nm) + draw(gen.finite(1.0, 80.0))
    m = draw(st.integers(2, 12))
    k = draw(st.integers(0, 2**31 - 1))
    w = np.linspace(max(lo, 10.0), hi, m)
    rel = draw(st.sampled_from(["wider", "wider", "on_grid", "narrower"]))
    if rel == "on_grid":
        # the sampled wavelengths are themselves grid points of the efficiency curve
        knots = sorted(set([max(lo, 10.0), hi] + list(wave_nm) + [0.5 * (min(wave_nm) + max(wave_nm)) + 0.37]))
        # knots closer than 1e-3 nm would make a curve that unit conversion cannot even represent (duplicates)
        if min(b_ - a_ for a_, b_ in zip(knots, knots[1:])) >= 1e-3:
            w = np.array(knots)
            m = len(w)
    elif rel == "narrower" and n >= 2:
        # the curve ends inside the sampled band: wavelengths beyond it see no efficiency (clearly inside/outside:
        # the ends sit 30 % / 70 % of the way between two sampled wavelengths)
        ws = sorted(wave_nm)
        i = draw(st.integers(0, n - 2))
        a = ws[i] + 0.3 * (ws[i + 1] - ws[i]) if draw(st.booleans()) else max(lo, 10.0)
        b = ws[n - 2] + 0.7 * (ws[n - 1] - ws[n - 2]) if draw(st.booleans()) or a == max(lo, 10.0) else hi
        if b - a > 1e-3 * m:             # (sampled wavelengths an ulp apart would give a curve with coinciding knots)
            w = np.linspace(a, b, m)
    return {"kind": kind, "w_nm": w, "v": np.random.default_rng(k).uniform(0, 1, size=m),
            "unit": draw(st.sampled_from(UNITS))}


def same_numbers_qe(draw, wave_nm, waveunit):
    """an efficiency spectrum whose raw wavelength array holds exactly the numbers of the cube's wavelength array, in
    ANOTHER unit (1, 2, 3 um tabulated; 1, 2, 3 nm asked for): physically it lies a factor 10 .. 1e9 away"""
    raw = np.asarray(wave_nm, dtype=float) * rs.factor("nm", waveunit)
    unit = draw(st.sampled_from([u for u in UNITS if u != waveunit]))
    k = draw(st.integers(0, 2**31 - 1))
    return {"kind": "spectrum", "w_nm": raw * rs.factor(unit, "nm"), "raw": raw,
            "v": np.random.default_rng(k).uniform(0.2, 1, size=len(raw)), "unit": unit, "relation": "same_numbers"}


def make_qe(d):
    if d["kind"] == "scalar":
        return np.dtype(d["dtype"]).type(d["value"]) if d.get("dtype") else d["value"]
    if d["kind"] == "vector":
        return np.array(d["value"], dtype=d.get("dtype"))
    from checks import common as cm
    raw = d["raw"].copy() if d.get("raw") is not None else d["w_nm"] * rs.factor("nm", d["unit"])
    return cm.build_obj(Spectrum, "lentil.radiometry.Spectrum", len(d["w_nm"]) + int(abs(float(d["v"][0])) * 1000),
                        raw, d["v"].copy(), waveunit=d["unit"])[0]


def qe_values(d, wave_nm):
    if d["kind"] == "scalar":
        return np.full(len(wave_nm), d["value"])
    if d["kind"] == "vector":
        return np.array(d["value"], dtype=float)
    return np.interp(wave_nm, d["w_nm"], d["v"], left=0.0, right=0.0)


def qe_slack(d, wave_nm):
    """absolute uncertainty of a spectrum efficiency at each sampled wavelength: the wavelength reaches the
    interpolator through unit conversions (a few ulps), and a steep efficiency curve (knots a fraction of a nm apart)
    turns that into |slope| x 8 eps x wavelength"""
    wave_nm = np.asarray(wave_nm, dtype=float)
    if d["kind"] != "spectrum":
        return np.zeros(len(wave_nm))
    w, v = np.asarray(d["w_nm"], dtype=float), np.asarray(d["v"], dtype=float)
    if len(w) < 2:
        return np.zeros(len(wave_nm))
    slope = np.abs(np.diff(v) / np.diff(w))
    out = np.zeros(len(wave_nm))
    for i, x in enumerate(wave_nm):
        j = int(np.searchsorted(w, x))
        near = slope[max(j - 2, 0):j + 1]
        out[i] = (near.max() if near.size else 0.0) * 8 * np.finfo(float).eps * x
    return out


@st.composite
def charge_case(draw, tier):
    nw = draw(st.integers(1, 6))
    wave_nm = _spread(sorted(draw(st.lists(gen.finite(350.0, 1100.0), min_size=nw, max_size=nw, unique=True))))
    shape = draw(gen.shape2(1, 12))
    k = draw(st.integers(0, 2**31 - 1))
    img = np.random.default_rng(k).uniform(0, 1000, size=(nw,) + shape) * draw(gen.scales())
    if draw(st.sampled_from([False, False, True])):
        img = np.round(img).astype(np.int64)           # integer photon counts
        nar = draw(st.sampled_from([None, None, "uint8", "uint16", "int16", "int8"]))
        if nar:
            # photon cubes stored in a narrow type (8/16-bit camera frames): the same counts, whose sum over wavelength
            # slices goes beyond the type's own range
            top = {"uint8": 250, "uint16": 60000, "int16": 30000, "int8": 120}[nar]
            img = (np.random.default_rng(k).integers(top // 2, top, size=(nw,) + shape)).astype(nar)
    wu = draw(st.sampled_from(UNITS))
    qe = draw(qe_desc(wave_nm))
    if nw >= 2 and draw(st.integers(0, 5)) == 0:
        qe = same_numbers_qe(draw, wave_nm, wu)
    return {"wave_nm": wave_nm, "img": img, "qe": qe, "qe2": draw(qe_desc(wave_nm)),
            "wave_as_list": draw(st.booleans()),
            "waveunit": wu, "squeeze": nw == 1 and draw(st.booleans()),
            "a": draw(gen.finite(-2, 2)), "b": draw(gen.finite(-2, 2))}


@hyp("C16", "collect_charge", lambda tier: charge_case(tier),
     "collect_charge vs per-pixel sum over wavelengths of photons x QE for scalar / vector / Spectrum QE in any "
     "unit; linear in photons; the QE object is left untouched", examples=(500, 2000))
def collect_charge(case, ctx):
    wave_nm = np.array(case["wave_nm"])
    wu = case["waveunit"]
    wave = wave_nm * rs.factor("nm", wu)
    img = case["img"]
    d = case["qe"]
    qe = make_qe(d)
    ctx.tag("qe:" + d["kind"], "qe_relation:same_numbers" if d.get("relation") == "same_numbers" else None, "waveunit:" + wu, "qe_unit:" + d.get("unit", "-"), f"nwave:{len(wave_nm)}",
            "2d_input" if case["squeeze"] else None)
    ctx.nontrivial_if(len(wave_nm) >= 2 and (d["kind"] != "spectrum" or d["unit"] != wu))
    img = gen.relayout(img, ["C", "F", "strided", "transposed_view"][len(wave_nm) % 4])
    arg = img[0] if case["squeeze"] else img
    if case.get("wave_as_list"):
        wave = wave.tolist()
    ctx.tag("int_cube" if img.dtype.kind == "i" else None, "wave_list" if case.get("wave_as_list") else None)
    snap = None
    if d["kind"] == "spectrum":
        snap = (qe.wave.copy(), qe.value.copy(), qe.waveunit)
    img0 = img.copy()
    with lentil_call("C16.charge", f"collect_charge(qe {d['kind']}, wave in {wu})"):
        out = np.asarray(detector.collect_charge(arg, wave, qe, waveunit=wu), dtype=float)
    q = qe_values(d, wave_nm)
    exp = np.zeros(img.shape[1:])
    for i in range(len(wave_nm)):
        exp += img[i] * q[i]
    slack = float(np.max(np.tensordot(qe_slack(d, wave_nm), np.abs(np.asarray(img, dtype=float)), axes=1)))
    if out.shape != exp.shape or np.max(np.abs(out - exp)) > 1e-11 * (np.max(np.abs(exp)) + 1e-300) + slack + 1e-300:
        raise Violation("C16.charge.value", f"collect_charge(qe {d['kind']}"
                                            f"{' in ' + d['unit'] if d['kind'] == 'spectrum' else ''}, wave in {wu}) differs "
                                            f"from sum(photons x QE): max {np.max(np.abs(out - exp)):.3e}")
    if snap is not None and not (np.array_equal(qe.wave, snap[0]) and np.array_equal(qe.value, snap[1])
                                 and qe.waveunit == snap[2]):
        raise Violation("C16.charge.qe_mutated", f"collect_charge changed the QE spectrum (unit {snap[2]} -> {qe.waveunit})")
    if not np.array_equal(img, img0):
        raise Violation("C16.charge.input_mutated", "collect_charge changed the photon cube")
    # linearity in photons
    img2 = np.random.default_rng(7).uniform(0, 10, size=img.shape)
    a, b = case["a"], case["b"]
    with lentil_call("C16.charge", "collect_charge linearity"):
        o2 = detector.collect_charge(img2, wave, qe, waveunit=wu)
        o3 = detector.collect_charge(a * img + b * img2, wave, qe, waveunit=wu)
    sc = abs(a) * np.max(np.abs(out)) + abs(b) * np.max(np.abs(o2)) + 1e-300
    if np.max(np.abs(o3 - (a * out + b * o2))) > 1e-10 * sc:
        raise Violation("C16.charge.linear", "collect_charge is not linear in the photon counts")


# --- Bayer ------------------------------------------------------------------------------------------

@st.composite
def bayer_case(draw, tier):
    k = draw(st.sampled_from([1, 2, 2, 2, 3, 4]))
    pattern = "".join(draw(st.lists(st.sampled_from("RGB"), min_size=k * k, max_size=k * k)))
    if draw(st.booleans()):
        pattern = pattern.lower()
    os_ = draw(st.integers(1, 6))
    mr, mc = draw(st.integers(1, 3)), draw(st.integers(1, 3))
    shape = (k * mr * os_, k * mc * os_)
    nw = draw(st.integers(1, 4))
    wave_nm = _spread(sorted(draw(st.lists(gen.finite(350.0, 1100.0), min_size=nw, max_size=nw, unique=True))))
    kk = draw(st.integers(0, 2**31 - 1))
    img = np.random.default_rng(kk).uniform(1, 1000, size=(nw,) + shape)
    same = draw(st.sampled_from([False, False, True]))
    qr = draw(qe_desc(wave_nm))
    wu = draw(st.sampled_from(UNITS))
    qg = qr if same else draw(qe_desc(wave_nm))
    if nw >= 2 and not same and draw(st.integers(0, 5)) == 0:
        qg = same_numbers_qe(draw, wave_nm, wu)
    return {"k": k, "pattern": pattern, "oversample": os_, "wave_nm": wave_nm, "img": img,
            "qe": [qr, qg, qr if same else draw(qe_desc(wave_nm))],
            "same_qe": same, "waveunit": wu, "flatten": draw(st.booleans())}


@hyp("C16", "bayer", lambda tier: bayer_case(tier),
     "collect_charge_bayer: every oversampled sub-pixel uses the QE of the colour the tiled pattern assigns to its "
     "native pixel; equal QEs == monochrome; channel images sum to the flattened one", examples=(500, 2000))
def bayer(case, ctx):
    k, os_ = case["k"], case["oversample"]
    wave_nm = np.array(case["wave_nm"])
    wu = case["waveunit"]
    wave = wave_nm * rs.factor("nm", wu)
    img = case["img"]
    pat = np.array(list(case["pattern"].upper())).reshape(k, k)
    ncol = len(set(case["pattern"].upper()))
    ctx.tag(f"k:{k}", f"os:{os_}", f"colours:{ncol}", "same_qe" if case["same_qe"] else None,
            "flatten" if case["flatten"] else "channels", "nonsquare" if img.shape[1] != img.shape[2] else None,
            "larger_than_pattern" if img.shape[1] > k * os_ or img.shape[2] > k * os_ else "one_pattern")
    ctx.nontrivial_if(ncol >= 2 and os_ >= 2)
    qes = [make_qe(d) for d in case["qe"]]
    with lentil_call("C16.bayer", f"collect_charge_bayer(pattern {case['pattern']}, os {os_}, image {img.shape[1:]})"):
        out = detector.collect_charge_bayer(img, wave, qes[0], qes[1], qes[2], case["pattern"],
                                            oversample=gen.typed_int(os_, img.shape[-1] + img.shape[-2] + k),
                                            waveunit=wu, flatten=case["flatten"])
        flat = out if case["flatten"] else detector.collect_charge_bayer(img, wave, qes[0], qes[1], qes[2],
                                                                         case["pattern"], oversample=os_, waveunit=wu)
    q = {c: qe_values(d, wave_nm) for c, d in zip("RGB", case["qe"])}
    nr, nc = img.shape[1:]
    exp = np.zeros((nr, nc))
    chan = {c: np.zeros((nr, nc)) for c in "RGB"}
    for r in range(nr):
        for c in range(nc):
            col = pat[(r // os_) % k, (c // os_) % k]
            val = float(np.dot(img[:, r, c], q[col]))
            exp[r, c] = val
            chan[col][r, c] = val
    flat = np.asarray(flat, dtype=float)
    slack = np.max([qe_slack(d_, wave_nm) for d_ in case["qe"]], axis=0)
    tol = 1e-11 * (np.max(np.abs(exp)) + 1e-300) + float(np.max(np.tensordot(slack, np.abs(np.asarray(img, dtype=float)), axes=1))) + 1e-300
    if flat.shape != exp.shape or np.max(np.abs(flat - exp)) > tol:
        bad = np.argwhere(np.abs(flat - exp) > tol)[:3].tolist() if flat.shape == exp.shape else flat.shape
        raise Violation("C16.bayer.mosaic", f"pattern {case['pattern']} oversample {os_} image {exp.shape}: wrong colour "
                                            f"channel at sub-pixels {bad}")
    if not case["flatten"]:
        if len(out) != 3:
            raise Violation("C16.bayer.channels", f"{len(out)} channel images")
        for c, o in zip("RGB", out):
            if np.max(np.abs(np.asarray(o) - chan[c])) > tol:
                raise Violation("C16.bayer.channels", f"channel {c} image differs from its reference")
        if np.max(np.abs(sum(np.asarray(o) for o in out) - flat)) > tol:
            raise Violation("C16.bayer.sum", "channel images do not sum to the flattened image")
    if case["same_qe"]:
        with lentil_call("C16.bayer", "monochrome collect_charge"):
            mono = detector.collect_charge(img, wave, qes[0], waveunit=wu)
        if np.max(np.abs(np.asarray(mono) - flat)) > tol:
            raise Violation("C16.bayer.mono", "equal channel efficiencies do not reproduce the monochrome result")


# --- ADC ---------------------------------------------------------------------------------------------

@st.composite
def adc_case(draw, tier, mega=False):
    shape = draw(gen.mega_shape()) if mega else draw(gen.shape2(1, 10))
    k = draw(st.integers(0, 2**31 - 1))
    rng = np.random.default_rng(k)
    # (a capacity of 0 is a legitimate value: every positive count is clipped to 0)
    sat = draw(st.sampled_from([None, None, 500, 4000.5, 65000, 500, 4000.5, 0, 0.0]))
    if mega and sat == 0:
        sat = 65000          # (the few million-pixel frames are not spent on all-zero outputs)
    top = 1.6 * (sat or 3000)
    frame_kind = draw(st.sampled_from(["float", "float_neg", "int", "int_neg", "const", "int_large"]))
    if frame_kind == "float":
        img = rng.uniform(0, top, size=shape)
    elif frame_kind == "float_neg":
        img = rng.uniform(-0.3 * top, top, size=shape)
    elif frame_kind == "int":
        img = rng.integers(0, int(top), size=shape)
    elif frame_kind == "int_large":        # realistic well depths as integers: powers overflow int64 from order 4
        img = rng.integers(50000, 120000, size=shape)
    elif frame_kind == "int_neg":
        img = rng.integers(-int(0.3 * top), int(top), size=shape)
    else:
        img = np.full(shape, float(sat or 100.0))
    if frame_kind in ("float", "float_neg") and not mega and draw(st.integers(0, 3)) == 0:
        # dead / unread pixels flagged NaN: digitisation is pixel by pixel, so every other pixel (and the saturation
        # warning, which is about pixels that exceed the capacity) is unaffected
        img = img.copy()
        for _ in range(draw(st.integers(1, 3))):
            img.flat[draw(st.integers(0, img.size - 1))] = np.nan
        frame_kind += "+nan"
    # (million-pixel frames: polynomial gains in two cases out of three)
    form = draw(st.sampled_from(["scalar", "poly", "pixel", "pixel_poly"] if not mega else ["poly", "poly", "pixel_poly", "pixel_poly", "scalar", "pixel"]))
    order = 1 if form in ("scalar", "pixel") else draw(st.integers(2 if mega else 1, 4))
    if form == "scalar":
        gain = draw(gen.finite(0.01, 3.0))
    elif form == "poly":
        gain = [draw(gen.finite(-1e-9, 1e-9)) * 10.0 ** (-4 * (order - 2 - d)) if d < order - 1 else draw(gen.finite(0.05, 2.0))
                for d in range(order)]
    elif form == "pixel":
        gain = rng.uniform(0.05, 2.0, size=shape)
    else:
        gain = np.stack([rng.uniform(-1e-9, 1e-9, size=shape) * 10.0 ** (-4 * (order - 2 - d)) if d < order - 1
                         else rng.uniform(0.05, 2.0, size=shape) for d in range(order)])
    return {"img": img, "frame_kind": frame_kind, "sat": sat, "form": form, "order": order, "gain": gain,
            "warn": draw(st.booleans()),
            # (million-pixel frames: output types that hold every digital number, so that every pixel is compared)
            "dtype": draw(st.sampled_from([None, None, "uint16", "int32", "float32", "uint8"] if not mega else [None, None, "int32", "float32"]))}


def ref_poly(e, gain, form, order):
    if np.size(e) > 200000:
        # frames of a million pixels: float64 evaluation (relative error ~1e-15; pixels whose polynomial lies within
        # 1e-9 of an integer are skipped anyway)
        e = np.asarray(e, dtype=float)
        if form == "scalar":
            return float(gain) * e
        if form == "pixel":
            return np.asarray(gain, dtype=float) * e
        g = np.asarray(gain, dtype=float)
        out = np.zeros(e.shape)
        for d in range(order):
            out = out + g[d] * e ** (order - d)
        return out
    e = np.asarray(e, dtype=np.longdouble)
    if form == "scalar":
        return np.longdouble(gain) * e
    if form == "pixel":
        return np.asarray(gain, dtype=np.longdouble) * e
    g = np.asarray(gain, dtype=np.longdouble)
    out = np.zeros(e.shape, dtype=np.longdouble)
    for d in range(order):
        out = out + g[d] * e ** (order - d)          # highest power first, no constant term
    return out


@hyp("C16", "adc", lambda tier: adc_case(tier),
     "adc vs max(floor(gain polynomial at min(e, saturation)), 0) cast to dtype for the four gain forms; warning iff "
     "requested and saturated; input frame untouched", examples=(700, 3000))
def adc(case, ctx):
    img = case["img"]
    sat = case["sat"]
    form, order = case["form"], case["order"]
    gain = case["gain"] if form in ("scalar", "pixel", "pixel_poly") else list(case["gain"])
    finite = np.isfinite(np.asarray(img, dtype=float))
    if not finite.all():
        img = np.where(finite, img, 0.0)              # the reference is evaluated on the finite pixels only
    saturates = sat is not None and bool(np.any(img[finite] > sat))
    ctx.tag("gain:" + form, f"order:{order}", "saturated" if saturates else None,
            "negative" if np.any(img < 0) else None, "frame:" + case["frame_kind"], "dtype:" + str(case["dtype"]),
            "warn" if case["warn"] else None, "sat:none" if sat is None else ("sat:0" if sat == 0 else "sat:set"))
    ctx.nontrivial_if(saturates or bool(np.any(img < 0)))
    frame = gen.relayout(np.asarray(case["img"]).copy(), ["C", "F", "strided", "reversed"][int(abs(float(np.sum(img)))) % 4])
    before = frame.copy()
    kw = {}
    if case["dtype"] is not None:
        kw["dtype"] = np.dtype(case["dtype"])
    with warnings.catch_warnings(record=True) as rec:
        warnings.simplefilter("always")
        with lentil_call("C16.adc", f"adc(gain {form} order {order}, frame {case['frame_kind']}, sat {sat})"):
            out = detector.adc(frame, gain, saturation_capacity=sat, warn_saturate=case["warn"], **kw)
    warned = any("saturat" in str(r.message).lower() for r in rec)
    if warned != (case["warn"] and saturates):
        raise Violation("C16.adc.warning", f"saturation warning emitted={warned}, expected {case['warn'] and saturates}")
    if not np.array_equal(frame, before, equal_nan=not finite.all()) or frame.dtype != before.dtype:
        raise Violation("C16.adc.input_mutated", "adc modified the caller's electron frame")
    e = np.minimum(img, sat) if sat is not None else img
    poly = ref_poly(e, gain, form, order)
    exp = np.maximum(np.floor(poly), 0)
    scale = np.maximum(np.abs(poly), 1.0)
    undecided = (np.abs(poly - np.round(poly)) < 1e-9 * scale) | ~finite
    if (undecided & finite).any():
        ctx.tag("rounding_decided_pixels_skipped")
    out = np.asarray(out)
    if out.shape != img.shape:
        raise Violation("C16.adc.shape", f"output shape {out.shape}")
    if case["dtype"] is not None:
        if out.dtype != np.dtype(case["dtype"]):
            raise Violation("C16.adc.dtype", f"output dtype {out.dtype}, requested {case['dtype']}")
        info = np.iinfo(out.dtype) if np.issubdtype(out.dtype, np.integer) else None
        fits = np.ones(img.shape, dtype=bool) if info is None else (exp <= info.max)
        expc = np.where(fits, exp, 0).astype(np.float64).astype(out.dtype)
        cmp = fits & ~undecided
        if np.issubdtype(out.dtype, np.floating):
            ok = np.allclose(out[cmp].astype(float), expc[cmp].astype(float), rtol=1e-6, atol=0)
        else:
            ok = np.array_equal(out[cmp], expc[cmp])
    else:
        cmp = ~undecided
        ok = np.array_equal(np.asarray(out, dtype=float)[cmp], np.asarray(exp, dtype=float)[cmp])
    if not ok:
        i = np.argwhere(cmp & (np.asarray(out, dtype=float) != np.asarray(exp, dtype=float)))[:1]
        i = tuple(i[0]) if len(i) else None
        raise Violation("C16.adc.value",
                        f"adc(gain {form} order {order}, frame {case['frame_kind']}, sat {sat}) at {i}: got "
                        f"{out[i] if i else '?'}, expected floor({float(poly[i]) if i else '?'}) clipped at 0 "
                        f"(electrons {img[i] if i else '?'})")
    if np.any(np.asarray(out, dtype=float)[finite] < 0):
        raise Violation("C16.adc.negative", "negative digital number")


@hyp("C16", "adc_mega", lambda tier: adc_case(tier, mega=True),
     "adc on frames of more than 2^20 pixels (1030..3000 rows/columns, sizes of no special form), all four gain forms",
     examples=(6, 24), budget_s=(150, 700))
def adc_mega(case, ctx):
    ctx.tag("mega")
    adc(case, ctx)


@st.composite
def mono_case(draw, tier):
    c = draw(adc_case(tier))
    return c


@hyp("C16", "adc_monotone", lambda tier: mono_case(tier),
     "for increasing non-negative gain curves the digital number is non-decreasing in the electron count",
     examples=(300, 1000))
def adc_monotone(case, ctx):
    form, order = case["form"], case["order"]
    shape = case["img"].shape
    if form in ("scalar", "pixel"):
        gain = case["gain"]
    elif form == "poly":
        gain = [abs(g) for g in case["gain"]]
    else:
        gain = np.abs(case["gain"])
    sat = case["sat"]
    top = 1.5 * (sat or 3000)
    lo = np.sort(np.random.default_rng(3).uniform(-0.2 * top, top, size=(2,) + shape), axis=0)
    ctx.tag("gain:" + form, f"order:{order}")
    ctx.nontrivial_if(order >= 2 or sat is not None)
    with lentil_call("C16.adc.monotone", "adc"):
        a = np.asarray(detector.adc(lo[0].copy(), gain, saturation_capacity=sat), dtype=float)
        b = np.asarray(detector.adc(lo[1].copy(), gain, saturation_capacity=sat), dtype=float)
    if np.any(b < a):
        raise Violation("C16.adc.monotone", f"more electrons gave a smaller digital number (gain {form} order {order})")


# --- detector-sized frames --------------------------------------------------------------------------------

@st.composite
def bayer_large_case(draw, tier):
    k = draw(st.sampled_from([2, 2, 3, 4, 6]))
    pattern = "".join(draw(st.lists(st.sampled_from("RGB"), min_size=k * k, max_size=k * k)))
    os_ = draw(st.sampled_from([1, 2, 3, 5]))
    long_native = int(np.ceil(draw(st.sampled_from([520, 600, 770, 1030])) / (k * os_))) * k
    short_native = k * draw(st.integers(1, 3))
    tall = draw(st.booleans())
    native = (long_native, short_native) if tall else (short_native, long_native)
    return {"k": k, "pattern": pattern, "oversample": os_, "native": list(native), "seed": draw(st.integers(0, 2**31 - 1)),
            "nw": draw(st.integers(1, 2)), "flatten": draw(st.booleans())}


@hyp("C16", "bayer_large", lambda tier: bayer_large_case(tier),
     "collect_charge_bayer on detector-sized frames (more than 512 oversampled rows or columns) vs the per-sub-pixel "
     "colour lookup", examples=(20, 60), budget_s=(120, 600))
def bayer_large(case, ctx):
    k, os_ = case["k"], case["oversample"]
    shape = (case["native"][0] * os_, case["native"][1] * os_)
    rng = np.random.default_rng(case["seed"])
    nw = case["nw"]
    img = rng.uniform(1, 100, size=(nw,) + shape)
    wave = np.linspace(500.0, 700.0, nw)
    q = {"R": rng.uniform(0.1, 1, size=nw), "G": rng.uniform(0.1, 1, size=nw), "B": rng.uniform(0.1, 1, size=nw)}
    pat = np.array(list(case["pattern"])).reshape(k, k)
    ctx.tag(f"k:{k}", f"os:{os_}", "tall" if shape[0] > shape[1] else "wide", f"rows:{shape[0] // 256 * 256}+")
    ctx.nontrivial_if(len(set(case["pattern"])) >= 2)
    with lentil_call("C16.bayer_large", f"collect_charge_bayer(image {shape}, pattern {case['pattern']}, os {os_})"):
        out = detector.collect_charge_bayer(img, wave, q["R"], q["G"], q["B"], case["pattern"], oversample=os_,
                                            flatten=case["flatten"])
    rows = (np.arange(shape[0]) // os_) % k
    cols = (np.arange(shape[1]) // os_) % k
    chan = pat[rows[:, None], cols[None, :]]
    exp = np.zeros(shape)
    per = {}
    for c in "RGB":
        e = np.einsum("ijk,i->jk", img, q[c]) * (chan == c)
        per[c] = e
        exp += e
    flat = out if case["flatten"] else sum(np.asarray(o) for o in out)
    tol = 1e-11 * float(exp.max())
    if flat.shape != shape or np.max(np.abs(flat - exp)) > tol:
        bad = np.argwhere(np.abs(flat - exp) > tol)
        raise Violation("C16.bayer_large.mosaic", f"image {shape}, pattern {case['pattern']}, oversample {os_}: "
                                                  f"{len(bad)} sub-pixels use the wrong colour, first at {bad[0].tolist()}")
    if not case["flatten"]:
        for c, o in zip("RGB", out):
            if np.max(np.abs(np.asarray(o) - per[c])) > tol:
                raise Violation("C16.bayer_large.channels", f"channel {c} differs on a {shape} frame")


# --- one efficiency spectrum used again after its arrays were edited in place ----------------------------------------

@hyp("C16", "qe_reuse", lambda tier: st.fixed_dictionaries(
        {"n": st.integers(5, 12), "seed": st.integers(0, 2**31 - 1), "unit": st.sampled_from(UNITS), "call_unit": st.sampled_from(UNITS),
         "edits": st.lists(st.tuples(st.sampled_from(["wave_shift_inplace", "wave_scale_caller", "value_inplace", "value_fill", "none"]),
                                     st.integers(0, 11), st.floats(0.05, 1.0)), min_size=1, max_size=4), "bayer": st.booleans()}),
     "one efficiency Spectrum object (a response curve that drifts with temperature) used for several frames: between "
     "the frames its wavelength / value arrays are shifted, scaled or refilled IN PLACE (through the attribute or the "
     "caller's own array); every frame's charge is the per-pixel sum of photons x the current curve, in the spectrum's own "
     "unit and in any other", examples=(300, 1200))
def qe_reuse(case, ctx):
    n = case["n"]
    rng = np.random.default_rng(case["seed"])
    fu = rs.factor("nm", case["unit"])
    w = (400.0 + 40.0 * np.arange(n) + rng.uniform(0, 10, size=n)) * fu
    v = rng.uniform(0.1, 1.0, size=n)
    q_nm = np.array([431.3, 515.5, 610.0, 400.0 + 40.0 * (n - 1) - 7.7])
    cube = rng.uniform(0, 100, size=(len(q_nm), 4, 6))
    wave = q_nm * rs.factor("nm", case["call_unit"])
    ctx.tag("foreign_unit" if case["unit"] != case["call_unit"] else "own_unit", "bayer" if case["bayer"] else "mono",
            *sorted({"edit:" + e[0] for e in case["edits"]}))
    ctx.nontrivial_if(case["unit"] != case["call_unit"] and any(e[0].startswith("wave") for e in case["edits"]))
    with lentil_call("C16.reuse.build", "Spectrum"):
        qe = Spectrum(w, v, waveunit=case["unit"])

    def frame():
        if case["bayer"]:
            return np.asarray(detector.collect_charge_bayer(cube, wave, qe, qe, qe, "RGGB", oversample=1, waveunit=case["call_unit"]), dtype=float)
        return np.asarray(detector.collect_charge(cube, wave, qe, waveunit=case["call_unit"]), dtype=float)

    def reference():
        w_nm = np.asarray(qe.wave, dtype=float) * rs.factor(qe.waveunit, "nm")
        q = np.interp(q_nm, w_nm, np.asarray(qe.value, dtype=float), left=0.0, right=0.0)
        # (sampled wavelengths are kept at least a nanometre inside the curve by construction below)
        return np.tensordot(q, cube, axes=1)

    done = []
    for name, k, x in [("none", 0, 0.0)] + list(case["edits"]):
        with lentil_call("C16.reuse.edit", f"{name} after [{' '.join(done)}]"):
            if name == "wave_shift_inplace":
                np.add(qe.wave, -8.0 * x * fu, out=qe.wave)                 # towards the blue: the band stays covered
            elif name == "wave_scale_caller":
                w *= 1.0 - 0.01 * x
            elif name == "value_inplace":
                qe.value[k % n] = x
            elif name == "value_fill":
                qe.value[...] = rng.uniform(0.1, 1.0, size=n)
        done.append(name)
        w_nm = np.asarray(qe.wave, dtype=float) * rs.factor(qe.waveunit, "nm")
        if q_nm.min() < w_nm[0] + 1.0 or q_nm.max() > w_nm[-1] - 1.0 or np.min(np.abs(q_nm[:, None] - w_nm[None, :])) < 1e-3:
            raise Skip("sampled_wavelength_at_a_knot_or_band_edge")
        with lentil_call("C16.reuse.charge", f"collect_charge after [{' '.join(done)}]"):
            got = frame()
        exp = reference()
        slope = float(np.max(np.abs(np.diff(np.asarray(qe.value)) / np.diff(w_nm))))
        tol = 1e-11 * float(np.max(np.abs(exp))) + slope * 8 * np.finfo(float).eps * 1200.0 * float(np.max(np.sum(np.abs(cube), axis=0)))
        if got.shape != exp.shape or float(np.max(np.abs(got - exp))) > tol:
            raise Violation("C16.reuse.value", f"frame after [{' '.join(done)}] (curve in {case['unit']}, cube in {case['call_unit']}): charge "
                                               f"differs from photons x the current efficiency curve by {float(np.max(np.abs(got - exp))):.3e} "
                                               f"(peak {float(np.max(np.abs(exp))):.3e})")
