"""C02 - far-field propagation puts the Fraunhofer field on the right output samples."""
import numpy as np
from hypothesis import strategies as st

import lentil
from checks import common as cm
from vlib import gen
from vlib.ref import dft as rdft
from vlib.ref import plane_model as pm
from vlib.runner import Skip, Violation, hyp, lentil_call

# the check's own calls are issued with keywords or positionally in the documented order (vlib/callforms.py)
from vlib import callforms as _cf
lentil = _cf.proxy(lentil)

RULE = ("pupil chains (1-3 planes) on drawn apertures with drawn optical sampling, output shape, propagation "
        "shape, oversampling, output mask and direction; non-trivial = support has >= 3 samples and is not "
        "point-symmetric about the origin sample; distinct = distinct canonical descriptors")
ASSUMPTIONS = [
    "input-plane field is built by the independent plane model (pointwise phasors), not read back from lentil",
    "reference = longdouble defining sum with alpha = dx*du/(lambda*z*os), origins at floor(n/2)",
    "bounds: pupil <= 16 (quick) / 40 (thorough) samples per axis, output <= 12*4 samples, alpha*n in [0.05, 1.5]",
]


@st.composite
def prop_case(draw, tier="quick"):
    hi = 16 if tier == "quick" else draw(st.sampled_from([16, 16, 28, 40]))
    shape = draw(gen.shape2(2, hi, big=0.02, big_pool=[63, 64, 65, 100, 128, 129]))
    samp = draw(gen.sampling(shape))
    wl = samp["wavelength"]
    nplanes = draw(st.sampled_from([1, 1, 2, 3]))
    amp_scale = draw(gen.scales())
    planes = []
    for i in range(nplanes):
        amp, opd, mask = draw(gen.aperture(shape, wl, min_samples=2 if i else 3))
        rel = draw(st.sampled_from(["free", "free", "same", "shift_rows", "shift_cols", "shift_both"])) if i else "free"
        if rel != "free":
            # a later plane whose support is the FIRST plane's support, as it is or displaced along one axis / both
            # axes (a pupil followed by an equal stop that is sheared): same bounding-box shape, related centres
            m0 = np.asarray(planes[0]["mask"] if planes[0]["mask"] is not None else planes[0]["amp"]) != 0
            b = gen.bbox(m0)
            free_r = [d for d in range(-b[0], shape[0] - b[1]) if d != 0]
            free_c = [d for d in range(-b[2], shape[1] - b[3]) if d != 0]
            dr = draw(st.sampled_from(free_r)) if rel in ("shift_rows", "shift_both") and free_r else 0
            dc = draw(st.sampled_from(free_c)) if rel in ("shift_cols", "shift_both") and free_c else 0
            moved = np.roll(np.roll(m0, dr, axis=0), dc, axis=1)          # (no wrap-around: the shift stays inside the frame)
            mask = moved.astype(int)
            amp = np.where(moved, 0.4 + np.abs(amp), 0.0)
            opd = np.where(moved, opd, 0.0)
        mform = draw(st.sampled_from(["int", "int", "bool", "float"]))
        if mform == "bool":
            mask = mask.astype(bool)
        elif mform == "float":
            mask = mask.astype(float) * 2.5            # non-binary weights: only the support matters
        if i == 0:
            amp = amp * amp_scale
        planes.append({"amp": amp, "opd": opd, "mask": mask if draw(st.booleans()) else None,
                       "f": samp["z"] if i == nplanes - 1 else draw(gen.finite(0.5, 50.0)), "rel": rel})
    os_ = samp["oversample"]
    shape_kind = draw(st.sampled_from(["pair", "pair", "int", "none"]))
    if shape_kind == "none":
        out_shape = None
        eff = shape
    elif shape_kind == "int":
        out_shape = draw(st.integers(1, 12))
        eff = (out_shape, out_shape)
    else:
        out_shape = list(draw(gen.shape2(1, 12)))
        eff = tuple(out_shape)
    pk = draw(st.sampled_from(["none", "none", "pair", "int"]))
    if pk == "none":
        prop_shape = None
    elif pk == "int":
        prop_shape = draw(st.integers(1, min(eff)))
    else:
        prop_shape = [draw(st.integers(1, eff[0])), draw(st.integers(1, eff[1]))]
    mask = None
    if draw(st.sampled_from([False, False, True])):
        mshape = (eff[0] * os_, eff[1] * os_)
        mk = draw(st.sampled_from(["pixel", "support", "edge", "full"]))
        if mk == "pixel":
            mask = np.zeros(mshape, dtype=int)
            mask[draw(st.integers(0, mshape[0] - 1)), draw(st.integers(0, mshape[1] - 1))] = 1
        elif mk == "support":
            mask = draw(gen.support_mask(mshape, min_samples=1)).astype(int)
        elif mk == "edge":
            mask = np.zeros(mshape, dtype=int)
            mask[0, :draw(st.integers(1, mshape[1]))] = 1
            if draw(st.booleans()):
                mask[-1, -1] = 1
        else:
            mask = np.ones(mshape, dtype=int)
    back = None
    if draw(st.sampled_from([False, False, True])):
        k = draw(st.integers(0, 2**31 - 1))
        rng = np.random.default_rng(k)
        ishape = (eff[0] * os_, eff[1] * os_)
        os2 = draw(st.integers(1, 3))
        q = draw(gen.finite(0.05, 1.2))
        back = {"amp": rng.uniform(0.0, 1.5, size=ishape) * (rng.uniform(size=ishape) < 0.8),
                "q": q, "os2": os2, "shape2": list(draw(gen.shape2(1, 10))),
                "with_ps": draw(st.booleans())}
    dx = draw(cm.scalar_or_pair(samp["dx"]))
    du = draw(cm.scalar_or_pair(samp["du"]))
    period = None
    if draw(st.integers(0, 7)) == 0:
        # the evaluated window (or the whole output) spans exactly one period of the transform, two, or half of one:
        # alpha * samples = 1, 2, 1/2 per axis; the pupil may be smaller or larger than that window
        eff = shape if out_shape is None else cm.shape_pair(out_shape)
        pr = eff if prop_shape is None else cm.shape_pair(prop_shape)
        tgt = pr if draw(st.booleans()) else eff
        period = draw(st.sampled_from([1.0, 1.0, 2.0, 0.5]))
        dxp = cm.ps_pair(dx)
        zf = planes[-1]["f"]
        du = [period * wl * zf * os_ / (dxp[0] * tgt[0] * os_), period * wl * zf * os_ / (dxp[1] * tgt[1] * os_)]
    return {"period": period, "shape": list(shape), "planes": planes, "dx": dx, "du": du, "wavelength": wl, "oversample": os_,
            "out_shape": out_shape, "prop_shape": prop_shape, "mask": mask, "back": back}


def point_symmetric(f):
    c = (f.shape[0] // 2, f.shape[1] // 2)
    idx = np.argwhere(f != 0)
    s = {tuple(p) for p in idx.tolist()}
    return all((2 * c[0] - p[0], 2 * c[1] - p[1]) in s for p in s)


def single_sample_intermediate(case):
    """True if some intermediate field of the chain is a single sample: lentil (and property C06)
    treat a one-element field as an infinite constant, so such chains are outside the domain."""
    box = None
    for i, pl in enumerate(case["planes"]):
        sup = (pl["amp"] != 0) if pl["mask"] is None else (pl["mask"] != 0)
        b = gen.bbox(sup)
        box = b if box is None else (max(box[0], b[0]), min(box[1], b[1]), max(box[2], b[2]), min(box[3], b[3]))
        if box[1] < box[0] or box[3] < box[2]:
            return False  # empty product: nothing propagates, handled as zero field
        if (box[1] - box[0] + 1) * (box[3] - box[2] + 1) == 1 and i < len(case["planes"]) - 1:
            return True
        if (b[1] - b[0] + 1) * (b[3] - b[2] + 1) == 1:
            return True
    return False


def build_pupil_wavefront(case):
    shape = tuple(case["shape"])
    wl = case["wavelength"]
    w = lentil.Wavefront(wl)
    model = np.ones(shape, dtype=complex)
    z = None
    for pl in case["planes"]:
        mask = None if pl["mask"] is None else pl["mask"].copy()
        lay = ["C", "F", "strided", "reversed", "transposed_view"][(shape[0] + 2 * shape[1] + len(case["planes"])) % 5]
        # constructed / copy / deepcopy / pickle / built in another process
        p, _variant = cm.build_obj(lentil.Pupil, "lentil.Pupil", shape[0] + 3 * shape[1] + int(pl["amp"].size),
                                   amplitude=gen.relayout(pl["amp"].copy(), lay), opd=gen.relayout(pl["opd"].copy(), lay),
                                   mask=None if mask is None else gen.relayout(mask, lay),
                                   pixelscale=cm.as_ps(case["dx"]), focal_length=pl["f"])
        w = w * p
        model = model * pm.phasor(shape, pl["amp"], pl["opd"], pl["mask"], wl)
        z = pl["f"]
    return w, model, z


@hyp("C02", "dft", lambda tier: prop_case(tier),
     "propagate_dft of a model-built pupil field vs the Fraunhofer defining sum on the evaluated window; exact "
     "zero outside; metadata; optional image->pupil second leg", examples=(1200, 4000), budget_s=(150, 900))
def dft(case, ctx):
    shape = tuple(case["shape"])
    wl, os_ = case["wavelength"], case["oversample"]
    os_arg = gen.typed_int(os_, int(np.sum(case["shape"])) + len(case["planes"]) + os_)      # numpy integer scalar forms
    ctx.tag("os_type:" + type(os_arg).__name__)
    if single_sample_intermediate(case):
        raise Skip("single_sample_intermediate_field")
    with lentil_call("C02.build", "Pupil multiply"):
        w, model, z = build_pupil_wavefront(case)
    eff = shape if case["out_shape"] is None else cm.shape_pair(case["out_shape"])
    full = (eff[0] * os_, eff[1] * os_)
    prop = eff if case["prop_shape"] is None else cm.shape_pair(case["prop_shape"])
    win = (prop[0] * os_, prop[1] * os_)
    dxp, dup = cm.ps_pair(case["dx"]), cm.ps_pair(case["du"])
    ctx.tag(gen.parity_tags("in", shape), gen.parity_tags("out", full), gen.parity_tags("win", win),
            "per_axis_dx" if dxp[0] != dxp[1] else None, "per_axis_du" if dup[0] != dup[1] else None,
            "prop<shape" if win != full else None, "mask" if case["mask"] is not None else None,
            f"os:{os_}", "image_to_pupil" if case["back"] else None, f"chain_len:{len(case['planes'])}",
            f"window_periods:{case['period']}" if case.get("period") else None,
            "pupil_larger_than_window" if shape[0] > win[0] or shape[1] > win[1] else None,
            "nonsquare_in" if shape[0] != shape[1] else None, "shape:none" if case["out_shape"] is None else None,
            "amp_scale:%.0e" % float(np.max(np.abs(case["planes"][0]["amp"]))),
            *sorted({"plane_rel:" + pl_.get("rel", "free") for pl_ in case["planes"][1:]}))
    nz = int(np.count_nonzero(model))
    ctx.nontrivial_if(nz >= 3 and not point_symmetric(model))
    kw = {}
    if case["out_shape"] is not None:
        kw["shape"] = cm.shape_arg(case["out_shape"])
    if case["prop_shape"] is not None:
        kw["prop_shape"] = cm.shape_arg(case["prop_shape"])
    if case["mask"] is not None:
        # the output mask as 0/1 integers, booleans or positive floating-point weights - of order one, all tiny, or
        # spanning hundreds of decades (an apodising window whose tails are 1e-300 of its peak): only its support matters
        mform = ["int", "int", "bool", "weights", "weights_tiny", "weights_wide_range"][(int(np.count_nonzero(case["mask"])) + 3 * shape[0] + shape[1]) % 6]
        mk_ = case["mask"].copy()
        mrng = np.random.default_rng(int(np.count_nonzero(mk_)) + 7 * shape[1])
        if mform == "bool":
            mk_ = mk_.astype(bool)
        elif mform == "weights":
            mk_ = mk_ * mrng.uniform(0.2, 3.0, size=mk_.shape)
        elif mform == "weights_tiny":
            mk_ = mk_ * 1e-200
        elif mform == "weights_wide_range":
            mk_ = mk_ * 10.0 ** mrng.uniform(-300, 0, size=mk_.shape)
        ctx.tag("out_mask_values:" + mform)
        kw["mask"] = mk_
    with lentil_call("C02.dft", "propagate_dft"):
        out = lentil.propagate_dft(w, pixelscale=cm.as_ps(case["du"]), oversample=os_arg, **kw)
        got = out.field
        inten = out.intensity
    ref, tol, a = pm.fraunhofer(model, dxp, dup, wl, z, os_, full)
    sel = pm.centred_window(full, win)
    if case["mask"] is not None:
        sel = sel & pm.bbox_window(case["mask"])
    cm.compare_field("C02.dft", got, ref, tol, sel, what=f"in {shape} out {full} win {win}")
    # the same propagation repeated (same shapes again) must give the same field
    with lentil_call("C02.dft.repeat", "propagate_dft (repeated call)"):
        again = lentil.propagate_dft(w, pixelscale=cm.as_ps(case["du"]), oversample=os_, **kw).field
    cm.compare_field("C02.dft.repeat", again, ref, tol, sel, what="repeated call:")
    # intensity view agrees
    ri = (np.abs(ref) ** 2).astype(float) * sel
    itol = 4 * tol * (cm.max_abs(ref) + tol) + 1e-300
    if inten.shape != ri.shape or float(np.max(np.abs(inten - ri))) > itol:
        raise Violation("C02.dft.intensity", "intensity differs from |Fraunhofer field|^2 on the evaluated window")
    # metadata
    if out.wavelength != wl:
        raise Violation("C02.meta.wavelength", f"wavelength {out.wavelength} != {wl}")
    if out.focal_length != z:
        raise Violation("C02.meta.focal_length", f"focal_length {out.focal_length} != {z}")
    if tuple(int(v) for v in out.shape) != full:
        raise Violation("C02.meta.shape", f"shape {tuple(out.shape)} != shape*oversample {full}")
    want_ps = (dup[0] / os_, dup[1] / os_)
    if not np.allclose(np.asarray(out.pixelscale, dtype=float), want_ps, rtol=1e-15, atol=0):
        raise Violation("C02.meta.pixelscale", f"pixelscale {tuple(out.pixelscale)} != du/oversample {want_ps}")
    if str(out.ptype) != "image":
        raise Violation("C02.meta.ptype", f"ptype {out.ptype} after pupil->image")

    if case["back"] is None:
        return
    if int(sel.sum()) <= 1:
        ctx.tag("back_skipped_single_sample_window")
        return
    bsup = case["back"]["amp"] != 0
    if not bsup.any():
        ctx.tag("back_skipped_opaque_image_plane")
        return
    bb = gen.bbox(bsup)
    if (bb[1] - bb[0] + 1) * (bb[3] - bb[2] + 1) == 1:
        ctx.tag("back_skipped_single_sample_image_plane")     # one-element phasor = infinite constant (known, C03)
        return
    # --- second leg: image plane amplitude, then image -> pupil --------------------------
    b = case["back"]
    img_model = (ref * sel).astype(rdft.CLD) * b["amp"]
    ps_img = want_ps
    with lentil_call("C02.back", "Image multiply + propagate_dft"):
        ip = lentil.Image(amplitude=b["amp"].copy(), pixelscale=ps_img if b["with_ps"] else None)
        w2 = out * ip
        got_img = w2.field
    tol_img = tol * (cm.max_abs(b["amp"]) + 1e-300) + 1e-300
    cm.compare_field("C02.back.image", got_img, img_model, tol_img, None, what="field after Image plane")
    os2 = b["os2"]
    shape2 = tuple(b["shape2"])
    # choose du2 so that alpha*n = q on each axis
    du2 = (b["q"] / full[0] * wl * z * os2 / ps_img[0], b["q"] / full[1] * wl * z * os2 / ps_img[1])
    with lentil_call("C02.back", "propagate_dft image->pupil"):
        out2 = lentil.propagate_dft(w2, pixelscale=du2, shape=shape2, oversample=os2)
        got2 = out2.field
    full2 = (shape2[0] * os2, shape2[1] * os2)
    ref2, tol2, a2 = pm.fraunhofer(img_model, ps_img, du2, wl, z, os2, full2)
    scale2 = float(np.sqrt(abs(a2[0] * a2[1])))
    tol2 = tol2 + tol_img * img_model.size * scale2
    cm.compare_field("C02.back", got2, ref2, tol2, None, what=f"image->pupil {full} -> {full2}")
    if str(out2.ptype) != "pupil":
        raise Violation("C02.meta.ptype", f"ptype {out2.ptype} after image->pupil")
    if out2.wavelength != wl or out2.focal_length != z:
        raise Violation("C02.meta.wavelength", "wavelength/focal length changed in image->pupil leg")


# --- pupils of more than a million samples ---------------------------------------------------------------------

@st.composite
def mega_case(draw, tier="quick"):
    shape = draw(gen.mega_shape())
    os_ = draw(st.integers(1, 2))
    out_shape = [draw(st.integers(2, 5)), draw(st.integers(2, 5))]
    q = (draw(gen.finite(0.1, 0.9)), draw(gen.finite(0.1, 0.9)))          # alpha * n per axis
    wl, z, dx = 1e-6, draw(gen.finite(1.0, 20.0)), draw(gen.pos_log(1e-4, 1e-2))
    du = [q[0] / shape[0] * wl * z * os_ / dx, q[1] / shape[1] * wl * z * os_ / dx]
    return {"shape": list(shape), "oversample": os_, "out_shape": out_shape, "wavelength": wl, "z": z, "dx": dx,
            "du": du, "seed": draw(st.integers(0, 2**31 - 1)), "offcentre": draw(st.booleans()),
            "masked": draw(st.booleans())}


@hyp("C02", "mega", lambda tier: mega_case(tier),
     "pupils of more than 2^20 samples (1030..3000 per axis, sizes of no special form, support off-centre or full) "
     "imaged onto 2..5 x 2..5 pixels vs the Fraunhofer sum", examples=(4, 16), budget_s=(200, 800))
def mega(case, ctx):
    m, n = case["shape"]
    rng = np.random.default_rng(case["seed"])
    wl, z, os_ = case["wavelength"], case["z"], case["oversample"]
    amp = rng.uniform(0.3, 1.0, size=(m, n))
    opd = rng.normal(size=(m, n)) * 0.05 * wl
    if case["offcentre"]:                      # support bounding box still above a million samples, not centred
        amp[: m // 40] = 0
        amp[:, : n // 50] = 0
    mask = (amp != 0).astype(int)
    ctx.tag("mega", "offcentre" if case["offcentre"] else "full", f"os:{os_}")
    ctx.nontrivial_if(True)
    with lentil_call("C02.mega", f"propagate_dft(pupil {m}x{n})"):
        pl = lentil.Pupil(amplitude=amp.copy(), opd=opd.copy(), mask=mask.copy() if case["masked"] else None,
                          pixelscale=case["dx"], focal_length=z)
        out = lentil.propagate_dft(lentil.Wavefront(wl) * pl, pixelscale=tuple(case["du"]),
                                   shape=tuple(case["out_shape"]), oversample=os_)
        got = out.field
    model = pm.phasor((m, n), amp, opd, mask, wl)
    full = (case["out_shape"][0] * os_, case["out_shape"][1] * os_)
    ref, tol, a = pm.fraunhofer(model, (case["dx"], case["dx"]), tuple(case["du"]), wl, z, os_, full)
    cm.compare_field("C02.mega", got, ref, tol, np.ones(full, dtype=bool), what=f"pupil {m}x{n} out {full}")


# --- both transform kernels large at once ---------------------------------------------------------------------------

@hyp("C02", "both_kernels", lambda tier: st.fixed_dictionaries(
        # (four cases in five above 2^24 elements per kernel: a size above a threshold is above every lower one too)
        {"K": st.one_of(st.floats(24.05, 24.6), st.floats(24.05, 24.6), st.floats(24.05, 24.6), st.floats(24.05, 24.6), st.floats(22.2, 24.0)),
         "long": st.integers(9000, 17000), "swap": st.booleans(), "seed": st.integers(0, 2**31 - 1),
         "q": st.tuples(st.floats(0.2, 0.9), st.floats(0.2, 0.9))}),
     "a long pupil imaged onto a window that is long on the OTHER axis, so that the row kernel (window rows x pupil "
     "rows) and the column kernel (pupil columns x window columns) both hold 2^22 .. 2^24.6 elements: 400 output samples "
     "spread over the whole window vs the Fraunhofer sum", examples=(3, 4), budget_s=(500, 900), max_shards=2)
def both_kernels(case, ctx):
    K = int(2 ** case["K"])
    L = case["long"]
    S = max(2, K // L + 1)                       # short side: L * S > K on both axes
    m, n = (L, S) if not case["swap"] else (S, L)    # pupil
    M, N = n, m                                   # window: long where the pupil is short
    rng = np.random.default_rng(case["seed"])
    wl, z, dx = 1e-6, 2.0, 1e-3
    amp = rng.uniform(0.3, 1.0, size=(m, n))
    opd = rng.normal(size=(m, n)) * 0.05 * wl
    du = (case["q"][0] / max(m, M) * wl * z / dx, case["q"][1] / max(n, N) * wl * z / dx)
    ctx.tag(f"row_kernel:2^{int(np.log2(M * m))}", f"col_kernel:2^{int(np.log2(n * N))}", "pupil_long_rows" if m > n else "pupil_long_cols")
    ctx.nontrivial_if(True)
    with lentil_call("C02.both_kernels", f"propagate_dft(pupil {m}x{n} -> window {M}x{N})"):
        w = lentil.Wavefront(wl) * lentil.Pupil(amplitude=amp, opd=opd, pixelscale=dx, focal_length=z)
        got = lentil.propagate_dft(w, pixelscale=du, shape=(M, N), oversample=1).field
    if got.shape != (M, N):
        raise Violation("C02.both_kernels.shape", f"field of shape {got.shape}, expected {(M, N)}")
    # the defining sum at 20 x 20 output samples spread over the whole window (first, last and random rows / columns)
    a = pm.alpha((dx, dx), du, wl, z, 1)
    rows = np.unique(np.concatenate([[0, M - 1, M // 2], rng.integers(0, M, size=17)]))
    cols = np.unique(np.concatenate([[0, N - 1, N // 2], rng.integers(0, N, size=17)]))
    f = amp * np.exp(2j * np.pi * opd / wl)
    x = np.arange(m) - m // 2
    y = np.arange(n) - n // 2
    E1 = np.exp(-2j * np.pi * a[0] * np.outer(rows - M // 2, x))
    E2 = np.exp(-2j * np.pi * a[1] * np.outer(y, cols - N // 2))
    ref = (E1 @ f @ E2) * np.sqrt(a[0] * a[1])
    sub = got[np.ix_(rows, cols)]
    tol = 1e-9 * np.sqrt(a[0] * a[1]) * float(np.sum(amp))
    err = np.abs(sub - ref)
    if float(err.max()) > tol:
        i, j = np.unravel_index(int(np.argmax(err)), err.shape)
        raise Violation("C02.both_kernels.value", f"pupil {m}x{n} -> window {M}x{N}: output sample ({int(rows[i])}, {int(cols[j])}) is "
                                                  f"{complex(sub[i, j]):.6g}, the Fraunhofer sum is {complex(ref[i, j]):.6g} "
                                                  f"({int((err > tol).sum())} of {err.size} checked samples differ)")


# --- an output window slid sample by sample over the same propagation --------------------------------------------

@st.composite
def slide_case(draw, tier="quick"):
    big = draw(st.integers(0, 2)) == 0
    shape = (draw(st.integers(80, 110)), draw(st.integers(80, 110))) if big else draw(gen.shape2(4, 14))
    out_shape = [draw(st.integers(60, 90)), draw(st.integers(60, 90))] if big else [draw(st.integers(9, 14)), draw(st.integers(9, 14))]
    win = [draw(st.integers(2, out_shape[0] - 6)), draw(st.integers(2, out_shape[1] - 6))]
    return {"shape": list(shape), "out_shape": out_shape, "win": win, "axis": draw(st.integers(0, 1)),
            "offsets": list(draw(st.permutations([-3, -2, -1, 0, 1, 2, 3])))[:draw(st.integers(3, 7))],
            "seed": draw(st.integers(0, 2**31 - 1)), "q": [draw(gen.finite(0.1, 0.9)), draw(gen.finite(0.1, 0.9))]}


@hyp("C02", "slide", lambda tier: slide_case(tier),
     "the same wavefront propagated 3-7 times with an output mask window of fixed size whose position steps through "
     "consecutive samples (in a drawn order): every evaluated sample equals the Fraunhofer sum, everything outside the "
     "window is zero", examples=(60, 250), budget_s=(150, 700))
def slide(case, ctx):
    m, n = case["shape"]
    rng = np.random.default_rng(case["seed"])
    wl, z, dx = 1e-6, 2.0, 1e-3
    amp = rng.uniform(0.3, 1.0, size=(m, n))
    opd = rng.normal(size=(m, n)) * 0.05 * wl
    os_ = 1
    du = (case["q"][0] / m * wl * z / dx, case["q"][1] / n * wl * z / dx)
    full = tuple(case["out_shape"])
    ctx.tag("big" if max(m, n) >= 80 else "small", f"steps:{len(case['offsets'])}", f"axis:{case['axis']}")
    ctx.nontrivial_if(True)
    with lentil_call("C02.slide.build", "Pupil multiply"):
        w = lentil.Wavefront(wl) * lentil.Pupil(amplitude=amp.copy(), opd=opd.copy(), pixelscale=dx, focal_length=z)
    model = pm.phasor((m, n), amp, opd, np.ones((m, n), dtype=int), wl)
    ref, tol, a = pm.fraunhofer(model, (dx, dx), du, wl, z, os_, full)
    h, wd = case["win"]
    for off in case["offsets"]:
        r0 = full[0] // 2 - h // 2 + (off if case["axis"] == 0 else 0)
        c0 = full[1] // 2 - wd // 2 + (off if case["axis"] == 1 else 0)
        mask = np.zeros(full, dtype=int)
        mask[r0:r0 + h, c0:c0 + wd] = 1
        with lentil_call("C02.slide", f"propagate_dft(mask window at offset {off})"):
            got = lentil.propagate_dft(w, pixelscale=du, shape=full, oversample=os_, mask=mask).field
        cm.compare_field("C02.slide", got, ref, tol, mask.astype(bool), what=f"window {h}x{wd} at offset {off}:")
