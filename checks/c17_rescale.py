"""C17 - resampling a plane changes its sampling, not its optics."""
import numpy as np
from hypothesis import strategies as st

import lentil
from vlib import gen
from vlib.runner import Skip, Violation, expect_raises, hyp, lentil_call

# the check's own calls are issued with keywords or positionally in the documented order (vlib/callforms.py)
from vlib import callforms as _cf
lentil = _cf.proxy(lentil)

RULE = ("smooth (Gaussian, sigma >= 3 samples) amplitude and OPD maps on 24..48-sample arrays of either parity, "
        "square or not, monolithic or 2-4 segment masks; scale factors from {0.5, 0.75, 1, 1.25, 1.5, 2, 2.5, 3, 4} "
        "and U(0.5, 4) kept away from values where n*s is an integer up to rounding; resample with drawn target "
        "pixel scales; non-trivial = s != 1; distinct = distinct canonical descriptors")
ASSUMPTIONS = [
    "'to interpolation accuracy' is decided at 2 % of the input power and 3 % of the peak image intensity (hard-edged 3-sigma segment masks resampled by nearest neighbour reach 1.4 %) (dropping the 1/s "
    "factor is an error of s^2-1 >= 56 %, a wrong pixel scale rescales the image by s)",
    "bookkeeping (pixel scale, sample counts, binary mask, untouched original, identity for s = 1) is exact",
]

SCALES = [0.5, 0.75, 1.0, 1.25, 1.5, 2.0, 2.5, 3.0, 4.0, 1.002, 0.999, 1.0001, 1.01, 1.6]


@st.composite
def plane_case(draw, tier):
    hi = 40 if tier == "quick" else 48
    nseg = draw(st.sampled_from([0, 0, 2, 3, 4]))
    # segmented apertures need room for 2 x 2 discs of radius 3 sigma with sigma >= 3 samples
    shape = draw(gen.shape2(24, hi)) if nseg == 0 else draw(gen.shape2(40, 48))
    m, n = shape
    s = draw(st.sampled_from(SCALES)) if draw(st.booleans()) else draw(gen.finite(0.5, 4.0))
    k = draw(st.integers(0, 2**31 - 1))
    rng = np.random.default_rng(k)
    blobs = []
    if nseg == 0:
        sig = rng.uniform(3.0, min(m, n) / 8)
        blobs.append((m / 2 + rng.uniform(-1, 1), n / 2 + rng.uniform(-1, 1), sig))
    else:
        sig = 0.9 * min(m, n) / 4 / 3.0              # >= 3.0 for min(m, n) >= 40
        quad = [(m / 4, n / 4), (3 * m / 4, 3 * n / 4), (m / 4, 3 * n / 4), (3 * m / 4, n / 4)]
        for j in range(nseg):
            blobs.append((quad[j][0] + rng.uniform(-0.4, 0.4), quad[j][1] + rng.uniform(-0.4, 0.4), sig))
    # pixel scales from nanometres (sampled surfaces, detector-side planes) to decimetres
    ps = draw(gen.pos_log(1e-4, 1e-2)) if draw(st.booleans()) else draw(gen.pos_log(1e-9, 1e-1))
    via_resample = draw(st.sampled_from([False, False, True]))
    # rectangular samples (a per-axis pixel scale) are rescaled too; resample() refuses them (resample_refusals)
    ratio = 1.0 if via_resample else draw(st.sampled_from([1.0, 1.0, 1.0, 0.5, 2.0, 1.37]))
    return {"shape": list(shape), "scale": s, "nseg": nseg, "blobs": [list(b) for b in blobs], "seed": k,
            "pixelscale": ps, "ps_ratio": ratio, "opd_waves": draw(st.sampled_from([0.0, 0.05, 0.2])),
            "via_resample": via_resample, "cls": draw(st.sampled_from(["Pupil", "Plane"]))}


def build(case):
    m, n = case["shape"]
    yy, xx = np.mgrid[0:m, 0:n].astype(float)
    amp = np.zeros((m, n))
    masks = []
    for (r0, c0, sig) in case["blobs"]:
        g = np.exp(-((yy - r0) ** 2 + (xx - c0) ** 2) / (2 * sig ** 2))
        if case["nseg"] == 0:
            amp += g
        else:
            disc = ((yy - r0) ** 2 + (xx - c0) ** 2) <= (3.0 * sig) ** 2
            masks.append(disc.astype(int))
            amp += g * disc
    rng = np.random.default_rng(case["seed"])
    c = rng.normal(size=3)
    wl = 1e-6
    u, v = (yy - m / 2) / m, (xx - n / 2) / n
    opd = (c[0] * u * v + c[1] * u ** 2 + c[2] * v ** 2)
    opd = opd / max(np.max(np.abs(opd)), 1e-300) * case["opd_waves"] * wl
    if case["nseg"] == 0:
        mask = None
    else:
        mask = np.stack(masks)
        for i in range(len(masks)):
            for j in range(i + 1, len(masks)):
                if np.any(masks[i] & masks[j]):
                    return None
    return amp, opd, mask, wl


def make_plane(case, amp, opd, mask):
    lay = ["C", "F", "strided", "transposed_view"][case["seed"] % 4]
    ratio = case.get("ps_ratio", 1.0)
    kw = dict(amplitude=gen.relayout(amp.copy(), lay), opd=gen.relayout(opd.copy(), lay), mask=None if mask is None else mask.copy(),
              pixelscale=case["pixelscale"] if ratio == 1.0 else (case["pixelscale"], case["pixelscale"] * ratio))
    return lentil.Pupil(focal_length=10.0, **kw) if case["cls"] == "Pupil" else lentil.Plane(**kw)


def snapshot(p):
    return (np.asarray(p.amplitude).copy(), np.asarray(p.opd).copy(), np.asarray(p.mask).copy(), p.pixelscale)


@hyp("C17", "rescale", lambda tier: plane_case(tier),
     "Plane.rescale / resample: pixel scale divided by exactly s, ceil(n*s) samples, binary mask with the same "
     "segments, original untouched, identity for s = 1, power and propagated image preserved to 1 %, physical "
     "extent preserved to one sample", examples=(150, 600), budget_s=(200, 900))
def rescale(case, ctx):
    built = build(case)
    if built is None:
        raise Skip("overlapping_segment_discs")
    amp, opd, mask, wl = built
    m, n = case["shape"]
    s = case["scale"]
    for d in (m, n):
        if abs(d * s - round(d * s)) < 1e-6 and abs(d * s - round(d * s)) > 0:
            raise Skip("n*s_integer_up_to_rounding")
    ps = case["pixelscale"]
    ctx.tag("s<1" if s < 1 else ("s=1" if s == 1 else "s>1"), "noninteger_s" if s != round(s) else "integer_s",
            "odd" if m % 2 or n % 2 else "even", "nonsquare" if m != n else None,
            "segmented" if mask is not None else "monolithic", "resample" if case["via_resample"] else "rescale",
            case["cls"], f"ps:1e{int(np.floor(np.log10(ps)))}", "s_near_1" if 0 < abs(s - 1) < 0.02 else None)
    ctx.nontrivial_if(s != 1)
    with lentil_call("C17.build", "plane"):
        p = make_plane(case, amp, opd, mask)
    if case["seed"] % 3 == 0:
        # the plane has already been used (multiplied into a wavefront) before it is resampled
        ctx.tag("used_before")
        with lentil_call("C17.pre_use", "Wavefront * plane before rescaling"):
            lentil.Wavefront(wl) * p
    before = snapshot(p)
    with lentil_call("C17.rescale", f"{'resample' if case['via_resample'] else 'rescale'}(s={s})"):
        if case["via_resample"]:
            target = ps / s
            q = p.resample(target)
        else:
            # the factor as a Python number or an equal numpy scalar (int8..int64, float32, 0-d array) when exactly
            # representable
            s_arg = gen.typed_scalar(s, gen.SCALAR_TYPES[(case["seed"] + m) % len(gen.SCALAR_TYPES)])
            ctx.tag("scale_type:" + type(s_arg).__name__)
            q = p.rescale(s_arg)
    after = snapshot(p)
    for a, b in zip(before[:3], after[:3]):
        if not (a.shape == b.shape and a.dtype == b.dtype and np.array_equal(a, b)):
            raise Violation("C17.original_mutated", "rescale/resample changed the original plane")
    if before[3] != after[3] or q is p:
        raise Violation("C17.original_mutated", "rescale/resample changed the original plane's pixel scale / returned self")
    # bookkeeping
    s_eff = ps / (ps / s) if case["via_resample"] else s
    ps1 = ps * case.get("ps_ratio", 1.0)
    want_ps = (ps / s_eff, ps1 / s_eff)
    ctx.tag("rectangular_samples" if ps1 != ps else None)
    if tuple(q.pixelscale) != want_ps:
        raise Violation("C17.pixelscale", f"pixel scale {tuple(q.pixelscale)} != old/s = {want_ps} (s = {s_eff})")
    want_shape = (int(np.ceil(m * s_eff)), int(np.ceil(n * s_eff)))
    qa, qo, qm = np.asarray(q.amplitude), np.asarray(q.opd), np.asarray(q.mask)
    if qa.shape != want_shape or qo.shape != want_shape or qm.shape[-2:] != want_shape:
        raise Violation("C17.shape", f"arrays {qa.shape}/{qo.shape}/{qm.shape}, expected ceil(n*s) = {want_shape}")
    if not np.all((qm == 0) | (qm == 1)):
        raise Violation("C17.mask.binary", "rescaled mask is not binary")
    if mask is not None:
        if qm.ndim != 3 or qm.shape[0] != mask.shape[0] or any(not seg.any() for seg in qm):
            raise Violation("C17.mask.segments", f"segment structure lost: mask shape {qm.shape} from {mask.shape}")
    elif qm.ndim != 2:
        raise Violation("C17.mask.segments", f"monolithic mask became {qm.ndim}-D")
    if abs(want_ps[0] * want_shape[0] - ps * m) > want_ps[0] * (1 + 1e-9) or \
            abs(want_ps[1] * want_shape[1] - ps1 * n) > want_ps[1] * (1 + 1e-9):
        raise Violation("C17.extent", "physical extent changed by more than one sample")
    if q.ptype != p.ptype or (case["cls"] == "Pupil" and q.focal_length != p.focal_length):
        raise Violation("C17.meta", "plane type / focal length changed")
    if s == 1 and not case["via_resample"]:
        if not (np.allclose(qa, amp, rtol=0, atol=1e-12 * np.max(amp)) and np.allclose(qo, opd, rtol=0, atol=1e-12 * (np.max(np.abs(opd)) + 1e-300))
                and np.array_equal(qm != 0, np.asarray(p.mask) != 0)):
            raise Violation("C17.identity", "rescale(1) is not the identity")
    # optics: transmitted power and image at a fixed output sampling
    P0, P1 = float(np.sum(amp ** 2)), float(np.sum(np.abs(qa) ** 2))
    if abs(P1 - P0) > 0.02 * P0:
        raise Violation("C17.power", f"transmitted power {P1:.6g} after rescale(s={s_eff:.4g}) vs {P0:.6g} before "
                                     f"({(P1 / P0 - 1) * 100:.2f} %)")
    if case["cls"] == "Pupil":
        # output sampling chosen so that the image of the original is well resolved: alpha*n = 0.35
        du = 0.35 / max(m, n) * wl * 10.0 / ps
        if ps1 != ps:
            du = (du, 0.35 / max(m, n) * wl * 10.0 / ps1)          # the same alpha on both axes
        with lentil_call("C17.image", "propagate original and rescaled"):
            I0 = lentil.propagate_dft(lentil.Wavefront(wl) * p, pixelscale=du, shape=(16, 16), oversample=1).intensity
            I1 = lentil.propagate_dft(lentil.Wavefront(wl) * q, pixelscale=du, shape=(16, 16), oversample=1).intensity
        if np.max(np.abs(I1 - I0)) > 0.03 * np.max(I0):
            raise Violation("C17.image", f"propagated image changed by {np.max(np.abs(I1 - I0)) / np.max(I0) * 100:.2f} % "
                                         f"of its peak after rescale(s={s_eff:.4g})")
    # aftermath: the rescaled plane is an independent object - working on it in place (fitting its tilt, editing its
    # arrays) leaves the original untouched, and the other way round
    p_state = (snapshot(p), len(p.tilt))
    with lentil_call("C17.aftermath", "in-place work on the rescaled plane"):
        q.fit_tilt(inplace=True)
        if np.ndim(q.opd) == 2 and q.opd.flags.writeable:
            q.opd[0, 0] += 1e-9
        if np.ndim(q.amplitude) == 2 and q.amplitude.flags.writeable:
            q.amplitude[-1, -1] *= 0.5
    now = (snapshot(p), len(p.tilt))
    if now[1] != p_state[1] or any(not np.array_equal(a, b) for a, b in zip(now[0][:3], p_state[0][:3])):
        raise Violation("C17.original_mutated", f"in-place work on the rescaled plane changed the original (tilt entries "
                                                f"{p_state[1]} -> {now[1]})")
    nq = len(q.tilt)
    with lentil_call("C17.aftermath", "in-place work on the original plane"):
        p.fit_tilt(inplace=True)
    if len(q.tilt) != nq:
        raise Violation("C17.original_mutated", "fitting tilt on the original plane in place changed the rescaled plane's "
                                                "tilt list")


@st.composite
def refuse_case(draw, tier):
    return {"kind": draw(st.sampled_from(["nonuniform", "missing"])), "n": draw(st.integers(8, 20)),
            "ps": draw(gen.pos_log(1e-4, 1e-2)), "ratio": draw(st.sampled_from([0.5, 2.0, 1.0001]))}


@hyp("C17", "resample_refusals", lambda tier: refuse_case(tier),
     "resample of a non-uniformly sampled plane raises NotImplementedError, of a plane without pixel scale ValueError; "
     "the plane is left unchanged", examples=(60, 200))
def resample_refusals(case, ctx):
    n = case["n"]
    amp = np.ones((n, n))
    ctx.tag(case["kind"])
    ctx.nontrivial_if(True)
    if case["kind"] == "nonuniform":
        p = lentil.Plane(amplitude=amp, pixelscale=(case["ps"], case["ps"] * case["ratio"]))
        expect_raises("C17.resample.nonuniform", (NotImplementedError,), lambda: p.resample(case["ps"] / 2),
                      "resample of a non-uniformly sampled plane")
    else:
        p = lentil.Plane(amplitude=amp)
        expect_raises("C17.resample.missing", (ValueError,), lambda: p.resample(case["ps"]),
                      "resample of a plane without pixel scale")
    if not np.array_equal(np.asarray(p.amplitude), amp):
        raise Violation("C17.resample.refuse_mutates", "refused resample changed the plane")


# --- fine scans of the scale factor on one plane ---------------------------------------------------------------------

@hyp("C17", "scale_scan", lambda tier: st.fixed_dictionaries(
        {"shape": st.tuples(st.integers(16, 40), st.integers(16, 40)).map(list), "seed": st.integers(0, 2**31 - 1),
         "base": st.sampled_from([0.71, 1.26, 2.04, 1.0, 3.1, 0.5]), "steps": st.lists(st.integers(-6, 6), min_size=2, max_size=5),
         "via_resample": st.booleans(), "segmented": st.booleans()}),
     "one plane rescaled / resampled at a sequence of neighbouring scale factors (steps of 0.1 .. 2 % - several of them "
     "give the same ceil(n*s) array shape): every result is identical to what the same call returns when it is the "
     "first rescale after an unrelated one (the result depends on the plane and the factor, not on the previous "
     "call), and its transmitted power follows the factor", examples=(80, 300), budget_s=(150, 600))
def scale_scan(case, ctx):
    m, n = case["shape"]
    rng = np.random.default_rng(case["seed"])
    yy, xx = np.mgrid[0:m, 0:n].astype(float)
    sig = min(m, n) / 5.0
    amp = np.exp(-((yy - m / 2) ** 2 + (xx - n / 2) ** 2) / (2 * sig ** 2))
    c = rng.normal(size=3)
    opd = 5e-8 * (c[0] * (yy - m / 2) / m + c[1] * ((xx - n / 2) / n) ** 2 + c[2] * (yy - m / 2) * (xx - n / 2) / (m * n) + 0.3)
    mask = None
    if case["segmented"]:
        left = np.zeros((m, n), dtype=int)
        left[:, :n // 2] = 1
        mask = np.stack([left, 1 - left])
    ps = 7e-3
    with lentil_call("C17.scan.build", "plane"):
        p = lentil.Pupil(amplitude=amp.copy(), opd=opd.copy(), mask=None if mask is None else mask.copy(), pixelscale=ps, focal_length=5.0)
        other = lentil.Pupil(amplitude=np.ones((7, 9)), pixelscale=ps, focal_length=5.0)
    scales = [case["base"] * (1 + 0.003 * k) for k in case["steps"]]
    shapes = [(int(np.ceil(m * s_)), int(np.ceil(n * s_))) for s_ in scales]
    same_shape_neighbours = any(shapes[i] == shapes[i + 1] and scales[i] != scales[i + 1] for i in range(len(scales) - 1))
    ctx.tag("same_shape_neighbours" if same_shape_neighbours else "shapes_differ", "resample" if case["via_resample"] else "rescale",
            "segmented" if case["segmented"] else "monolithic", f"n_scales:{len(scales)}")
    ctx.nontrivial_if(same_shape_neighbours)

    def do(plane, s_):
        q = plane.resample(ps / s_) if case["via_resample"] else plane.rescale(s_)
        return (np.asarray(q.amplitude).copy(), np.asarray(q.opd).copy(), np.asarray(q.mask).copy(), tuple(q.pixelscale))

    with lentil_call("C17.scan.isolated", "each factor right after an unrelated rescale"):
        iso = []
        for s_ in scales:
            other.rescale(1.5)                       # an unrelated geometry in between
            iso.append(do(p, s_))
    with lentil_call("C17.scan.sequence", "the factors one after the other"):
        seq = [do(p, s_) for s_ in scales]
    # ... and each factor right after a SIBLING plane (one row or one column fewer, everything else alike) was rescaled by
    # the same factor: for s < 1 the sibling often maps to the same output shape
    sib_shape = (m - 1, n) if case["seed"] % 2 else (m, n - 1)
    with lentil_call("C17.scan.sibling", f"a {sib_shape} sibling plane rescaled first"):
        sibling = lentil.Pupil(amplitude=amp[:sib_shape[0], :sib_shape[1]].copy(), opd=opd[:sib_shape[0], :sib_shape[1]].copy(),
                               mask=None if mask is None else mask[:, :sib_shape[0], :sib_shape[1]].copy(), pixelscale=ps, focal_length=5.0)
        sib = []
        for s_ in scales:
            do(sibling, s_)
            sib.append(do(p, s_))
    for i, s_ in enumerate(scales):
        for name, a, b in zip(("amplitude", "opd", "mask"), iso[i][:3], sib[i][:3]):
            if a.shape != b.shape or not np.array_equal(a, b):
                raise Violation("C17.scan.history", f"rescale by {s_!r} of a {(m, n)} plane right after a {sib_shape} sibling plane was rescaled by "
                                                    f"the same factor gives another {name} than the same call after an unrelated rescale")
    P0 = float(np.sum(amp ** 2))
    for i, s_ in enumerate(scales):
        for name, a, b in zip(("amplitude", "opd", "mask"), iso[i][:3], seq[i][:3]):
            if a.shape != b.shape or not np.array_equal(a, b):
                d = float(np.max(np.abs(a - b))) if a.shape == b.shape else float("nan")
                raise Violation("C17.scan.history", f"{'resample' if case['via_resample'] else 'rescale'} by {s_!r} right after the same plane was "
                                                    f"rescaled by {scales[i - 1]!r} gives another {name} (max difference {d:.3e}) than the same "
                                                    f"call after an unrelated rescale (array shapes {a.shape} / {b.shape})")
        if iso[i][3] != seq[i][3]:
            raise Violation("C17.scan.history", f"pixel scale {seq[i][3]} vs {iso[i][3]} for the same call")
        P1 = float(np.sum(seq[i][0] ** 2))
        if abs(P1 - P0) > 0.02 * P0:
            raise Violation("C17.power", f"transmitted power {P1:.6g} after rescale(s={s_:.5g}) vs {P0:.6g} before")


# --- segments that share boundary samples -----------------------------------------------------------------------

@st.composite
def shared_case(draw, tier):
    m, n = shape = draw(gen.shape2(16, 30))
    yy, xx = np.mgrid[0:m, 0:n]
    rad = draw(gen.finite(0.3, 0.48))
    sup = (((yy - m / 2 + 0.5) / (rad * m)) ** 2 + ((xx - n / 2 + 0.5) / (rad * n)) ** 2 <= 1)
    kind = draw(st.sampled_from(["stripes_r", "stripes_c", "quadrants", "voronoi"]))
    k = draw(st.integers(2, 4))
    lab = np.zeros(shape, dtype=int)
    if kind == "stripes_r":
        lab = 1 + (yy * k // m)
    elif kind == "stripes_c":
        lab = 1 + (xx * k // n)
    elif kind == "quadrants":
        lab = 1 + (yy >= m // 2) * 2 + (xx >= n // 2)
        k = 4
    else:
        pts = [(draw(gen.finite(0.2, 0.8)) * m, draw(gen.finite(0.2, 0.8)) * n) for _ in range(k)]
        d = np.stack([(yy - a) ** 2 + (xx - b) ** 2 for a, b in pts])
        lab = 1 + np.argmin(d, axis=0)
    lab = lab * sup
    return {"shape": list(shape), "labels": lab, "kind": kind, "grow": draw(st.sampled_from([1, 1, 2])),
            "scale": draw(st.sampled_from([1, 1, 2, 0.5, 1.5, 3, 0.75, 1.3, 2.5])), "via_resample": draw(st.booleans()),
            "used_before": draw(st.booleans()), "seed": draw(st.integers(0, 2**31 - 1))}


@hyp("C17", "shared_samples", lambda tier: shared_case(tier),
     "segment masks that share boundary samples (abutting segments grown by 1-2 samples, as antialiased hexagon "
     "segments do): rescale(1) is the identity; for every factor the segment count, order and binarity are kept and "
     "each rescaled segment mask is what the same segment gives when it is the plane's only mask",
     examples=(150, 600), budget_s=(150, 600))
def shared_samples(case, ctx):
    lab = case["labels"]
    m, n = case["shape"]
    s = case["scale"]
    vals = [v for v in range(1, int(lab.max()) + 1) if np.count_nonzero(lab == v) >= 9]
    if len(vals) < 2:
        raise Skip("fewer_than_two_segments")
    sup = lab != 0
    segs = []
    for v in vals:
        b = lab == v
        for _ in range(case["grow"]):
            p_ = np.pad(b, 1)
            b = (p_[1:-1, 1:-1] | p_[:-2, 1:-1] | p_[2:, 1:-1] | p_[1:-1, :-2] | p_[1:-1, 2:]) & sup
        segs.append(b.astype(int))
    if not all(gen.has_block(sg, max(2, int(np.ceil(2 / s)) + 1)) for sg in segs):
        raise Skip("segment_not_resolved_on_the_new_grid")
    mask = np.stack(segs)
    shared = int(np.count_nonzero(mask.sum(axis=0) > 1))
    yy, xx = np.mgrid[0:m, 0:n]
    amp = np.exp(-((yy - m / 2) ** 2 + (xx - n / 2) ** 2) / (2 * (0.35 * max(m, n)) ** 2)) * sup
    ps = 2e-3
    ctx.tag("kind:" + case["kind"], f"k:{len(vals)}", f"s:{s}", "resample" if case["via_resample"] else "rescale",
            "shared>0" if shared else "disjoint", "used_before" if case["used_before"] else None)
    ctx.nontrivial_if(shared > 0)
    with lentil_call("C17.shared.build", f"Pupil with {len(vals)} segments sharing {shared} samples"):
        p = lentil.Pupil(amplitude=amp.copy(), opd=np.zeros((m, n)), mask=mask.copy(), pixelscale=ps, focal_length=5.0)
        if case["used_before"]:
            lentil.Wavefront(1e-6) * p
    pm0 = np.asarray(p.mask).copy()
    with lentil_call("C17.shared.rescale", f"{'resample' if case['via_resample'] else 'rescale'}(s={s})"):
        q = p.resample(ps / s) if case["via_resample"] else p.rescale(s)
    qm = np.asarray(q.mask)
    want = (int(np.ceil(m * s)), int(np.ceil(n * s)))
    if qm.ndim != 3 or qm.shape[0] != len(vals) or qm.shape[1:] != want:
        raise Violation("C17.shared.structure", f"mask of shape {qm.shape} after rescale(s={s}) of a {mask.shape} segmented mask")
    if not np.all((qm == 0) | (qm == 1)):
        raise Violation("C17.shared.binary", "rescaled mask is not binary")
    if not np.array_equal(np.asarray(p.mask), pm0):
        raise Violation("C17.original_mutated", "rescale changed the original plane's mask")
    if s == 1 and not np.array_equal(qm != 0, pm0 != 0):
        raise Violation("C17.shared.identity", f"rescale(1) changed {int(np.count_nonzero((qm != 0) != (pm0 != 0)))} mask samples of a plane "
                                               f"whose {len(vals)} segments share {shared} samples")
    # each segment on its own
    for i, sg in enumerate(segs):
        with lentil_call("C17.shared.alone", f"segment {i} as the only mask"):
            one = lentil.Pupil(amplitude=amp.copy(), opd=np.zeros((m, n)), mask=sg.copy(), pixelscale=ps, focal_length=5.0)
            qo = np.asarray((one.resample(ps / s) if case["via_resample"] else one.rescale(s)).mask)
        if not np.array_equal(qm[i] != 0, qo != 0):
            raise Violation("C17.shared.segment", f"segment {i} of {len(vals)} after rescale(s={s}) differs in "
                                                  f"{int(np.count_nonzero((qm[i] != 0) != (qo != 0)))} samples from the same segment rescaled "
                                                  f"as a plane's only mask ({shared} samples shared between segments)")


# --- planes with hundreds of segments ---------------------------------------------------------------------------

@hyp("C17", "many_segments", lambda tier: st.fixed_dictionaries(
        {"rows": st.integers(12, 20), "cols": st.integers(13, 22), "seg": st.integers(3, 4),
         "scale": st.sampled_from([1, 2, 1.5, 3]), "via_resample": st.booleans(), "seed": st.integers(0, 2**31 - 1)}),
     "a raster of 156..440 square segments (one mask slice each): rescale / resample keeps every segment, binary, "
     "non-empty and in order, with the pixel scale divided by s and ceil(n*s) samples", examples=(6, 30), budget_s=(150, 600))
def many_segments(case, ctx):
    R, C, g = case["rows"], case["cols"], case["seg"]
    nseg = R * C
    pitch = g + 1
    m, n = R * pitch + 1, C * pitch + 1
    mask = np.zeros((nseg, m, n), dtype=int)
    k = 0
    for i in range(R):
        for j in range(C):
            mask[k, 1 + i * pitch:1 + i * pitch + g, 1 + j * pitch:1 + j * pitch + g] = 1
            k += 1
    yy, xx = np.mgrid[0:m, 0:n]
    amp = np.exp(-((yy - m / 2) ** 2 + (xx - n / 2) ** 2) / (2 * (0.4 * max(m, n)) ** 2)) * mask.sum(axis=0)
    s = case["scale"]
    ps = 1e-3
    ctx.tag(f"segments:{'>=256' if nseg >= 256 else '<256'}", f"s:{s}", "resample" if case["via_resample"] else "rescale")
    ctx.nontrivial_if(nseg >= 256)
    with lentil_call("C17.many.build", f"Pupil with {nseg} segments"):
        p = lentil.Pupil(amplitude=amp.copy(), opd=np.zeros((m, n)), mask=mask.copy(), pixelscale=ps, focal_length=5.0)
    with lentil_call("C17.many.rescale", f"{'resample' if case['via_resample'] else 'rescale'}(s={s}) of {nseg} segments"):
        q = p.resample(ps / s) if case["via_resample"] else p.rescale(s)
    qm = np.asarray(q.mask)
    want = (int(np.ceil(m * s)), int(np.ceil(n * s)))
    if qm.ndim != 3 or qm.shape[0] != nseg or qm.shape[1:] != want:
        raise Violation("C17.many.structure", f"mask of shape {qm.shape} after rescale(s={s}) of a {mask.shape} segmented mask "
                                              f"(expected {(nseg,) + want})")
    if not np.all((qm == 0) | (qm == 1)):
        raise Violation("C17.many.binary", "rescaled mask is not binary")
    empty = [i for i in range(nseg) if not qm[i].any()]
    if empty:
        raise Violation("C17.many.lost_segment", f"segments {empty[:5]}... of {nseg} are empty after rescale(s={s})")
    # every segment stays where it was (centre of its bounding box scales with s, to within a sample and a half)
    for i in (0, nseg // 3, 255 if nseg > 255 else nseg - 1, 256 if nseg > 256 else nseg - 1, nseg - 1):
        b0, b1 = gen.bbox(mask[i] != 0), gen.bbox(qm[i] != 0)
        c0 = ((b0[0] + b0[1]) / 2 * s, (b0[2] + b0[3]) / 2 * s)
        c1 = ((b1[0] + b1[1]) / 2, (b1[2] + b1[3]) / 2)
        if abs(c0[0] - c1[0]) > 1.5 + s or abs(c0[1] - c1[1]) > 1.5 + s:
            raise Violation("C17.many.order", f"segment {i} of {nseg} moved from {c0} (scaled) to {c1} after rescale(s={s})")
    if tuple(q.pixelscale) != (ps / s, ps / s):
        raise Violation("C17.many.pixelscale", f"pixel scale {tuple(q.pixelscale)} != {(ps / s, ps / s)}")
