"""C10 - calls are pure: no hidden mutation of inputs and no dependence on call history."""
import copy
import random
import warnings

import numpy as np
from hypothesis import strategies as st

import lentil
from lentil import detector, fourier
from lentil.radiometry import Spectrum
from vlib import gen
from vlib.runner import Skip, Violation, enum, hyp, lentil_call

# the check's own calls are issued with keywords or positionally in the documented order (vlib/callforms.py)
from vlib import callforms as _cf
lentil = _cf.proxy(lentil)
fourier = _cf.proxy(fourier, "fourier.")
detector = _cf.proxy(detector, "detector.")

RULE = ("(1) every public entry point of a registry (constructors, multiply, propagate, fit_tilt, rescale, dft2/"
        "idft2, detector / blur / zernike / wfe / util functions, Spectrum operations) called on seeded inputs with "
        "every caller-owned array and object snapshotted, then again with the arrays frozen read-only; (2) programs "
        "of 3-20 such calls on ONE shared set of arrays, planes, wavefront, spectra and frame; non-trivial = the call "
        "received an array/object that is read again afterwards; distinct = distinct canonical descriptors")
ASSUMPTIONS = [
    "documented in-place operations are excluded from the byte-identity requirement for their own target only: "
    "fit_tilt(inplace=True) on the plane, field/Wavefront.insert target, out=/scratch= buffers, Spectrum "
    "to/resample/crop/trim/pad/append",
    "repeated results are compared at 1e-12 relative (BLAS may round differently for differently aligned buffers)",
]


# ---------------------------------------------------------------------------------------------------
# snapshots

def snap(obj):
    if isinstance(obj, np.ndarray):
        return ("nd", obj.dtype.str, obj.shape, obj.tobytes())
    if isinstance(obj, Spectrum):
        return ("spectrum", snap(np.asarray(obj.wave)), snap(np.asarray(obj.value)), obj.waveunit, obj.valueunit)
    if isinstance(obj, lentil.Wavefront):
        ps = None if obj.pixelscale is None else tuple(float(v) for v in obj.pixelscale)
        return ("wavefront", str(obj.ptype), tuple(int(v) for v in obj.shape), obj.wavelength, ps, obj.focal_length,
                tuple((snap(f.data), tuple(int(v) for v in f.offset), len(f.tilt)) for f in obj.data))
    if isinstance(obj, lentil.Plane):
        tilts = tuple(tuple(float(np.ravel(v)[0]) for v in t.shift(xs=0, ys=0, z=1.0, wavelength=1e-6)) for t in obj.tilt)
        return ("plane", str(obj.ptype), snap(np.asarray(obj.amplitude)), snap(np.asarray(obj.opd)),
                snap(np.asarray(obj.mask)), obj.pixelscale, tilts, getattr(obj, "focal_length", None))
    if isinstance(obj, (list, tuple)):
        return tuple(snap(o) for o in obj)
    return ("py", repr(obj))


def freeze(obj):
    if isinstance(obj, np.ndarray):
        obj.setflags(write=False)
    elif isinstance(obj, (list, tuple)):
        for o in obj:
            freeze(o)


def result_key(r):
    """numeric content of a result for repeatability comparison"""
    if isinstance(r, np.ndarray):
        return [np.asarray(r, dtype=complex if np.iscomplexobj(r) else float)]
    if isinstance(r, lentil.Wavefront):
        return [f.data for f in r.data] + [np.asarray(r.shape, dtype=float)]
    if isinstance(r, lentil.Plane):
        derived = []
        for attr in ("pixelscale", "diameter", "shape", "size", "global_mask", "ptt_vector"):
            try:
                v = getattr(r, attr)
            except Exception:  # noqa: BLE001  (attribute undefined for this plane, e.g. no mask / no pixelscale)
                v = None
            derived.append(np.zeros(0) if v is None else np.asarray(v, dtype=float))
        return [np.asarray(r.amplitude, dtype=float), np.asarray(r.opd, dtype=float), np.asarray(r.mask, dtype=float)] + derived
    if isinstance(r, Spectrum):
        return [np.asarray(r.wave, dtype=float), np.asarray(r.value, dtype=float)]
    if isinstance(r, (tuple, list)):
        out = []
        for x in r:
            out.extend(result_key(x))
        return out
    if r is None:
        return []
    return [np.asarray(r, dtype=float)]


def same_result(a, b):
    ka, kb = result_key(a), result_key(b)
    if len(ka) != len(kb):
        return False
    for x, y in zip(ka, kb):
        if x.shape != y.shape:
            return False
        sc = max(float(np.max(np.abs(x))) if x.size else 0.0, 1e-300)
        if x.size and float(np.max(np.abs(x - y))) > 1e-12 * sc:
            return False
    return True


# ---------------------------------------------------------------------------------------------------
# shared world: caller-owned objects

class World:
    def __init__(self, seed, n=8, m=None, dxk=0):
        rng = np.random.default_rng(seed)
        m = m or n
        self.rng = rng
        # one world in three holds every caller array in the NON-native byte order (what astropy.io.fits hands back on a
        # little-endian machine): the same values, and just as much the caller's property
        self.other_endian = seed % 3 == 2
        E = gen.other_endian if self.other_endian else (lambda a: a)
        yy, xx = np.mgrid[0:n, 0:m]
        disc = ((yy - n / 2 + 0.5) ** 2 + (xx - m / 2 + 0.5) ** 2) <= (min(n, m) / 2 - 0.5) ** 2
        self.amp = E(rng.uniform(0.5, 1.5, size=(n, m)) * disc)
        self.mask = E(disc.astype(float) * 3.0)                    # non-binary mask: planes binarise their own copy
        self.imask = E(disc.astype(int))
        self.wl = 1e-6
        self.opd = E((rng.normal(size=(n, m)) * 0.05 + 0.2 * (yy - n / 2) / n - 0.1 * (xx - m / 2) / m) * self.wl * disc)
        labels = np.where(xx < m // 2, 1, 2) * disc
        self.cube = E(np.stack([(labels == 1).astype(float), (labels == 2).astype(float)]))
        # the sampling differs from case to case so that caches keyed on it start cold in every case
        self.dx, self.z = 1e-3 * (1 + dxk * 1e-6), 2.0
        self.du = 0.5 / max(n, m) * self.wl * self.z / self.dx
        self.pupil = lentil.Pupil(amplitude=self.amp, opd=self.opd, mask=self.mask, pixelscale=self.dx, focal_length=self.z)
        self.seg = lentil.Pupil(amplitude=self.amp, opd=self.opd, mask=self.cube, pixelscale=self.dx, focal_length=self.z)
        rect = np.zeros((n, m))
        rect[1:n - 2, m // 2 - 1:] = 1.0                                 # overlaps the disc only partially
        self.rect = E(rect)
        self.pupil2 = lentil.Pupil(amplitude=rect * 0.8, opd=self.opd * 0.7, mask=rect, pixelscale=self.dx, focal_length=self.z)
        self.wave0 = lentil.Wavefront(self.wl)                          # pristine: never used while building the world
        self.wpupil = lentil.Wavefront(self.wl) * self.pupil
        self.wtilt = lentil.Wavefront(self.wl, tilt=[2e-6, -1e-6]) * self.seg      # fields that already carry tilt
        self.wfit = lentil.Wavefront(self.wl) * self.seg.fit_tilt(inplace=False)
        self.out_mask = (rng.uniform(size=(6, 6)) < 0.6).astype(int)
        self.out_mask[2, 3] = 1
        self.out_mask = E(self.out_mask)
        self.f = E(rng.normal(size=(n, m)) + 1j * rng.normal(size=(n, m)))
        self.frame = E(rng.uniform(-50, 5000, size=(6, 8)))
        self.iframe = E(rng.integers(0, 4000, size=(6, 8)))
        self.cube_img = E(rng.uniform(0, 100, size=(3, 4, 6)))
        self.wave_nm = E(np.array([500.0, 600.0, 700.0]))
        self.s_um = Spectrum(np.linspace(0.3, 1.0, 9), rng.uniform(0.1, 1, size=9), waveunit="um")
        self.s_nm = Spectrum(np.linspace(350.0, 900.0, 12), rng.uniform(0.1, 1, size=12), waveunit="nm")
        self.s_dens = Spectrum(np.linspace(4000.0, 9000.0, 7), rng.uniform(1, 2, size=7), waveunit="angstrom", valueunit="photlam")
        self.gain = E(np.array([1e-9, 0.5]))
        self.pgain = E(rng.uniform(0.1, 1.0, size=(6, 8)))
        self.img = E(rng.uniform(0, 1, size=(5, 7)))
        self.rho, self.theta = lentil.zernike_coordinates(self.imask)
        self.coeffs = E(rng.normal(size=5))
        self.modes = np.array([4, 2, 6])
        # a second-order grism shared by all calls: lambda = 5e-3 d^2 + 1e-4 d + 650 nm (no root below 150 nm)
        self.dt2 = lentil.DispersiveTilt(trace=[2.0, 0.5, 0.0], dispersion=[5e-3, 1e-4, 6.5e-7])
        self.fbig = E(rng.normal(size=(96, 101)) + 1j * rng.normal(size=(96, 101)))     # a frame of ~1e4 samples

    def watched(self):
        return [self.amp, self.mask, self.imask, self.opd, self.cube, self.pupil, self.seg, self.wave0, self.wpupil,
                self.wtilt, self.wfit, self.rect, self.pupil2, self.out_mask, self.f, self.frame, self.iframe, self.cube_img, self.wave_nm, self.s_um, self.s_nm,
                self.s_dens, self.gain, self.pgain, self.img, self.rho, self.theta, self.coeffs, self.modes, self.dt2, self.fbig]

    def arrays(self):
        return [o for o in self.watched() if isinstance(o, np.ndarray)]


def _opd_scaled(w):
    return w.opd * 0.5


OPS = {
    # constructors
    "Plane(mask=)": lambda w, p: lentil.Plane(amplitude=w.amp, opd=w.opd, mask=w.mask, pixelscale=w.dx),
    "Pupil(mask=cube)": lambda w, p: lentil.Pupil(amplitude=w.amp, opd=w.opd, mask=w.cube, pixelscale=w.dx, focal_length=w.z),
    "Image(amplitude=)": lambda w, p: lentil.Image(amplitude=w.amp, mask=w.imask),
    "Pupil(int mask)": lambda w, p: lentil.Pupil(amplitude=w.amp, mask=w.imask, pixelscale=w.dx, focal_length=w.z),
    # multiply / propagate
    "multiply": lambda w, p: w.wave0 * w.pupil,
    "multiply_segmented": lambda w, p: w.wave0 * w.seg,
    "multiply_twice": lambda w, p: (w.wave0 * w.pupil) * w.pupil,
    "multiply_tilt": lambda w, p: w.wpupil * lentil.Tilt(x=1e-6, y=-2e-6),
    "multiply_tilt_on_tilted": lambda w, p: lentil.propagate_dft(w.wtilt * lentil.Tilt(x=1e-6, y=-2e-6), pixelscale=w.du, shape=(6, 6), oversample=1),
    "multiply_tilt_on_fitted": lambda w, p: lentil.propagate_dft(w.wfit * lentil.DispersiveTilt(trace=[0.5, 0.0], dispersion=[1e-3, 9e-7]), pixelscale=w.du, shape=(6, 6), oversample=1),
    "propagate_tilted": lambda w, p: lentil.propagate_dft(w.wtilt, pixelscale=w.du, shape=(6, 6), oversample=2),
    "propagate_dft": lambda w, p: lentil.propagate_dft(w.wpupil, pixelscale=w.du, shape=(6, 6), oversample=1 + p % 2),
    "propagate_dft_mask": lambda w, p: lentil.propagate_dft(w.wpupil, pixelscale=w.du, shape=(6, 6), oversample=1, mask=w.out_mask),
    "propagate_fft": lambda w, p: lentil.propagate_fft(w.wpupil, pixelscale=w.wl * w.z / (w.dx * 16), oversample=1),
    "wavefront.field": lambda w, p: w.wpupil.field,
    "wavefront.intensity": lambda w, p: w.wpupil.intensity,
    "fit_tilt_copy": lambda w, p: w.pupil.fit_tilt(inplace=False),
    "fit_tilt_copy_other_mask": lambda w, p: w.pupil2.fit_tilt(inplace=False),
    "ptt_vector": lambda w, p: w.pupil.ptt_vector,
    "ptt_vector_other_mask": lambda w, p: w.pupil2.ptt_vector,
    "ptt_vector_segmented": lambda w, p: w.seg.ptt_vector,
    "fit_tilt_copy_segmented": lambda w, p: w.seg.fit_tilt(inplace=False),
    "fit_then_propagate": lambda w, p: lentil.propagate_dft(w.wave0 * w.pupil.fit_tilt(), pixelscale=w.du, shape=(6, 6), oversample=2),
    "plane_attributes": lambda w, p: [np.asarray(getattr(pl, a), dtype=float) for pl in (w.pupil, w.pupil2, w.seg)
                                      for a in ("diameter", "shape", "size", "pixelscale", "global_mask", "ptt_vector")],
    "wavefront_attributes": lambda w, p: [w.wpupil.field, w.wpupil.intensity, w.wtilt.field, np.asarray(w.wtilt.shape, dtype=float)],
    # higher-order dispersion on one shared object, at in-band wavelengths and at two without a root
    "dispersive2_shift": lambda w, p: [np.asarray(v, dtype=float) for v in
                                       w.dt2.shift(wavelength=[5e-7, 6e-7, 7e-7, 8e-7, 1e-7, 1.2e-7][p % 6])],
    "dispersive2_multiply": lambda w, p: [np.asarray(v, dtype=float) for v in
                                          (w.wpupil * w.dt2).data[0].tilt[-1].shift(wavelength=[5.5e-7, 7.5e-7, 1e-7][p % 3])],
    # one geometry on a ~1e4-sample frame with a shift / offset stepping through consecutive integers
    "dft2_big_shift": lambda w, p: fourier.dft2(w.fbig, (0.004, 0.003), shape=(90, 95), shift=(float(p % 6 - 3), 0.0)),
    "dft2_big_offset": lambda w, p: fourier.dft2(w.fbig, (0.004, 0.003), shape=(90, 95), offset=(2, p % 6 - 3)),
    "rescale": lambda w, p: w.pupil.rescale([0.5, 1.5, 2.0][p % 3]),
    "resample": lambda w, p: w.pupil.resample(w.dx / 1.5),
    "plane.copy": lambda w, p: w.seg.copy(),
    # fourier
    "dft2": lambda w, p: fourier.dft2(w.f, (0.07, 0.11), shape=(5, 7), shift=(0.5 * (p % 3), -1.0), offset=(p % 4 - 2, 1)),
    "dft2_same_shape": lambda w, p: fourier.dft2(w.f, 1.0 / 9, shape=w.f.shape, offset=(p % 5, -(p % 3))),
    "idft2": lambda w, p: fourier.idft2(w.f, (1.0 / w.f.shape[0], 1.0 / w.f.shape[1])),
    # detector / blur
    "collect_charge_spectrum": lambda w, p: detector.collect_charge(w.cube_img, w.wave_nm, w.s_um, waveunit="nm"),
    "collect_charge_vector": lambda w, p: detector.collect_charge(w.cube_img, w.wave_nm, np.array([0.2, 0.5, 0.9])),
    "collect_charge_bayer": lambda w, p: detector.collect_charge_bayer(w.cube_img, w.wave_nm, w.s_um, w.s_nm, 0.3, "RGGB", oversample=1),
    "pixel": lambda w, p: detector.pixel(w.img, oversample=2),
    "pixelate": lambda w, p: detector.pixelate(np.kron(w.img, np.ones((2, 2))), 2),
    "adc": lambda w, p: detector.adc(w.frame, 0.25, saturation_capacity=3000, dtype=np.uint16),
    "adc_poly_int": lambda w, p: detector.adc(w.iframe, w.gain, saturation_capacity=2500),
    "adc_pixel_gain": lambda w, p: detector.adc(w.frame, w.pgain, saturation_capacity=1000.5),
    "shot_noise": lambda w, p: detector.shot_noise(np.abs(w.frame), seed=p),
    "shot_noise_gaussian": lambda w, p: detector.shot_noise(np.abs(w.frame) + 2000, method="gaussian", seed=p),
    "read_noise": lambda w, p: detector.read_noise(w.frame, 5.0, seed=p),
    "charge_diffusion": lambda w, p: detector.charge_diffusion(w.img, 0.7, oversample=1),
    "dark_current": lambda w, p: detector.dark_current(12.5, (4, 5), fpn_factor=0.2, seed=p),
    "jitter": lambda w, p: lentil.jitter(w.img, 1.2, oversample=2),
    "smear": lambda w, p: lentil.smear(w.img, 2.5, angle=30.0),
    # zernike / wfe
    "zernike": lambda w, p: lentil.zernike(w.imask, 5 + p % 6),
    "zernike_custom_coords": lambda w, p: lentil.zernike(w.cube[p % 2], 4 + p % 5, rho=w.rho, theta=w.theta),
    "zernike_compose": lambda w, p: lentil.zernike_compose(w.imask, w.coeffs),
    "zernike_basis": lambda w, p: lentil.zernike_basis(w.imask, w.modes, rho=w.rho, theta=w.theta),
    "zernike_fit": lambda w, p: lentil.zernike_fit(w.opd, w.imask, w.modes),
    "zernike_remove": lambda w, p: lentil.zernike_remove(w.opd, w.imask, w.modes),
    "zernike_coordinates": lambda w, p: lentil.zernike_coordinates(w.imask, shift=(0.5, -0.25), rotate=20.0),
    "power_spectrum": lambda w, p: lentil.power_spectrum(w.imask, 1e-3, 5e-8, 6.0, 3.0, seed=p),
    "translation_defocus": lambda w, p: lentil.translation_defocus(w.imask, 8.0, 1e-4),
    # util
    "pad": lambda w, p: lentil.pad(w.amp, (w.amp.shape[0] + 3, w.amp.shape[1] + 2)),
    "pad_cube": lambda w, p: lentil.pad(w.cube, (w.amp.shape[0] - 1, w.amp.shape[1] + 1)),
    "window": lambda w, p: lentil.window(w.amp, shape=(4, 4)),
    "boundary": lambda w, p: lentil.boundary(w.mask),
    "centroid": lambda w, p: lentil.centroid(w.amp),
    "rebin": lambda w, p: lentil.rebin(w.amp[:w.amp.shape[0] // 2 * 2, :w.amp.shape[1] // 2 * 2], 2),
    "util.rescale": lambda w, p: lentil.rescale(w.amp, 1.5),
    "util.rescale_int": lambda w, p: lentil.rescale(w.imask, 2.0, order=0),
    "normalize_power": lambda w, p: lentil.normalize_power(w.amp, 2.0),
    # spectrum
    "spectrum_add_mixed": lambda w, p: w.s_um + w.s_nm,
    "spectrum_mul": lambda w, p: w.s_nm * w.s_um,
    "spectrum_scalar": lambda w, p: w.s_um * 2.5,
    "spectrum_sample": lambda w, p: w.s_um.sample(w.wave_nm, waveunit="nm"),
    "spectrum_sample_density": lambda w, p: w.s_dens.sample(w.wave_nm, waveunit="nm"),
    "spectrum_bin": lambda w, p: w.s_um.bin(np.array([450.0, 550.0, 650.0]), interp_method="trapz", waveunit="nm"),
    "spectrum_bin_simps": lambda w, p: w.s_dens.bin(np.array([500.0, 600.0, 700.0]), waveunit="nm"),
    "spectrum_integrate": lambda w, p: w.s_nm.integrate(400.0, 800.0, method="trapz"),
    "spectrum_asarray": lambda w, p: w.s_dens.asarray(),
    "spectrum_copy": lambda w, p: w.s_um.copy(),
}
OP_NAMES = sorted(OPS)
SEEDED = {"shot_noise", "shot_noise_gaussian", "read_noise", "dark_current", "power_spectrum"}


def run_op(name, world, p):
    with warnings.catch_warnings():
        warnings.simplefilter("ignore")
        return OPS[name](world, p)


def diff_watch(before, world):
    names = ["amp", "mask", "imask", "opd", "cube", "pupil", "seg", "wave0", "wpupil", "wtilt", "wfit", "rect", "pupil2", "out_mask", "f", "frame",
             "iframe", "cube_img", "wave_nm", "s_um", "s_nm", "s_dens", "gain", "pgain", "img", "rho", "theta",
             "coeffs", "modes", "dt2", "fbig"]
    return [n for n, b, o in zip(names, before, world.watched()) if b != snap(o)]


# ---------------------------------------------------------------------------------------------------
# (1) single calls

@hyp("C10", "single_call", lambda tier: st.fixed_dictionaries(
        {"op": st.sampled_from(OP_NAMES), "seed": st.integers(0, 2**31 - 1), "p": st.integers(0, 11),
         "n": st.sampled_from([7, 8, 9]), "m": st.sampled_from([7, 8, 10]), "global_seed": st.integers(0, 2**31 - 1),
         "dxk": st.integers(0, 10**6)}),
     "one registry entry point on seeded inputs: all caller-owned arrays / planes / wavefronts / spectra "
     "byte-identical afterwards; the same call on frozen (read-only) arrays must not fail; repeating it gives the "
     "same result; seeded functions leave the global RNG alone", examples=(700, 3000), budget_s=(200, 900))
def single_call(case, ctx):
    name = case["op"]
    ctx.tag("op:" + name)
    ctx.nontrivial_if(True)
    world = World(case["seed"], case["n"], case["m"], case.get("dxk", 0))
    before = [snap(o) for o in world.watched()]
    np.random.seed(case["global_seed"])
    random.seed(case["global_seed"])
    g0 = (np.random.get_state()[1].copy(), np.random.get_state()[2], random.getstate())
    with lentil_call("C10.call", name):
        r1 = run_op(name, world, case["p"])
    changed = diff_watch(before, world)
    if changed:
        raise Violation("C10.mutation", f"{name} modified caller-owned object(s): {changed}")
    g1 = (np.random.get_state()[1], np.random.get_state()[2], random.getstate())
    if name in SEEDED and not (np.array_equal(g0[0], g1[0]) and g0[1] == g1[1] and g0[2] == g1[2]):
        raise Violation("C10.global_rng", f"{name}(seed=...) read or advanced the global random state")
    with lentil_call("C10.call", name + " (repeat)"):
        r2 = run_op(name, world, case["p"])
    if not same_result(r1, r2):
        raise Violation("C10.repeat", f"{name}: repeating the call with unchanged arguments gave a different result")
    # frozen pass: a write into any caller array now raises
    world2 = World(case["seed"], case["n"], case["m"], case.get("dxk", 0))
    for a in world2.arrays():
        a.setflags(write=False)
    try:
        with warnings.catch_warnings():
            warnings.simplefilter("ignore")
            r3 = OPS[name](world2, case["p"])
    except ValueError as e:
        if "read-only" in str(e) or "readonly" in str(e).replace("-", ""):
            raise Violation("C10.mutation.frozen", f"{name} writes into a caller-owned array (read-only arrays: {e})")
        raise Violation("C10.call.raised", f"{name} on read-only inputs raised ValueError: {e}")
    except Exception as e:  # noqa: BLE001
        raise Violation("C10.call.raised", f"{name} on read-only inputs raised {type(e).__name__}: {e}")
    if not same_result(r1, r3):
        raise Violation("C10.repeat", f"{name}: fresh identical inputs gave a different result")


def _enum_ops(tier):
    for name in OP_NAMES:
        for k, (n, m) in enumerate([(8, 8), (7, 10), (9, 7)]):
            for p in ((0, 5) if tier == "quick" else (0, 1, 2, 5, 7, 11)):
                yield {"op": name, "seed": 1000 + 17 * k + p, "p": p, "n": n, "m": m, "global_seed": 5 + p,
                       "dxk": 7 * k + p}


@enum("C10", "all_ops", _enum_ops,
      "every registry entry point x 3 worlds (square / non-square) x 2 (quick) or 6 (thorough) parameter values",
      exhaustive_tiers=("quick", "thorough"))
def all_ops(case, ctx):
    single_call(case, ctx)


# ---------------------------------------------------------------------------------------------------
# (2) histories on shared objects

PROBES = ["dft2_big_shift", "dft2_big_offset", "dispersive2_shift", "rescale", "resample", "plane_attributes", "fit_tilt_copy_other_mask", "ptt_vector_other_mask", "fit_tilt_copy", "propagate_dft", "propagate_tilted", "multiply_tilt_on_fitted", "dft2", "dft2_same_shape", "spectrum_sample", "fit_then_propagate", "collect_charge_spectrum",
          "zernike_custom_coords", "adc", "multiply_segmented"]


@hyp("C10", "history", lambda tier: st.fixed_dictionaries(
        {"seed": st.integers(0, 2**31 - 1), "n": st.sampled_from([7, 8]), "m": st.sampled_from([8, 9]),
         "steps": st.lists(st.tuples(st.sampled_from(OP_NAMES), st.integers(0, 11)), min_size=3,
                           max_size=12 if tier == "quick" else 20),
         "probe_p": st.integers(0, 11), "dxk": st.integers(0, 10**6),
         # the probes whose result is taken BEFORE the history (on the cold world) and compared afterwards: a drawn
         # ordered subset, so that one probe's baseline is not always preceded by the same other probes
         "probes": st.lists(st.sampled_from(PROBES), min_size=1, max_size=4, unique=True)}),
     "programs of 3-20 registry calls on ONE shared world: after every call all shared objects are byte-identical, "
     "and a fixed set of probe calls gives the same result before and after the history", examples=(250, 1000),
     budget_s=(200, 900))
def history(case, ctx):
    world = World(case["seed"], case["n"], case["m"], case.get("dxk", 0))
    before = [snap(o) for o in world.watched()]
    base = {}
    probes = case.get("probes") or PROBES
    for pr in probes:
        with lentil_call("C10.history.probe", pr):
            base[pr] = run_op(pr, world, case["probe_p"])
    names = [s[0] for s in case["steps"]]
    ctx.tag(f"steps:{len(names)}", "repeat_same_shape_dft" if names.count("dft2_same_shape") + names.count("dft2") >= 2 else None,
            "has_fit" if any("fit" in n for n in names) else None, "has_spectrum" if any("spectrum" in n for n in names) else None)
    ctx.nontrivial_if(len(set(names)) >= 2)
    for i, (name, p) in enumerate(case["steps"]):
        with lentil_call("C10.history.call", f"step {i} {name}"):
            run_op(name, world, p)
        changed = diff_watch(before, world)
        if changed:
            raise Violation("C10.history.mutation", f"step {i} ({name}) modified shared object(s) {changed} "
                                                    f"[history: {' > '.join(names[:i + 1])}]")
    for pr in probes:
        with lentil_call("C10.history.probe", pr + " (after)"):
            again = run_op(pr, world, case["probe_p"])
        if not same_result(base[pr], again):
            raise Violation("C10.history.result", f"{pr} gives a different result after the history "
                                                  f"[{' > '.join(names)}] (baseline probes taken first: {probes})")


# ---------------------------------------------------------------------------------------------------
# (3) equivalent update / fit sequences

@st.composite
def paths_case(draw, tier):
    return {"seed": draw(st.integers(0, 2**31 - 1)), "n": draw(st.sampled_from([8, 9, 10])),
            "segmented": draw(st.booleans()),
            "ramps": [[draw(gen.finite(-3e-6, 3e-6)), draw(gen.finite(-3e-6, 3e-6))] for _ in range(draw(st.integers(2, 4)))],
            "fit_after": draw(st.lists(st.booleans(), min_size=4, max_size=4)), "inplace": draw(st.booleans())}


@hyp("C10", "equivalent_paths", lambda tier: paths_case(tier),
     "the same effective OPD reached (a) in one update followed by one fit_tilt and (b) by several updates with "
     "fits in between gives the same propagated field", examples=(250, 1000), budget_s=(150, 900))
def equivalent_paths(case, ctx):
    w = World(case["seed"], case["n"])
    n = case["n"]
    yy, xx = np.mgrid[0:n, 0:n]
    r = (yy - n // 2) * w.dx
    c = (xx - n // 2) * w.dx
    support = w.imask
    mask = w.cube if case["segmented"] else w.imask
    ramps = [(r * tx - c * ty) * support for tx, ty in case["ramps"]]
    ctx.tag("segmented" if case["segmented"] else "monolithic", f"updates:{len(ramps)}",
            f"fits:{1 + sum(case['fit_after'][:len(ramps) - 1])}", "inplace" if case["inplace"] else "copy")
    ctx.nontrivial_if(any(case["fit_after"][:len(ramps) - 1]))

    def fit(p):
        if case["inplace"]:
            p.fit_tilt(inplace=True)
            return p
        return p.fit_tilt(inplace=False)

    with lentil_call("C10.paths", "path a"):
        pa = lentil.Pupil(amplitude=w.amp.copy(), opd=w.opd + sum(ramps), mask=mask.copy(), pixelscale=w.dx, focal_length=w.z)
        pa = fit(pa)
        fa = lentil.propagate_dft(lentil.Wavefront(w.wl) * pa, pixelscale=w.du, shape=(16, 16), oversample=1)
    with lentil_call("C10.paths", "path b"):
        pb = lentil.Pupil(amplitude=w.amp.copy(), opd=w.opd.copy(), mask=mask.copy(), pixelscale=w.dx, focal_length=w.z)
        for i, rp in enumerate(ramps):
            pb.opd = np.asarray(pb.opd) + rp
            if i < len(ramps) - 1 and case["fit_after"][i]:
                pb = fit(pb)
        pb = fit(pb)
        fb = lentil.propagate_dft(lentil.Wavefront(w.wl) * pb, pixelscale=w.du, shape=(16, 16), oversample=1)
    ea = sorted((tuple(int(v) for v in f.offset), f.data.shape) for f in fa.data)
    eb = sorted((tuple(int(v) for v in f.offset), f.data.shape) for f in fb.data)
    if ea != eb:
        # the integer part of the displacement is decided by rounding when it falls on a sample boundary
        raise Skip("window_positions_differ_by_rounding")
    A, B = fa.field, fb.field
    peak = max(float(np.max(np.abs(A))), 1e-300)
    if float(np.max(np.abs(A - B))) > 1e-8 * peak:
        raise Violation("C10.paths.result", f"two update/fit sequences reaching the same plane state give fields that "
                                            f"differ by {float(np.max(np.abs(A - B))) / peak:.3e} of the peak "
                                            f"(fits after updates {case['fit_after'][:len(ramps) - 1]})")


# ---------------------------------------------------------------------------------------------------
# (3b) tilt elements whose public coefficients are edited between evaluations

@hyp("C10", "attribute_paths", lambda tier: st.fixed_dictionaries(
        {"kind": st.sampled_from(["dispersive1", "dispersive2", "dispersive2", "dispersive3", "tilt"]),
         "edits": st.lists(st.tuples(st.sampled_from(["assign_dispersion", "inplace_dispersion", "assign_trace", "inplace_trace",
                                                      "revert", "evaluate_elsewhere"]),
                                     st.integers(0, 5), st.floats(-1.0, 1.0)), min_size=1, max_size=5),
         "wl": st.sampled_from([5e-7, 5.5e-7, 6e-7, 6.5e-7, 7e-7, 8e-7]), "via": st.sampled_from(["shift", "field_tilt", "both"])}),
     "a dispersive element (orders 1-3) or a Tilt plane is evaluated, its public coefficients (trace, dispersion / x, y) "
     "are assigned or edited in place (same polynomial order), and it is evaluated again at the SAME wavelength - directly "
     "and through the tilt list of a wavefront that passed it: every evaluation equals that of a freshly constructed "
     "element holding the current coefficients", examples=(300, 1200), budget_s=(150, 600))
def attribute_paths(case, ctx):
    kind, wl = case["kind"], case["wl"]
    trace0 = {"dispersive1": [1.5, 0.0], "dispersive2": [2.0, 0.5, 0.0], "dispersive3": [0.8, 0.0], "tilt": None}[kind]
    disp0 = {"dispersive1": [1e-3, 6.5e-7], "dispersive2": [5e-3, 1e-4, 6.5e-7], "dispersive3": [2e-2, 4e-3, 1.2e-4, 6.5e-7],
             "tilt": None}[kind]
    ctx.tag("kind:" + kind, "via:" + case["via"], *sorted({"edit:" + e[0] for e in case["edits"]}))
    ctx.nontrivial_if(any(e[0] not in ("revert", "evaluate_elsewhere") for e in case["edits"]))

    def build(tr, di, xy):
        if kind == "tilt":
            return lentil.Tilt(x=xy[0], y=xy[1])
        return lentil.DispersiveTilt(trace=list(tr), dispersion=list(di))

    def evaluate(obj, lam):
        out = []
        if case["via"] in ("shift", "both"):
            out.append(np.asarray(obj.shift(wavelength=lam, xs=0.0, ys=0.0) if kind != "tilt" else obj.shift(xs=0.0, ys=0.0, z=2.0, wavelength=lam),
                                  dtype=float).ravel())
        if case["via"] in ("field_tilt", "both"):
            wf = lentil.Wavefront(lam) * lentil.Pupil(amplitude=np.ones((4, 4)), pixelscale=1e-3, focal_length=2.0) * obj
            t = wf.data[0].tilt[-1]
            out.append(np.asarray(t.shift(wavelength=lam, xs=0.0, ys=0.0) if kind != "tilt" else t.shift(xs=0.0, ys=0.0, z=2.0, wavelength=lam),
                                  dtype=float).ravel())
        return np.concatenate(out)

    tr, di, xy = (list(trace0) if trace0 else None), (list(disp0) if disp0 else None), [1e-6, -2e-6]
    with lentil_call("C10.attr.build", kind):
        obj = build(tr, di, xy)
        first = evaluate(obj, wl)
        fresh0 = evaluate(build(tr, di, xy), wl)
    if not np.allclose(first, fresh0, rtol=1e-9, atol=1e-15):
        raise Violation("C10.attr.fresh", f"two freshly built {kind} elements evaluate differently at {wl}: {first} vs {fresh0}")
    done = []
    for name, k, x in case["edits"]:
        with lentil_call("C10.attr.edit", f"{name} after [{' '.join(done)}]"):
            if name == "revert":
                tr, di, xy = (list(trace0) if trace0 else None), (list(disp0) if disp0 else None), [1e-6, -2e-6]
                if kind == "tilt":
                    obj.x, obj.y = lentil.Tilt(x=xy[0], y=xy[1]).x, lentil.Tilt(x=xy[0], y=xy[1]).y
                else:
                    obj.trace, obj.dispersion = np.asarray(tr, dtype=float), np.asarray(di, dtype=float)
            elif name == "evaluate_elsewhere":
                evaluate(obj, [5.2e-7, 7.3e-7, 6.1e-7][k % 3])
            elif kind == "tilt":
                xy = [xy[0] + 1e-6 * x, xy[1] - 0.5e-6 * x] if "dispersion" in name else [xy[1], xy[0] * (1 + 0.1 * x)]
                ref = lentil.Tilt(x=xy[0], y=xy[1])
                obj.x, obj.y = ref.x, ref.y
            elif "dispersion" in name:
                j = k % len(di)
                di = list(di)
                # small changes that keep the reference wavelength in band (a root exists on either side)
                di[j] = di[j] * (1 + 0.05 * x) if j < len(di) - 1 else di[j] + 2e-8 * x
                if name.startswith("assign"):
                    obj.dispersion = np.asarray(di, dtype=float)
                else:
                    if not np.issubdtype(np.asarray(obj.dispersion).dtype, np.floating):
                        obj.dispersion = np.asarray(obj.dispersion, dtype=float)
                    obj.dispersion[j] = di[j]
            else:
                j = k % len(tr)
                tr = list(tr)
                tr[j] = tr[j] * (1 + 0.2 * x) + (0.1 * x if j == len(tr) - 1 else 0.0)
                if name.startswith("assign"):
                    obj.trace = np.asarray(tr, dtype=float)
                else:
                    if not np.issubdtype(np.asarray(obj.trace).dtype, np.floating):
                        obj.trace = np.asarray(obj.trace, dtype=float)
                    obj.trace[j] = tr[j]
        done.append(name)
        with lentil_call("C10.attr.evaluate", f"evaluation at {wl} after [{' '.join(done)}]"):
            got = evaluate(obj, wl)
            want = evaluate(build(tr, di, xy), wl)
        if got.shape != want.shape or not np.allclose(got, want, rtol=1e-7, atol=1e-13):
            raise Violation("C10.attr.stale", f"{kind} evaluated at {wl} after [{' '.join(done)}] gives {got.tolist()}, a freshly built "
                                              f"element with the current coefficients (trace {tr}, dispersion {di}, x/y {xy}) gives "
                                              f"{want.tolist()}")


# ---------------------------------------------------------------------------------------------------
# (3c) spectra whose arrays are edited in place between uses

@hyp("C10", "spectrum_paths", lambda tier: st.fixed_dictionaries(
        {"n": st.integers(5, 12), "seed": st.integers(0, 2**31 - 1), "unit": st.sampled_from(["nm", "um", "angstrom"]),
         "call_unit": st.sampled_from(["nm", "um", "m", "angstrom"]), "method": st.sampled_from(["linear", "linear", "quadratic", "cubic"]),
         "edits": st.lists(st.tuples(st.sampled_from(["value_inplace", "value_caller", "value_fill", "wave_shift_inplace", "wave_scale_caller",
                                                      "assign_value", "use_elsewhere"]),
                                     st.integers(0, 11), st.floats(0.05, 1.0)), min_size=1, max_size=5)}),
     "a Spectrum is sampled / used as a quantum efficiency / multiplied, then its value or wavelength ARRAY is edited in "
     "place (through the attribute or through the array the caller handed to the constructor), then it is used again "
     "with the same arguments - in its own unit and in another one: every use equals that of a freshly built Spectrum "
     "holding the current numbers", examples=(300, 1200), budget_s=(150, 600))
def spectrum_paths(case, ctx):
    n = case["n"]
    rng = np.random.default_rng(case["seed"])
    f_nm = {"nm": 1.0, "um": 1e-3, "angstrom": 10.0, "m": 1e-9}
    w = (400.0 + 40.0 * np.arange(n) + rng.uniform(0, 10, size=n)) * f_nm[case["unit"]]
    v = rng.uniform(0.1, 1.0, size=n)
    q_nm = np.array([430.0, 515.5, 610.0, 400.0 + 40.0 * (n - 1) - 7.0])
    cube = rng.uniform(0, 100, size=(len(q_nm), 3, 4))
    ctx.tag("unit:" + case["unit"], "call_unit:" + case["call_unit"], "foreign_unit" if case["unit"] != case["call_unit"] else "own_unit",
            *sorted({"edit:" + e[0] for e in case["edits"]}))
    ctx.nontrivial_if(any(e[0] not in ("use_elsewhere",) for e in case["edits"]))
    with lentil_call("C10.spectrum.build", "Spectrum"):
        sp = Spectrum(w, v, waveunit=case["unit"])

    def evaluate(x):
        q = q_nm * f_nm[case["call_unit"]]
        a = np.asarray(x.sample(q, method=case["method"], waveunit=case["call_unit"]), dtype=float)
        b = np.asarray(detector.collect_charge(cube, q, x, waveunit=case["call_unit"]), dtype=float).ravel()
        c = np.asarray((x * Spectrum(np.asarray(x.wave).copy(), np.ones(len(np.asarray(x.wave))), waveunit=x.waveunit)).value, dtype=float)
        return np.concatenate([a, b, c])

    def fresh():
        return Spectrum(np.array(sp.wave, dtype=float, copy=True), np.array(sp.value, dtype=float, copy=True), waveunit=sp.waveunit)

    done = []
    with lentil_call("C10.spectrum.use", "first use"):
        evaluate(sp)
    for name, k, x in case["edits"]:
        i = k % n
        with lentil_call("C10.spectrum.edit", f"{name} after [{' '.join(done)}]"):
            if name == "value_inplace":
                sp.value[i] = x
            elif name == "value_caller":
                v[i] = 1.5 * x
            elif name == "value_fill":
                sp.value[...] = rng.uniform(0.1, 1.0, size=len(np.asarray(sp.value)))
            elif name == "wave_shift_inplace":
                np.add(sp.wave, 20.0 * x * f_nm[case["unit"]], out=sp.wave)
            elif name == "wave_scale_caller":
                w *= 1.0 + 0.05 * x
            elif name == "assign_value":
                sp.value = rng.uniform(0.1, 1.0, size=len(np.asarray(sp.value)))
            else:
                evaluate(Spectrum(np.linspace(300.0, 900.0, 7), np.ones(7), waveunit="nm"))
        done.append(name)
        with lentil_call("C10.spectrum.use", f"use after [{' '.join(done)}]"):
            got = evaluate(sp)
            want = evaluate(fresh())
        if got.shape != want.shape or not np.allclose(got, want, rtol=1e-10, atol=1e-12 * float(np.max(np.abs(want)) + 1e-300)):
            j = int(np.argmax(np.abs(got - want))) if got.shape == want.shape else -1
            raise Violation("C10.spectrum.stale", f"a Spectrum ({case['unit']}) used in {case['call_unit']} after [{' '.join(done)}] gives "
                                                  f"{got[j]:.9g} where a freshly built Spectrum with the current numbers gives {want[j]:.9g} "
                                                  f"(entry {j}: sample / collect_charge / product)")


# ---------------------------------------------------------------------------------------------------
# (4) objects derived from a plane are independent of later in-place work on it (and the other way round)

@hyp("C10", "derived_objects", lambda tier: st.fixed_dictionaries(
        {"seed": st.integers(0, 2**31 - 1), "n": st.sampled_from([8, 9, 10]), "segmented": st.booleans(),
         "prefit": st.booleans(), "steps": st.lists(st.sampled_from(["fit_inplace", "opd_assign", "opd_inplace",
                                                                     "amp_assign", "fit_inplace", "tilt_append"]),
                                                    min_size=1, max_size=5),
         "side": st.sampled_from(["source", "source", "derived"])}),
     "a wavefront, a copy, a rescaled plane and a fitted copy are derived from a plane (which may already carry fitted "
     "tilt); then the source plane (or each derived object) is worked on with the documented in-place operations: "
     "deep snapshots and propagated images of the other objects must not change", examples=(200, 800), budget_s=(150, 600))
def derived_objects(case, ctx):
    n = case["n"]
    rng = np.random.default_rng(case["seed"])
    yy, xx = np.mgrid[0:n, 0:n]
    disc = ((yy - n / 2 + 0.5) ** 2 + (xx - n / 2 + 0.5) ** 2) <= (n / 2 - 0.5) ** 2
    wl, dx, z = 1e-6, 1e-3, 2.0
    du = 0.5 / n * wl * z / dx
    amp = rng.uniform(0.5, 1.5, size=(n, n)) * disc
    opd = (rng.normal(size=(n, n)) * 0.03 + 0.3 * (yy - n / 2) / n - 0.2 * (xx - n / 2) / n) * wl * disc
    mask = np.stack([(xx < n // 2) * disc, (xx >= n // 2) * disc]).astype(int) if case["segmented"] else disc.astype(int)
    with lentil_call("C10.derived.build", "plane and derived objects"):
        src = lentil.Pupil(amplitude=amp.copy(), opd=opd.copy(), mask=mask.copy(), pixelscale=dx, focal_length=z)
        if case["prefit"]:
            src.fit_tilt(inplace=True)              # the plane already carries fitted tilt when objects are derived
        derived = {"wavefront": lentil.Wavefront(wl) * src, "copy": src.copy(), "rescaled": src.rescale(2),
                   "fitted_copy": src.fit_tilt(inplace=False)}

    def image(o):
        w = o if isinstance(o, lentil.Wavefront) else lentil.Wavefront(wl) * o
        ps = du if not (o is derived.get("rescaled")) else du
        return lentil.propagate_dft(w, pixelscale=ps, shape=(6, 6), oversample=1).field

    def work_on(p, step, k):
        if step == "fit_inplace":
            p.fit_tilt(inplace=True)
        elif step == "opd_assign":
            p.opd = np.asarray(p.opd) + 0.1 * wl * (np.arange(np.asarray(p.opd).shape[1])[None, :] - 3) / 8 * (np.asarray(p.mask).sum(axis=0) if np.asarray(p.mask).ndim == 3 else np.asarray(p.mask))
        elif step == "opd_inplace" and np.ndim(p.opd) == 2 and p.opd.flags.writeable:
            p.opd[k % p.opd.shape[0], :] += 0.05 * wl
        elif step == "amp_assign":
            p.amplitude = np.asarray(p.amplitude) * 0.9
        elif step == "tilt_append":
            p.tilt.append(lentil.Tilt(x=1e-6, y=2e-6))

    ctx.tag("segmented" if case["segmented"] else "monolithic", "prefit" if case["prefit"] else "no_prefit",
            "work_on:" + case["side"], *sorted({"step:" + s for s in case["steps"]}))
    ctx.nontrivial_if(True)
    if case["side"] == "source":
        before = {k: (snap(o), image(o)) for k, o in derived.items()}
        with lentil_call("C10.derived.work", "in-place work on the source plane"):
            for k, step in enumerate(case["steps"]):
                work_on(src, step, k)
        for k, o in derived.items():
            if snap(o) != before[k][0]:
                raise Violation("C10.derived.mutation", f"in-place work on a plane ({' '.join(case['steps'])}) changed the "
                                                        f"{k} derived from it earlier")
            with lentil_call("C10.derived.image", f"propagate {k}"):
                now = image(o)
            if now.shape != before[k][1].shape or np.max(np.abs(now - before[k][1])) > 1e-12 * max(np.max(np.abs(now)), 1e-300):
                raise Violation("C10.derived.result", f"the {k} derived from a plane propagates differently after in-place "
                                                      f"work on that plane ({' '.join(case['steps'])})")
    else:
        before = (snap(src), image(src))
        with lentil_call("C10.derived.work", "in-place work on the derived planes"):
            for name in ("copy", "rescaled", "fitted_copy"):
                for k, step in enumerate(case["steps"]):
                    work_on(derived[name], step, k)
        if snap(src) != before[0]:
            raise Violation("C10.derived.mutation", f"in-place work on planes derived from a plane (copy / rescale / fitted "
                                                    f"copy; {' '.join(case['steps'])}) changed the source plane")
        with lentil_call("C10.derived.image", "propagate the source plane"):
            now = image(src)
        if np.max(np.abs(now - before[1])) > 1e-12 * max(np.max(np.abs(now)), 1e-300):
            raise Violation("C10.derived.result", "the source plane propagates differently after in-place work on the objects "
                                                  "derived from it")


# ---------------------------------------------------------------------------------------------------
# (5) neighbouring calls: one geometry, one parameter stepping through consecutive integers

@hyp("C10", "neighbouring_calls", lambda tier: st.fixed_dictionaries(
        {"seed": st.integers(0, 2**31 - 1), "big": st.sampled_from([False, True, True]), "slot": st.sampled_from(["shift_r", "shift_c"]),
         "order": st.permutations([-3, -2, -1, 0, 1, 2]), "k": st.integers(0, 10**6)}),
     "dft2 called for one geometry with a shift stepping through consecutive integers in a drawn order: a result must "
     "not depend on which neighbours were computed before it - F(shift = v - 1)[k] == F(shift = v)[k + 1] for every pair "
     "of neighbours, whatever the call order", examples=(150, 600), budget_s=(120, 600))
def neighbouring_calls(case, ctx):
    rng = np.random.default_rng(case["seed"])
    shp = (96, 101) if case["big"] else (9, 11)
    out = (90, 95) if case["big"] else (10, 8)
    f = rng.normal(size=shp) + 1j * rng.normal(size=shp)
    # alpha differs from case to case (a cache keyed on it starts cold in every case)
    alpha = (0.004 * (1 + case["k"] * 1e-7), 0.003 * (1 + case["k"] * 1e-7)) if case["big"] else \
        (0.07 * (1 + case["k"] * 1e-7), 0.05 * (1 + case["k"] * 1e-7))
    ax = 0 if case["slot"] == "shift_r" else 1
    ctx.tag("big" if case["big"] else "small", case["slot"])
    ctx.nontrivial_if(True)
    res = {}
    for v in case["order"]:
        shift = [0.0, 0.0]
        shift[ax] = float(v)
        with lentil_call("C10.neighbours", f"dft2(shift={tuple(shift)}) after shifts {list(res)}"):
            res[v] = np.array(fourier.dft2(f, alpha, shape=out, shift=tuple(shift)))
    sc = max(float(np.max(np.abs(res[0]))), 1e-300)
    for v in range(-2, 3):
        a, b = res[v - 1], res[v]
        d = (a[:-1] - b[1:]) if ax == 0 else (a[:, :-1] - b[:, 1:])
        if float(np.max(np.abs(d))) > 1e-9 * sc:
            raise Violation("C10.neighbours.result", f"dft2 with shift {v} on axis {ax} is not the one-sample translate of "
                                                     f"the result with shift {v - 1} (call order {list(case['order'])}): a "
                                                     f"result depends on which calls came before it")
