"""C12 - Zernike fit, compose and remove are mutually inverse for any mode set."""
import numpy as np
from hypothesis import strategies as st

import lentil
from vlib import gen
from vlib.runner import Skip, Violation, hyp, lentil_call

# the check's own calls are issued with keywords or positionally in the documented order (vlib/callforms.py)
from vlib import callforms as _cf
lentil = _cf.proxy(lentil)

RULE = ("drawn masks (disc, ellipse, ring, two islands, blob; centred or not; even/odd/non-square arrays), 1-8 "
        "distinct modes from 1..36 in arbitrary order, drawn coefficients, both normalisations, default and "
        "caller-supplied (shifted/rotated) coordinates; non-trivial = the mode set is not 1..k in order; distinct = "
        "distinct canonical descriptors")
ASSUMPTIONS = [
    "mode sets whose basis restricted to the mask has condition number > 1e6 are discarded and counted",
    "tolerance cond * 256 * eps * scale",
]


@st.composite
def zmask(draw, tier):
    hi = 20 if tier == "quick" else 40
    shape = draw(gen.shape2(8, hi, big=0.02, big_pool=[64, 65, 100, 129]))
    m, n = shape
    rr, cc = np.mgrid[0:m, 0:n]
    kind = draw(st.sampled_from(["disc", "disc", "ellipse", "ring", "islands", "blob"]))
    r0 = m // 2 + draw(st.integers(-2, 2))
    c0 = n // 2 + draw(st.integers(-2, 2))
    rad = draw(gen.finite(2.5, max(2.6, min(m, n) / 2 - 1)))
    if kind == "disc":
        mask = (rr - r0) ** 2 + (cc - c0) ** 2 <= rad ** 2
    elif kind == "ellipse":
        e = draw(gen.finite(0.5, 1.0))
        mask = ((rr - r0) / e) ** 2 + (cc - c0) ** 2 <= rad ** 2
    elif kind == "ring":
        d2 = (rr - r0) ** 2 + (cc - c0) ** 2
        mask = (d2 <= rad ** 2) & (d2 >= (0.4 * rad) ** 2)
    elif kind == "islands":
        mask = ((rr - r0) ** 2 + (cc - (c0 - rad / 2)) ** 2 <= (rad / 2.2) ** 2) | \
               ((rr - r0) ** 2 + (cc - (c0 + rad / 2)) ** 2 <= (rad / 2.2) ** 2)
    else:
        mask = draw(gen.support_mask(shape, min_samples=12))
    if mask.sum() < 12:
        mask = (rr - m // 2) ** 2 + (cc - n // 2) ** 2 <= 9
    return mask.astype(int), kind


@st.composite
def fit_case(draw, tier):
    mask, kind = draw(zmask(tier))
    k = draw(st.integers(1, 8))
    pool = draw(st.sampled_from([10, 15, 36, 36, 200]))
    if pool == 200:
        k = min(k, 3)            # a few high-order modes (Noll indices beyond 64 / 128) on a small mask
    modes = draw(st.lists(st.integers(1, pool), min_size=k, max_size=k, unique=True))
    if draw(st.sampled_from([False, False, True])):
        modes = list(range(1, k + 1))
    coeffs = [draw(gen.finite(-5.0, 5.0)) for _ in modes]
    coords = draw(st.sampled_from(["default", "default", "custom"]))
    # membership in a zernike mask is "non-zero": the same support is also given as labels, weights, negative or
    # mixed-sign values
    form = draw(gen.mask_forms())
    mask = gen.apply_mask_form(mask, form, seed=int(mask.sum()) + k)
    return {"mask": mask, "mask_form": form, "kind": kind, "modes": modes, "coeffs": coeffs, "normalize": draw(st.booleans()),
            "coords": coords, "shift": [draw(gen.finite(-1.5, 1.5)), draw(gen.finite(-1.5, 1.5))],
            "rotate": draw(st.sampled_from([0, 30.0, 90, -45.0])), "noise_seed": draw(st.integers(0, 2**31 - 1)),
            "scalar_mode": draw(st.booleans())}


RHO_SCALES = [1.0, 1.0, 1.15, 1.3, 0.8]


def _coords(case):
    if case["coords"] == "default":
        return {}
    rho, theta = lentil.zernike_coordinates(case["mask"], shift=tuple(case["shift"]), rotate=case["rotate"])
    # coordinates normalised to another radius than the farthest masked sample (the circle inscribed in a hexagon, a
    # clear aperture smaller than the mask): rho reaches 1.15 .. 1.3 inside the mask, or stays below 0.8
    sc = RHO_SCALES[(int(case["mask"].shape[0]) + 2 * int(case["mask"].shape[1]) + len(case["modes"]) + int(abs(case["shift"][0]) * 8)) % len(RHO_SCALES)]
    if sc != 1.0:
        rho = rho * sc
    return {"rho": rho, "theta": theta}


def _basis(case, modes, kw, normalize):
    return np.array([np.asarray(lentil.zernike(case["mask"], int(j), normalize=normalize, **kw), dtype=float)
                     for j in modes])


def _setup(case, ctx):
    mask = case["mask"]
    modes = case["modes"]
    with lentil_call("C12.basis", "zernike / zernike_coordinates"):
        kw = _coords(case)
        B = _basis(case, modes, kw, case["normalize"])
    A = B.reshape(len(modes), -1)[:, mask.ravel() != 0].T
    sv = np.linalg.svd(A, compute_uv=False)
    cond = float(sv[0] / sv[-1]) if sv[-1] > 0 else np.inf
    # a mode that (numerically) vanishes on the mask is not independent either, even when it is the only one
    if not cond < 1e6 or sv[-1] < 1e-6 * np.sqrt(A.shape[0]):
        raise Skip("ill_conditioned_mode_set")
    contiguous = modes == list(range(1, len(modes) + 1))
    ctx.tag("mask:" + case["kind"], "mask_values:" + case.get("mask_form", "int01"), "noncontiguous" if not contiguous else "modes_1..k",
            "unordered" if modes != sorted(modes) else None, "custom_coords" if kw else "default_coords",
            ("rho_beyond_1" if float(np.max(kw["rho"][mask != 0])) > 1 + 1e-9 else "rho_within_1") if kw else None,
            "normalize" if case["normalize"] else "raw", f"k:{len(modes)}", gen.parity_tags("m", mask.shape))
    ctx.nontrivial_if(not contiguous)
    return kw, B, cond


@hyp("C12", "fit_compose", lambda tier: fit_case(tier),
     "zernike_fit of an OPD composed from given coefficients returns them in the order given (any subset/order, "
     "both normalisations, default and custom coordinates); zernike_compose coefficient k <-> Noll k+1; "
     "zernike_basis == stacked modes", examples=(500, 2000), budget_s=(150, 900))
def fit_compose(case, ctx):
    mask, modes = case["mask"], case["modes"]
    c = np.array(case["coeffs"])
    kw, B, cond = _setup(case, ctx)
    opd = np.einsum("i,ijk->jk", c, B)
    eps = np.finfo(float).eps
    tol = cond * 256 * eps * float(np.max(np.abs(c))) * np.sqrt(len(c)) * max(1.0, np.sqrt(mask.size) / 16) + 1e-300
    with lentil_call("C12.fit", "zernike_fit"):
        # the mode list in any ordered list-like container
        margs, mform = gen.as_container(modes, sum(modes) + len(modes) + int(mask.shape[0]), array_like=True)
        if mform == "ndarray" or max(modes) > 64:
            # an index array in a narrow integer type that holds every index exactly (always for high indices)
            dt = ["int64", "uint8", "int8", "int16", "uint16", "int32"][(sum(modes) + int(mask.shape[1])) % 6]
            if max(modes) > 64:
                dt = ["uint8", "int8", "uint8", "int16"][(sum(modes) + int(mask.shape[1])) % 4]
                if max(modes) > np.iinfo(dt).max:
                    dt = "uint8" if max(modes) <= 255 else "int16"
            if max(modes) <= np.iinfo(dt).max:
                margs, mform = np.asarray(modes, dtype=dt), "ndarray:" + dt
        ctx.tag("modes_as:" + mform, "high_modes" if max(modes) > 64 else None)
        got = np.asarray(lentil.zernike_fit(opd, mask, margs, normalize=case["normalize"], **kw), dtype=float)
    if got.shape != c.shape or np.max(np.abs(got - c)) > tol:
        raise Violation("C12.fit.roundtrip", f"zernike_fit(modes={modes}, normalize={case['normalize']}, "
                                             f"coords={case['coords']}) = {got.tolist()}, composed with {c.tolist()}")
    with lentil_call("C12.basis", "zernike_basis"):
        zb = lentil.zernike_basis(mask, margs, normalize=case["normalize"], **kw)
        zbv = lentil.zernike_basis(mask, modes, vectorize=True, normalize=case["normalize"], **kw)
    if zb.shape != B.shape or np.max(np.abs(zb - B)) > 1e-12 * (1 + np.max(np.abs(B))):
        raise Violation("C12.basis.order", f"zernike_basis(modes={modes}) is not the stack of the requested modes")
    if zbv.shape != (len(modes), mask.size) or not np.array_equal(zbv, zb.reshape(len(modes), -1)):
        raise Violation("C12.basis.vectorize", "vectorized basis differs from the cube")
    # compose: coefficient k <-> Noll index k+1
    kmax = max(modes)
    full = np.zeros(kmax)
    for j, cj in zip(modes, c):
        full[j - 1] = cj
    with lentil_call("C12.compose", "zernike_compose"):
        comp = lentil.zernike_compose(mask, full, normalize=case["normalize"], **kw)
    if comp.shape != mask.shape or np.max(np.abs(comp - opd)) > 1e-11 * (1 + np.max(np.abs(opd))):
        raise Violation("C12.compose.index", f"zernike_compose with coefficients placed at Noll indices {modes} differs "
                                             f"from the sum of those modes")


@hyp("C12", "remove", lambda tier: fit_case(tier),
     "zernike_remove(opd, mask, modes): residual's fitted coefficients vanish, removal is idempotent, an OPD made "
     "only of the removed modes becomes zero, samples outside the mask are untouched", examples=(500, 2000),
     budget_s=(150, 900))
def remove(case, ctx):
    case = dict(case, normalize=True)       # zernike_remove has no normalize argument (default normalisation)
    mask, modes = case["mask"], case["modes"]
    c = np.array(case["coeffs"])
    kw, B, cond = _setup(case, ctx)
    pure = np.einsum("i,ijk->jk", c, B)
    rng = np.random.default_rng(case["noise_seed"])
    noise = rng.normal(size=mask.shape)
    opd = pure + noise            # noise also outside the mask
    eps = np.finfo(float).eps
    # (with caller coordinates reaching beyond rho = 1 the modes themselves exceed 1 by far: the scale of the data is
    # what the composed surface actually reaches)
    scale = max(float(np.max(np.abs(c))) * len(c), float(np.max(np.abs(pure)))) + np.max(np.abs(noise)) + 1e-300
    tol = cond * 512 * eps * scale * np.sqrt(mask.size)
    marg = modes[0] if (len(modes) == 1 and case["scalar_mode"]) else gen.as_container(modes, sum(modes) + int(mask.shape[1]), array_like=True)[0]
    opd = gen.relayout(opd, ["C", "F", "strided", "transposed_view"][len(modes) % 4])
    mask = gen.relayout(mask, ["C", "F", "reversed"][mask.shape[1] % 3])
    # (the OPD map as a plain array, a MaskedArray with flagged samples - data intact - or an ndarray subclass)
    opd, acls = gen.array_class(opd, int(mask.shape[0]) + 3 * int(mask.shape[1]) + len(modes))
    ctx.tag("opd_class:" + acls)
    if acls != "ndarray":
        opd = np.ma.MaskedArray(np.asarray(opd), mask=np.ma.getmaskarray(opd)) if acls.startswith("masked") else opd
    opd0 = np.array(np.ma.getdata(opd), copy=True)
    with lentil_call("C12.remove", f"zernike_remove(modes={marg})"):
        res = np.asarray(lentil.zernike_remove(opd, mask, marg, **kw), dtype=float)
    if res.shape != mask.shape:
        raise Violation("C12.remove.shape", f"residual shape {res.shape}")
    if not np.array_equal(np.ma.getdata(opd), opd0):
        raise Violation("C12.remove.input_mutated", "zernike_remove modified its input")
    opd = np.asarray(np.ma.getdata(opd))
    out = mask == 0
    if np.max(np.abs(res[out] - opd[out]), initial=0.0) > 1e-12 * scale:
        raise Violation("C12.remove.outside", "samples outside the mask were changed")
    # independent least squares over the mask
    A = B.reshape(len(modes), -1)[:, mask.ravel() != 0].T
    sol = np.linalg.lstsq(A, opd[mask != 0], rcond=None)[0]
    want = opd.copy()
    want[mask != 0] -= A @ sol
    if np.max(np.abs(res - want)) > tol:
        raise Violation("C12.remove.projection",
                        f"zernike_remove(modes={modes}, coords={case['coords']}) does not subtract the least-squares "
                        f"component in those modes (max difference {np.max(np.abs(res - want)):.3e}, tol {tol:.1e})")
    with lentil_call("C12.remove", "zernike_fit of the residual"):
        cf = np.asarray(lentil.zernike_fit(res, mask, modes, **kw), dtype=float)
    if np.max(np.abs(cf)) > tol:
        raise Violation("C12.remove.residual_fit", f"residual still holds the removed modes: {cf.tolist()}")
    with lentil_call("C12.remove", "second removal"):
        res2 = np.asarray(lentil.zernike_remove(res, mask, marg, **kw), dtype=float)
    if np.max(np.abs(res2 - res)) > tol:
        raise Violation("C12.remove.idempotent", "removing the same modes twice changes the result")
    with lentil_call("C12.remove", "removal from a pure combination"):
        zero = np.asarray(lentil.zernike_remove(pure, mask, marg, **kw), dtype=float)
    if np.max(np.abs(zero[mask != 0])) > tol:
        raise Violation("C12.remove.pure", f"an OPD made only of modes {modes} is not reduced to zero "
                                           f"(max {np.max(np.abs(zero[mask != 0])):.3e})")


# --- history: the same mask and modes fitted in different coordinate systems ------------------------

@st.composite
def coords_history_case(draw, tier):
    c = draw(fit_case(tier))
    steps = []
    for _ in range(draw(st.integers(2, 4))):
        kind = draw(st.sampled_from(["default", "custom", "custom"]))
        steps.append({"coords": kind, "shift": [draw(gen.finite(-1.5, 1.5)), draw(gen.finite(-1.5, 1.5))],
                      "rotate": draw(st.sampled_from([0, 30.0, 90, -45.0, 10.0]))})
    c["steps"] = steps
    return c


@hyp("C12", "coords_history", lambda tier: coords_history_case(tier),
     "the same mask, mode list and normalisation fitted / removed 2-4 times in a row with different coordinate "
     "systems (default, shifted, rotated): every call must still satisfy the round trip and the projection law",
     examples=(250, 1000), budget_s=(150, 900))
def coords_history(case, ctx):
    mask, modes = case["mask"], case["modes"]
    c = np.array(case["coeffs"])
    kinds = [s["coords"] for s in case["steps"]]
    ctx.tag(f"steps:{len(kinds)}", "default_then_custom" if "default" in kinds and "custom" in kinds else None,
            "noncontiguous" if modes != list(range(1, len(modes) + 1)) else "modes_1..k")
    ctx.nontrivial_if(len({(s["coords"], tuple(s["shift"]), s["rotate"]) for s in case["steps"]}) >= 2)
    eps = np.finfo(float).eps
    for i, stp in enumerate(case["steps"]):
        sub = dict(case, coords=stp["coords"], shift=stp["shift"], rotate=stp["rotate"])
        with lentil_call("C12.history", "zernike / zernike_coordinates"):
            kw = _coords(sub)
            B = _basis(sub, modes, kw, case["normalize"])
        A = B.reshape(len(modes), -1)[:, mask.ravel() != 0].T
        sv = np.linalg.svd(A, compute_uv=False)
        cond = float(sv[0] / sv[-1]) if sv[-1] > 0 else np.inf
        if not cond < 1e6 or sv[-1] < 1e-6 * np.sqrt(A.shape[0]):
            raise Skip("ill_conditioned_mode_set")
        opd = np.einsum("i,ijk->jk", c, B)
        tol = cond * 256 * eps * float(np.max(np.abs(c))) * np.sqrt(len(c)) * max(1.0, np.sqrt(mask.size) / 16) + 1e-300
        with lentil_call("C12.history", f"zernike_fit (step {i}, {stp['coords']})"):
            got = np.asarray(lentil.zernike_fit(opd, mask, modes, normalize=case["normalize"], **kw), dtype=float)
        if got.shape != c.shape or np.max(np.abs(got - c)) > tol:
            raise Violation("C12.history.fit", f"step {i} ({stp['coords']} coordinates, shift {stp['shift']}, rotate "
                                               f"{stp['rotate']}): zernike_fit returned {got.tolist()} for an OPD "
                                               f"composed with {c.tolist()} (modes {modes}); earlier steps used "
                                               f"{kinds[:i]}")
        if case["normalize"]:
            with lentil_call("C12.history", f"zernike_remove (step {i})"):
                zero = np.asarray(lentil.zernike_remove(opd, mask, modes, **kw), dtype=float)
            # (residual of a surface: its scale is what the composed surface reaches - far beyond the coefficients when
            # the caller's coordinates run past rho = 1)
            rscale = max(1.0, float(np.max(np.abs(opd))) / max(float(np.max(np.abs(c))), 1e-300))
            if np.max(np.abs(zero[mask != 0])) > tol * np.sqrt(mask.size) * 4 * rscale:
                raise Violation("C12.history.remove", f"step {i}: an OPD made only of modes {modes} is not removed")


# --- long mode lists in unusual orders --------------------------------------------------------------------------------

@hyp("C12", "many_modes", lambda tier: st.fixed_dictionaries(
        {"J": st.integers(60, 160), "order": st.sampled_from(["cos_then_sin", "cos_then_sin", "reversed", "by_azimuth", "shuffled"]),
         "n": st.integers(20, 34), "normalize": st.booleans(), "seed": st.integers(0, 2**31 - 1), "custom": st.booleans()}),
     "zernike_basis for 60..160 modes listed in an unusual order (all cosine terms, then all sine terms; reversed; grouped "
     "by azimuthal order; shuffled): slice k of the basis is mode modes[k], whatever came before it in the list",
     examples=(40, 150), budget_s=(150, 600))
def many_modes(case, ctx):
    n = case["n"]
    yy, xx = np.mgrid[0:n, 0:n]
    mask = ((yy - n / 2 + 0.5) ** 2 + (xx - n / 2 + 0.5) ** 2 <= (n / 2 - 0.5) ** 2).astype(int)
    J = case["J"]
    js = list(range(1, J + 1))
    rng = np.random.default_rng(case["seed"])
    if case["order"] == "cos_then_sin":
        modes = [j for j in js if j % 2 == 0] + [j for j in js if j % 2 == 1]
    elif case["order"] == "reversed":
        modes = js[::-1]
    elif case["order"] == "by_azimuth":
        modes = sorted(js, key=lambda j: (j * 2654435761) % 97)
    else:
        modes = [int(v) for v in rng.permutation(js)]
    kw = {}
    if case["custom"]:
        rho, theta = lentil.zernike_coordinates(mask, shift=(0.4, -0.3), rotate=20.0)
        kw = {"rho": rho, "theta": theta}
    ctx.tag("order:" + case["order"], f"modes:{'<=100' if J <= 100 else '>100'}", "custom_coords" if kw else "default_coords")
    ctx.nontrivial_if(True)
    with lentil_call("C12.many_modes", f"zernike_basis({len(modes)} modes, {case['order']})"):
        B = np.asarray(lentil.zernike_basis(mask, modes, normalize=case["normalize"], **kw), dtype=float)
    if B.shape != (len(modes),) + mask.shape:
        raise Violation("C12.many_modes.shape", f"basis of shape {B.shape} for {len(modes)} modes on a {mask.shape} mask")
    for k, j in enumerate(modes):
        with lentil_call("C12.many_modes", f"zernike(mask, {j})"):
            z = np.asarray(lentil.zernike(mask, int(j), normalize=case["normalize"], **kw), dtype=float)
        if np.max(np.abs(B[k] - z)) > 1e-12 * (1.0 + float(np.max(np.abs(z)))):
            raise Violation("C12.many_modes.slice", f"zernike_basis({len(modes)} modes in {case['order']} order): slice {k} is not mode "
                                                    f"{j} (max difference {np.max(np.abs(B[k] - z)):.3e})")


# --- history: different masks fitted one after another ------------------------------------------------------------

MASK_RELATIONS = ["same", "reshape", "reshape", "transpose", "flip", "erode", "dilate", "full", "full_T", "top_rows", "values"]


def _related_mask(prev, rel, k):
    """The next mask of a history, derived from the previous one (k: drawn integer)."""
    m, n = prev.shape
    b = prev != 0
    if rel == "reshape":
        # the same samples in memory order on a frame of another shape (a detector read out in another format)
        divs = [d for d in range(3, prev.size // 3 + 1) if prev.size % d == 0 and d != m]
        if not divs:
            return prev.T.copy()
        d = divs[k % len(divs)]
        return np.reshape(np.ascontiguousarray(prev), (d, prev.size // d)).copy()
    if rel == "transpose":
        return prev.T.copy()
    if rel == "flip":
        return prev[::-1, ::-1].copy() if k % 2 else prev[:, ::-1].copy()
    if rel in ("erode", "dilate"):
        p = np.pad(b, 1)
        nb = [p[1:-1, 1:-1], p[:-2, 1:-1], p[2:, 1:-1], p[1:-1, :-2], p[1:-1, 2:]]
        out = np.logical_and.reduce(nb) if rel == "erode" else np.logical_or.reduce(nb)
        return out.astype(int)
    if rel == "full":
        return np.ones((m, n), dtype=int)
    if rel == "full_T":
        return np.ones((n, m), dtype=int)
    if rel == "top_rows":
        out = np.zeros((m, n), dtype=int)
        out[:max(3, (k % m) + 1)] = 1
        return out
    if rel == "values":
        return (b * (2 + k % 5)).astype([float, np.uint8, bool, np.int64][k % 4])
    return prev.copy()


@st.composite
def mask_history_case(draw, tier):
    if draw(st.integers(0, 3)) == 0:
        # centred square blocks with power-of-two sides (centroid arithmetic exact: nested stops share shape and centre)
        N = draw(st.sampled_from([16, 17, 24, 32, 33]))
        side = draw(st.sampled_from([4, 8, 16]))
        mask = np.zeros((N, N + draw(st.sampled_from([0, 0, 2, 3]))), dtype=int)
        r0, c0 = (mask.shape[0] - side) // 2, (mask.shape[1] - side) // 2
        mask[r0:r0 + side, c0:c0 + side] = 1
        kind = "block"
    else:
        mask, kind = draw(zmask(tier))
    k = draw(st.integers(1, 6))
    modes = draw(st.lists(st.integers(1, 15), min_size=k, max_size=k, unique=True))
    steps = [{"rel": "start", "k": 0, "modes": "same", "normalize": draw(st.booleans()), "fn": draw(st.sampled_from(["fit", "fit", "remove"]))}]
    for _ in range(draw(st.integers(1, 4))):
        steps.append({"rel": draw(st.sampled_from(MASK_RELATIONS)), "k": draw(st.integers(0, 1000)),
                      "modes": draw(st.sampled_from(["same", "same", "same", "permuted", "subset", "other"])),
                      "normalize": steps[0]["normalize"] if draw(st.integers(0, 3)) else draw(st.booleans()),
                      "fn": draw(st.sampled_from(["fit", "fit", "remove"]))})
    return {"mask": mask, "kind": kind, "modes": modes, "steps": steps, "seed": draw(st.integers(0, 2**31 - 1))}


@hyp("C12", "mask_history", lambda tier: mask_history_case(tier),
     "2-5 fits / removals issued back to back on DIFFERENT masks related to one another (the same samples on a frame "
     "of another shape, transposed, flipped, eroded / dilated about the same centre, full frames of both orientations, "
     "the same support with other values) with the same, permuted, fewer or other modes: every call must return the "
     "least-squares coefficients for ITS mask and modes (references are computed only after the last call)",
     examples=(300, 1200), budget_s=(150, 900))
def mask_history(case, ctx):
    rng = np.random.default_rng(case["seed"])
    masks, mode_sets = [], []
    cur, modes = np.asarray(case["mask"]), list(case["modes"])
    for stp in case["steps"]:
        if stp["rel"] != "start":
            cur = _related_mask(cur, stp["rel"], stp["k"])
            if stp["modes"] == "permuted":
                modes = list(reversed(modes)) if len(modes) > 1 else modes
            elif stp["modes"] == "subset" and len(modes) > 1:
                modes = modes[:-1]
            elif stp["modes"] == "other":
                modes = [1 + (j + stp["k"]) % 15 for j in modes]
                modes = list(dict.fromkeys(modes))
        masks.append(cur)
        mode_sets.append(list(modes))
    if any(np.count_nonzero(m) < 12 for m in masks):
        raise Skip("mask_too_small_after_relation")
    rels = [s["rel"] for s in case["steps"][1:]]
    ctx.tag(f"steps:{len(masks)}", *["rel:" + r for r in sorted(set(rels))], "start:" + case["kind"],
            "same_bytes_other_shape" if any(masks[i].shape != masks[i + 1].shape and masks[i].size == masks[i + 1].size and
                                            np.array_equal(np.ravel(masks[i] != 0), np.ravel(masks[i + 1] != 0))
                                            and mode_sets[i] == mode_sets[i + 1] for i in range(len(masks) - 1)) else None,
            "same_shape_centroid_other_extent" if any(masks[i].shape == masks[i + 1].shape and not np.array_equal(masks[i] != 0, masks[i + 1] != 0)
                                                      and np.allclose(np.argwhere(masks[i]).mean(0), np.argwhere(masks[i + 1]).mean(0), atol=1e-12)
                                                      for i in range(len(masks) - 1)) else None)
    ctx.nontrivial_if(any(r != "same" for r in rels))
    # phase 1: the calls under test, back to back, nothing else in between
    opds, got = [], []
    for i, (mask, modes, stp) in enumerate(zip(masks, mode_sets, case["steps"])):
        yy, xx = np.mgrid[0:mask.shape[0], 0:mask.shape[1]]
        opd = rng.normal(size=mask.shape) + 0.3 * np.sin(yy / 3.0) + 0.01 * xx
        opds.append(opd)
        with lentil_call("C12.mask_history", f"zernike_{stp['fn']} (step {i}: {stp['rel']} mask {mask.shape}, modes {modes})"):
            if stp["fn"] == "fit":
                got.append(np.asarray(lentil.zernike_fit(opd, mask, modes, normalize=stp["normalize"]), dtype=float))
            else:
                got.append(np.asarray(lentil.zernike_remove(opd, mask, modes), dtype=float))
    # phase 2: independent least squares per step
    eps = np.finfo(float).eps
    checked = 0
    for i, (mask, modes, stp) in enumerate(zip(masks, mode_sets, case["steps"])):
        norm = stp["normalize"] if stp["fn"] == "fit" else True
        with lentil_call("C12.mask_history.basis", "zernike"):
            B = np.array([np.asarray(lentil.zernike(mask, int(j), normalize=norm), dtype=float) for j in modes])
        A = B.reshape(len(modes), -1)[:, np.ravel(mask != 0)].T
        sv = np.linalg.svd(A, compute_uv=False)
        cond = float(sv[0] / sv[-1]) if sv[-1] > 0 else np.inf
        if not cond < 1e6 or sv[-1] < 1e-6 * np.sqrt(A.shape[0]):
            ctx.tag("step_ill_conditioned")
            continue
        checked += 1
        opd = opds[i]
        sol = np.linalg.lstsq(A, opd[mask != 0], rcond=None)[0]
        scale = float(np.max(np.abs(opd)))
        tol = cond * 512 * eps * scale * np.sqrt(mask.size)
        hist = [(case["steps"][j]["rel"], masks[j].shape, mode_sets[j]) for j in range(i)]
        if stp["fn"] == "fit":
            if got[i].shape != sol.shape or np.max(np.abs(got[i] - sol)) > tol * max(1.0, float(np.max(1 / sv))):
                raise Violation("C12.mask_history.fit",
                                f"step {i}: zernike_fit on the {stp['rel']} mask {mask.shape} with modes {modes} returned "
                                f"{got[i].tolist()}, least squares over that mask gives {sol.tolist()}; earlier calls: {hist}")
        else:
            want = opd.copy()
            want[mask != 0] -= A @ sol
            if got[i].shape != want.shape or np.max(np.abs(got[i] - want)) > tol:
                raise Violation("C12.mask_history.remove",
                                f"step {i}: zernike_remove on the {stp['rel']} mask {mask.shape} with modes {modes} differs from "
                                f"subtracting the least-squares component by {np.max(np.abs(got[i] - want)):.3e}; earlier calls: {hist}")
    if not checked:
        raise Skip("ill_conditioned_mode_set")


# --- masks of more than a million samples ------------------------------------------------------------------------

@hyp("C12", "mega", lambda tier: st.fixed_dictionaries({"shape": gen.mega_shape().map(list),
                                                        "modes": st.lists(st.integers(1, 11), min_size=2, max_size=4, unique=True),
                                                        "seed": st.integers(0, 2**31 - 1),
                                                        "kind": st.sampled_from(["full", "sub_aperture", "sub_aperture"])}),
     "fit(compose(c)) == c and remove(pure) == 0 on a mask of more than 2^20 samples: a full-frame aperture with a "
     "few modes, or one small off-centre sub-aperture fitted with 21-28 modes in the coordinates of the whole pupil "
     "(independent but poorly conditioned: 1e6 .. 1e11)", examples=(3, 10), budget_s=(250, 900))
def mega(case, ctx):
    m, n = case["shape"]
    modes = case["modes"]
    rng = np.random.default_rng(case["seed"])
    yy, xx = np.mgrid[0:m, 0:n]
    kw = {}
    if case.get("kind", "full") == "full":
        mask = (((yy - m / 2) / (0.46 * m)) ** 2 + ((xx - n / 2) / (0.47 * n)) ** 2 <= 1).astype(int)
        nsamp = mask.size
    else:
        pupil = (((yy - m / 2) / (0.46 * m)) ** 2 + ((xx - n / 2) / (0.47 * n)) ** 2 <= 1).astype(int)
        rad = 10 + case["seed"] % 8
        r0, c0 = int(m * 0.5 + 0.2 * m * np.cos(case["seed"])), int(n * 0.5 + 0.2 * n * np.sin(case["seed"]))
        mask = ((yy - r0) ** 2 + (xx - c0) ** 2 <= rad ** 2).astype(int)
        modes = list(range(1, 22))
        rho, theta = lentil.zernike_coordinates(pupil)
        kw = {"rho": rho, "theta": theta}
        nsamp = int(mask.sum())
    c = rng.uniform(-3, 3, size=len(modes))
    ctx.tag("mega", f"k:{len(modes)}", "kind:" + case.get("kind", "full"))
    ctx.nontrivial_if(True)
    with lentil_call("C12.mega", f"zernike_basis / fit / remove on a {m}x{n} mask"):
        B = lentil.zernike_basis(mask, modes, **kw)
        opd = np.einsum("i,ijk->jk", c, B)
        got = np.asarray(lentil.zernike_fit(opd, mask, modes, **kw), dtype=float)
        # (removal repeats the fit and the basis: only for the cheap few-mode case)
        res = np.asarray(lentil.zernike_remove(opd, mask, modes, **kw), dtype=float) if not kw else None
    A = B.reshape(len(modes), -1)[:, mask.ravel() != 0]
    sv = np.linalg.svd(A, compute_uv=False)
    cond = float(sv[0] / sv[-1])
    if not cond < 1e12:
        raise Skip("ill_conditioned_mode_set")
    ctx.tag(f"cond:1e{int(np.log10(cond))}")
    tol = cond * 256 * np.finfo(float).eps * 3.0 * np.sqrt(len(modes)) * max(1.0, np.sqrt(nsamp) / 16)
    if np.max(np.abs(got - c)) > tol:
        raise Violation("C12.mega.roundtrip", f"zernike_fit(modes={modes}) on a {m}x{n} mask = {got.tolist()}, composed "
                                              f"with {c.tolist()}")
    if res is not None and np.max(np.abs(res[mask != 0])) > tol * 10:
        raise Violation("C12.mega.remove", f"zernike_remove of an OPD made of the removed modes leaves "
                                           f"{np.max(np.abs(res[mask != 0])):.3e} on a {m}x{n} mask")
