"""C11 - Zernike modes are the Noll-ordered orthonormal polynomials."""
import numpy as np
from hypothesis import strategies as st

import lentil
import importlib

# the check's own calls are issued with keywords or positionally in the documented order (vlib/callforms.py)
from vlib import callforms as _cf
lentil = _cf.proxy(lentil)

lz = importlib.import_module("lentil.zernike")   # `lentil.zernike` itself is the function
from vlib import gen
from vlib.ref import zern
from vlib.runner import Skip, Violation, enum, hyp, lentil_call

RULE = ("index map: every Noll index in blocks of 100 up to 20 000 (quick) / 1 000 000 (thorough); values: modes "
        "j <= 231 at drawn polar coordinates; orthonormality: all pairs of mode blocks on exact quadrature nodes; "
        "default coordinates: drawn masks on even/odd arrays; non-trivial = radial order n >= 2 / off-centre or "
        "odd-sized mask")
ASSUMPTIONS = [
    "Noll ordering and radial polynomials built from their definitions with exact rational coefficients",
    "the sign of the sine family is not pinned: one global sign for all odd j is accepted",
    "quadrature: Gauss-Legendre in rho^2 (exact for the polynomial degrees involved) x uniform theta",
    "default theta convention is checked only up to one fixed rotation/reflection about the mask centroid",
]

JMAX_VALUES = 231


# --- (a) index map ---------------------------------------------------------------------

def _enum_index(tier):
    top = 20000 if tier == "quick" else 1000000
    for lo in range(1, top + 1, 100):
        yield {"lo": lo, "hi": min(lo + 99, top)}


_SEQ_CACHE = {}


def _seq(jmax):
    if jmax not in _SEQ_CACHE:
        _SEQ_CACHE.clear()
        _SEQ_CACHE[jmax] = zern.noll_sequence(jmax)
    return _SEQ_CACHE[jmax]


@enum("C11", "index_map", _enum_index,
      "zernike_index(j) for every j in consecutive blocks of 100 vs Noll's ordering built from its definition "
      "(one-to-one onto {(n,m): n-|m| even, |m|<=n}, even j cosine / odd j sine)", budget_s=(120, 1500),
      exhaustive_tiers=("quick", "thorough"))
def index_map(case, ctx):
    top = 20000 if case["hi"] <= 20000 else 1000000
    seq = _seq(top)
    ctx.tag("n>=2" if case["lo"] >= 4 else "n<2")
    ctx.nontrivial_if(case["hi"] >= 4)
    for j in range(case["lo"], case["hi"] + 1):
        _, n, am, kind = seq[j - 1]
        with lentil_call("C11.index", f"zernike_index({j})"):
            m_l, n_l = lz.zernike_index(j)
        want_m = am if kind in ("0", "cos") else -am
        if (int(m_l), int(n_l)) != (want_m, n):
            raise Violation("C11.index.map", f"zernike_index({j}) = (m={m_l}, n={n_l}), Noll's ordering gives "
                                             f"(m={want_m}, n={n}) [{kind}]")


# --- (a2) index map far beyond the enumerated range -------------------------------------------------------

def noll_closed_form(j):
    """(n, |m|, kind) of Noll index j from the ordering's definition in integer arithmetic: row n holds the n+1
    indices T_n+1 .. T_n+n+1 (T_n = n(n+1)/2) with |m| ascending in steps of two, two indices per |m| > 0, the even
    index being the cosine"""
    import math
    n = (math.isqrt(8 * j - 7) - 1) // 2          # largest n with T_n < j
    while n * (n + 1) // 2 >= j:
        n -= 1
    while (n + 1) * (n + 2) // 2 < j:
        n += 1
    r = j - n * (n + 1) // 2 - 1                  # position in the row, 0-based
    am = 2 * ((r + 1) // 2) if n % 2 == 0 else 2 * (r // 2) + 1
    kind = "0" if am == 0 else ("cos" if j % 2 == 0 else "sin")
    return n, am, kind


@st.composite
def big_index_case(draw, tier):
    n = draw(st.integers(1400, 140000))            # rows around j = 1e6 .. 1e10
    t = n * (n + 1) // 2
    where = draw(st.sampled_from(["first", "second", "last", "last-1", "inside", "inside"]))
    j = {"first": t + 1, "second": t + 2, "last": t + n + 1, "last-1": t + n}.get(where) or t + 1 + draw(st.integers(0, n))
    return {"j": j, "where": where}


@hyp("C11", "index_large", lambda tier: big_index_case(tier),
     "zernike_index(j) for j in 1e6..1e10 (first / second / last indices of a row and drawn interior ones) vs the "
     "ordering's definition in integer arithmetic", examples=(80, 300), budget_s=(60, 400))
def index_large(case, ctx):
    j = case["j"]
    n, am, kind = noll_closed_form(j)
    # the closed form is itself checked against the enumerated ordering on a small prefix
    for jj, nn, aa, kk in _seq(20000)[:300]:
        if noll_closed_form(jj) != (nn, aa, kk):
            raise Violation("C11.ref", f"closed-form Noll ordering disagrees with the enumerated one at j={jj}")
    ctx.tag("where:" + case["where"], f"j~1e{len(str(j)) - 1}")
    ctx.nontrivial_if(True)
    with lentil_call("C11.index", f"zernike_index({j})"):
        m_l, n_l = lz.zernike_index(j)
    want_m = am if kind in ("0", "cos") else -am
    if (int(m_l), int(n_l)) != (want_m, n):
        raise Violation("C11.index.map_large", f"zernike_index({j}) = (m={m_l}, n={n_l}), Noll's ordering gives "
                                               f"(m={want_m}, n={n}) [{kind}]")


# --- (b) values -------------------------------------------------------------------------

@st.composite
def value_case(draw, tier):
    # mostly radial orders <= 20; one case in four goes on to order 39 (j = 820), where the float evaluation is
    # still meaningful under the cancellation-aware tolerance (the bound grows like the largest term of the sum)
    j = draw(st.integers(1, JMAX_VALUES)) if draw(st.integers(0, 3)) else draw(st.integers(JMAX_VALUES + 1, 820))
    k = draw(st.integers(0, 2**31 - 1))
    special = draw(st.sampled_from(["random", "edge", "origin", "axes", "beyond", "beyond"]))
    if draw(st.integers(0, 7)) == 0:
        # radial orders 40 .. 70 (Noll 821 .. 2556), low azimuthal orders preferred (the largest coefficients), at
        # small radii where the float sum is still well conditioned under the cancellation-aware tolerance
        n_hi = draw(st.integers(40, 70))
        m_hi = draw(st.integers(0, 6)) if draw(st.booleans()) else draw(st.integers(0, n_hi))
        m_hi -= (n_hi - m_hi) % 2
        m_hi = max(m_hi, n_hi % 2)
        cand = [jj for jj, nn, mm, _ in _seq(2600) if nn == n_hi and mm == m_hi]
        j = draw(st.sampled_from(cand))
        special = "inner"
    return {"j": j, "seed": k, "points": special, "normalize": draw(st.booleans()),
            "shape": list(draw(gen.shape2(1, 9)))}


def _sine_sign():
    """global sign of lentil's sine family, measured on mode 3 (n=1, |m|=1, odd j)"""
    mask = np.ones((1, 1))
    v = lentil.zernike(mask, 3, normalize=False, rho=np.array([[1.0]]), theta=np.array([[np.pi / 2]]))
    return 1.0 if float(v[0, 0]) > 0 else -1.0


@hyp("C11", "values", lambda tier: value_case(tier),
     "zernike(mask, j, rho=, theta=) at caller-supplied coordinates vs sqrt(n+1)[sqrt 2] R_n^|m|(rho) cos/sin(|m| "
     "theta) with exact rational radial coefficients; R(1) = 1; |Z| <= 1 unnormalised", examples=(800, 3000))
def values(case, ctx):
    j = case["j"]
    _, n, am, kind = _seq(20000)[j - 1]
    shape = tuple(case["shape"])
    rng = np.random.default_rng(case["seed"])
    rho = rng.uniform(0, 1, size=shape)
    theta = rng.uniform(-2 * np.pi, 2 * np.pi, size=shape)
    if case["points"] == "edge":
        rho[:] = 1.0
    elif case["points"] == "beyond":
        # caller-supplied coordinates are arbitrary: a grid reaching past the unit circle (coordinates normalised to
        # a nominal radius smaller than the aperture); the polynomial is what it is there, only the bound |Z| <= 1 is not
        rho = rho * 1.5
    elif case["points"] == "inner":
        rho = rho * 0.3
    elif case["points"] == "origin":
        rho.flat[0] = 0.0
    elif case["points"] == "axes":
        theta = np.round(theta / (np.pi / 2)) * (np.pi / 2)
    # two masks over the same caller-owned coordinate arrays: a partial one first, then the full one
    sup_a = rng.uniform(size=shape) < 0.6
    # membership is "non-zero": labels, weights, negative and mixed-sign values describe the same mask
    form = gen.MASK_FORMS[case["seed"] % len(gen.MASK_FORMS)]
    mask_a = gen.apply_mask_form(sup_a, form, seed=case["seed"])
    mask = gen.apply_mask_form(np.ones(shape, dtype=bool), form, seed=case["seed"] + 1)
    ctx.tag(f"n:{n if n <= 20 else '21-24' if n <= 24 else '25-30' if n <= 30 else '31-39'}", "m=0" if am == 0 else "m!=0", "normalized" if case["normalize"] else "raw",
            "points:" + case["points"], kind, "partial_mask_first" if not sup_a.all() else None, "mask_values:" + form)
    ctx.nontrivial_if(n >= 2)
    rho0, theta0 = rho.copy(), theta.copy()
    with lentil_call("C11.values", f"zernike(j={j})"):
        got_a = np.asarray(lentil.zernike(mask_a, j, normalize=case["normalize"], rho=rho, theta=theta), dtype=float)
        got = np.asarray(lentil.zernike(mask, j, normalize=case["normalize"], rho=rho, theta=theta), dtype=float)
        sign = _sine_sign() if kind == "sin" else 1.0
    if not (np.array_equal(rho, rho0) and np.array_equal(theta, theta0)):
        raise Violation("C11.values.coords_mutated", "zernike() modified the caller's rho/theta arrays")
    ref, mag = zern.mode(n, am, kind, rho0, theta0, normalize=case["normalize"])
    ref = sign * ref
    tol_a = 64 * np.finfo(float).eps * (np.asarray(mag, dtype=float) * (1 + am * np.abs(theta0)) + 1.0)
    if got_a.shape != shape or np.any(np.abs(got_a - np.asarray(ref, dtype=float) * sup_a) > tol_a):
        raise Violation("C11.values.masked", f"mode j={j} over a partial mask differs from mask * textbook value")
    tol = 64 * np.finfo(float).eps * (np.asarray(mag, dtype=float) * (1 + am * np.abs(theta)) + 1.0)
    err = np.abs(got - np.asarray(ref, dtype=float))
    if got.shape != shape or np.any(err > tol):
        i = int(np.argmax(err - tol))
        raise Violation("C11.values.formula",
                        f"mode j={j} (n={n}, |m|={am}, {kind}, normalize={case['normalize']}) at rho={rho.flat[i]:.6f} "
                        f"theta={theta.flat[i]:.6f}: {got.flat[i]:.12e} vs {float(ref.flat[i]):.12e}")
    if not case["normalize"] and np.any((np.abs(got) > 1 + tol) & (rho <= 1)):
        raise Violation("C11.values.bounded", f"unnormalised mode j={j} exceeds 1 in magnitude")
    if case["points"] == "edge":
        # R(1) = 1: at rho = 1 the value is the pure angular factor times the norm
        R1, _ = zern.radial(n, am, np.ones(1))
        if abs(float(R1[0]) - 1) > 1e-15:
            raise Violation("C11.ref", "reference radial polynomial is not 1 at rho = 1")


# --- orthonormality on exact quadrature nodes -----------------------------------------------

def _enum_ortho(tier):
    jmax = 66 if tier == "quick" else JMAX_VALUES
    bs = 11 if tier == "quick" else 21
    blocks = [(lo, min(lo + bs - 1, jmax)) for lo in range(1, jmax + 1, bs)]
    for a in range(len(blocks)):
        for b in range(a, len(blocks)):
            yield {"a": list(blocks[a]), "b": list(blocks[b])}


def _nodes(nmax):
    # rho^2 = t in [0,1]: Gauss-Legendre exact for polynomials in t of degree 2*K-1 >= nmax
    K = nmax // 2 + 3
    x, wt = np.polynomial.legendre.leggauss(K)
    t = (x + 1) / 2
    wt = wt / 2
    L = 2 * nmax + 4
    th = np.arange(L) * 2 * np.pi / L
    return np.sqrt(t), wt, th


@enum("C11", "orthonormal", _enum_ortho,
      "Gram matrix of all mode pairs (j <= 66 quick / 231 thorough) over the unit disk by exact quadrature: "
      "<Zi,Zj> = delta_ij", budget_s=(120, 900), exhaustive_tiers=("quick", "thorough"))
def orthonormal(case, ctx):
    a, b = case["a"], case["b"]
    seq = _seq(20000)
    nmax = max(seq[a[1] - 1][1], seq[b[1] - 1][1])
    rho1, wt, th = _nodes(nmax)
    rho = np.repeat(rho1[:, None], len(th), axis=1)
    theta = np.repeat(th[None, :], len(rho1), axis=0)
    mask = np.ones(rho.shape)
    ctx.tag(f"nmax:{nmax}", "diagonal_block" if a == b else "cross_block")
    ctx.nontrivial_if(nmax >= 2)

    def block(lo, hi):
        out = []
        for j in range(lo, hi + 1):
            with lentil_call("C11.ortho", f"zernike(j={j}) on quadrature nodes"):
                out.append(np.asarray(lentil.zernike(mask, j, normalize=True, rho=rho, theta=theta), dtype=float))
        return np.array(out)

    A = block(*a)
    B = A if a == b else block(*b)
    # (1/pi) * integral Zi Zj rho drho dtheta = sum_k w_k * mean_theta(Zi Zj)   (t = rho^2, dt = 2 rho drho)
    G = np.einsum("ikl,jkl,k->ij", A, B, wt) / len(th)
    for i in range(A.shape[0]):
        for jj in range(B.shape[0]):
            ji, jb = a[0] + i, b[0] + jj
            want = 1.0 if ji == jb else 0.0
            if abs(G[i, jj] - want) > 1e-9:
                raise Violation("C11.ortho.gram", f"<Z{ji}, Z{jb}> over the unit disk = {G[i, jj]:.12f}, expected {want}")


# --- (c) default coordinates ------------------------------------------------------------------

@st.composite
def coord_case(draw, tier):
    hi = 14 if tier == "quick" else 32
    shape = draw(gen.shape2(3, hi, big=0.03, big_pool=[64, 65, 128, 129, 255, 256]))
    m = draw(gen.support_mask(shape, min_samples=3))
    if draw(st.integers(0, 7)) == 0:
        # a large aperture that is symmetric about the array's origin sample except for a few dead pixels: its centroid
        # lies 1e-5 .. 1e-2 samples from the array centre (relative tolerances such as np.allclose's 1e-5 x 256 samples
        # take that for "centred")
        N0, N1 = draw(st.integers(300, 560)), draw(st.integers(300, 560))
        yy, xx = np.mgrid[0:N0, 0:N1]
        rad = draw(gen.finite(0.3, 0.45)) * min(N0, N1)
        m = ((yy - N0 // 2) ** 2 + (xx - N1 // 2) ** 2 <= rad ** 2)
        for _ in range(draw(st.integers(1, 3))):
            dr, dc = draw(st.integers(-int(rad * 0.6), int(rad * 0.6))), draw(st.integers(-int(rad * 0.6), int(rad * 0.6)))
            if dr and dc:
                m[N0 // 2 + dr, N1 // 2 + dc] = False
    return {"mask": m.astype(int), "j": draw(st.integers(1, 36)), "scale": draw(st.sampled_from([2, 0.5, 7.25, -3]))}


@hyp("C11", "default_coordinates", lambda tier: coord_case(tier),
     "default polar origin = centroid of the mask (any parity / position), rho = 1 at the farthest masked sample, "
     "zero off the mask, dependence on the mask only through its support", examples=(500, 2000))
def default_coordinates(case, ctx):
    mask = gen.relayout(case["mask"], ["C", "F", "strided", "reversed", "transposed_view"][(case["mask"].shape[0] + case["j"]) % 5])
    idx = np.argwhere(mask != 0)
    r0, c0 = idx[:, 0].mean(), idx[:, 1].mean()
    d = np.hypot(idx[:, 0] - r0, idx[:, 1] - c0)
    dmax = d.max()
    if dmax == 0:
        raise Skip("single_sample_mask")
    centred = abs(r0 - mask.shape[0] // 2) < 1e-12 and abs(c0 - mask.shape[1] // 2) < 1e-12
    ctx.tag(gen.parity_tags("m", mask.shape), "odd_size" if mask.shape[0] % 2 or mask.shape[1] % 2 else "even_size",
            "offcentre_mask" if not centred else "centred_mask",
            "centroid_within_1e-2_of_centre" if not centred and max(abs(r0 - mask.shape[0] // 2), abs(c0 - mask.shape[1] // 2)) < 1e-2 else None)
    ctx.nontrivial_if(not centred or mask.shape[0] % 2 == 1 or mask.shape[1] % 2 == 1)
    with lentil_call("C11.coords", "zernike_coordinates"):
        rho, theta = lentil.zernike_coordinates(mask)
    rm = rho[mask != 0]
    if abs(rm.max() - 1) > 1e-12:
        raise Violation("C11.coords.rho_max", f"max rho over the mask = {rm.max()}, expected 1")
    if np.max(np.abs(rm * dmax - d)) > 1e-9 * (1 + dmax):
        i = int(np.argmax(np.abs(rm * dmax - d)))
        raise Violation("C11.coords.origin", f"rho*max_distance differs from the distance to the mask centroid "
                                             f"({r0:.3f}, {c0:.3f}) by {np.max(np.abs(rm * dmax - d)):.3f} samples "
                                             f"(array {mask.shape}, sample {idx[i].tolist()})")
    # theta is the polar angle about the centroid up to one fixed rotation/reflection
    zl = rm * np.exp(1j * theta[mask != 0])
    zt = ((idx[:, 1] - c0) + 1j * (idx[:, 0] - r0)) / dmax
    far = np.abs(zt) > 1e-9
    if far.any():
        ra = zl[far] / zt[far]
        rb = zl[far] / np.conj(zt[far])
        # the centroid itself is only known to ~eps * array size (in samples); for a sample at distance s from it
        # that is a relative error eps*size/s in the ratio below
        # (a centroid is a ratio of two sums over all masked samples: its rounding error grows with their number - up to
        # ~1e-11 samples for 6e4 of them -, which matters for a sample that lies 1e-5 samples from the centroid)
        ptol = 1e-9 + 64 * np.finfo(float).eps * max(mask.shape) * max(4.0, np.sqrt(len(idx))) / (np.abs(zt[far]) * dmax)
        k0 = int(np.argmax(np.abs(zt[far])))             # reference direction from the farthest sample
        ok = (np.all(np.abs(ra - ra[k0]) < ptol) and abs(abs(ra[k0]) - 1) < 1e-9) or \
             (np.all(np.abs(rb - rb[k0]) < ptol) and abs(abs(rb[k0]) - 1) < 1e-9)
        if not ok:
            raise Violation("C11.coords.theta", "theta is not the polar angle about the mask centroid")
    j = case["j"]
    with lentil_call("C11.coords", f"zernike(mask, {j})"):
        z = np.asarray(lentil.zernike(mask, j), dtype=float)
        z2 = np.asarray(lentil.zernike(mask * case["scale"], j), dtype=float)
        zc = np.asarray(lentil.zernike(mask, j, rho=rho, theta=theta), dtype=float)
    if z.shape != mask.shape or np.any(z[mask == 0] != 0):
        raise Violation("C11.coords.offmask", "mode is not zero outside the mask")
    if not np.allclose(z, z2, rtol=0, atol=1e-12 * (1 + np.max(np.abs(z)))):
        raise Violation("C11.coords.support_only", f"mode changes when the mask's non-zero values are rescaled by "
                                                   f"{case['scale']}")
    if not np.allclose(z, zc, rtol=0, atol=1e-12 * (1 + np.max(np.abs(z)))):
        raise Violation("C11.coords.consistent", "default coordinates differ from zernike_coordinates(mask)")


# --- history: masks that share array shape and centroid but differ in extent ------------------------

@st.composite
def concentric_case(draw, tier):
    hi = 24 if tier == "quick" else 40
    shape = draw(gen.shape2(9, hi))
    m, n = shape
    r0 = draw(st.integers(3, m - 4))
    c0 = draw(st.integers(3, n - 4))
    room = min(r0, m - 1 - r0, c0, n - 1 - c0)
    masks = []
    for _ in range(draw(st.integers(2, 4))):
        kind = draw(st.sampled_from(["disc", "box", "ring", "cross"]))
        masks.append({"kind": kind, "a": draw(st.integers(1, room)), "b": draw(st.integers(1, room))})
    return {"shape": list(shape), "centre": [r0, c0], "masks": masks, "j": draw(st.integers(1, 22)),
            "normalize": draw(st.booleans())}


def _concentric_mask(shape, centre, d):
    yy, xx = np.mgrid[0:shape[0], 0:shape[1]]
    dy, dx = yy - centre[0], xx - centre[1]
    a, b = d["a"], d["b"]
    if d["kind"] == "disc":
        return (dy ** 2 + dx ** 2 <= a ** 2).astype(int)
    if d["kind"] == "box":
        return ((np.abs(dy) <= a) & (np.abs(dx) <= b)).astype(int)
    if d["kind"] == "ring":
        return ((dy ** 2 + dx ** 2 <= a ** 2) & (dy ** 2 + dx ** 2 >= (a // 2) ** 2)).astype(int)
    return (((np.abs(dy) <= a) & (dx == 0)) | ((np.abs(dx) <= b) & (dy == 0))).astype(int)


@hyp("C11", "coordinates_history", lambda tier: concentric_case(tier),
     "2-4 point-symmetric masks that share array shape and centroid but differ in extent, evaluated one after the "
     "other: each must get rho = 1 at ITS farthest sample and the textbook value there", examples=(300, 1200))
def coordinates_history(case, ctx):
    shape, centre = tuple(case["shape"]), case["centre"]
    j = case["j"]
    _, nn, am, kind = _seq(20000)[j - 1]
    extents = []
    ctx.tag(f"masks:{len(case['masks'])}", gen.parity_tags("m", shape))
    for i, d in enumerate(case["masks"]):
        mask = _concentric_mask(shape, centre, d)
        idx = np.argwhere(mask != 0)
        if len(idx) < 2:
            continue
        dist = np.hypot(idx[:, 0] - centre[0], idx[:, 1] - centre[1])
        dmax = dist.max()
        extents.append(round(float(dmax), 6))
        with lentil_call("C11.history", f"zernike_coordinates / zernike (mask {i}: {d['kind']})"):
            rho, theta = lentil.zernike_coordinates(mask)
            z = np.asarray(lentil.zernike(mask, j, normalize=case["normalize"]), dtype=float)
        rm = rho[mask != 0]
        if abs(rm.max() - 1) > 1e-12 or np.max(np.abs(rm * dmax - dist)) > 1e-9 * (1 + dmax):
            raise Violation("C11.history.rho", f"mask {i} ({d['kind']}, extent {dmax:.3f}) evaluated after masks with "
                                               f"extents {extents[:-1]}: max rho = {rm.max():.6f}, rho*extent differs from "
                                               f"the distance to the centroid by {np.max(np.abs(rm * dmax - dist)):.3f}")
        # (rho was just checked against distance/extent at 1e-9; the textbook value is taken at lentil's own rho so
        # that the last-bit error of the floating-point centroid does not enter the comparison)
        ref, mag = zern.mode(nn, am, kind, rm, theta[mask != 0], normalize=case["normalize"])
        sign = _sine_sign() if kind == "sin" else 1.0
        tol = 64 * np.finfo(float).eps * (np.asarray(mag, dtype=float) * (1 + am * 4) + 1.0)
        if np.any(np.abs(z[mask != 0] - sign * np.asarray(ref, dtype=float)) > tol):
            raise Violation("C11.history.value", f"mode {j} over mask {i} ({d['kind']}) differs from the textbook value at "
                                                 f"rho = distance/extent after evaluating masks with extents {extents[:-1]}")
    ctx.nontrivial_if(len(set(extents)) >= 2)


# --- masks of more than a million samples ------------------------------------------------------------------------

@hyp("C11", "mega", lambda tier: st.fixed_dictionaries({"shape": gen.mega_shape().map(list), "j": st.integers(2, 36),
                                                        "normalize": st.booleans(), "seed": st.integers(0, 2**31 - 1)}),
     "one mode on a mask of more than 2^20 samples with default coordinates: zero off the mask, textbook value at "
     "lentil's own (rho, theta) on it, rho = 1 at the farthest masked sample", examples=(3, 12), budget_s=(150, 700))
def mega(case, ctx):
    m, n = case["shape"]
    j = case["j"]
    _, nn, am, kind = _seq(20000)[j - 1]
    yy, xx = np.mgrid[0:m, 0:n]
    r0, c0 = m * 0.47, n * 0.52
    mask = (((yy - r0) / (0.45 * m)) ** 2 + ((xx - c0) / (0.44 * n)) ** 2 <= 1).astype(int)
    ctx.tag("mega", kind)
    ctx.nontrivial_if(True)
    with lentil_call("C11.mega", f"zernike(mask {m}x{n}, j={j})"):
        rho, theta = lentil.zernike_coordinates(mask)
        got = np.asarray(lentil.zernike(mask, j, normalize=case["normalize"]), dtype=float)
    if got.shape != (m, n) or np.any(got[mask == 0] != 0):
        raise Violation("C11.mega.outside", f"mode j={j} on a {m}x{n} mask is not zero outside the mask")
    sel = mask != 0
    if abs(float(rho[sel].max()) - 1) > 1e-12:
        raise Violation("C11.mega.rho_max", f"max rho over the mask = {float(rho[sel].max())}")
    ref, mag = zern.mode(nn, am, kind, rho[sel], theta[sel], normalize=case["normalize"])
    sign = _sine_sign() if kind == "sin" else 1.0
    tol = 64 * np.finfo(float).eps * (np.asarray(mag, dtype=float) * (1 + am * np.abs(theta[sel])) + 1.0)
    if np.any(np.abs(got[sel] - sign * np.asarray(ref, dtype=float)) > tol):
        raise Violation("C11.mega.value", f"mode j={j} on a {m}x{n} mask differs from the textbook polynomial at "
                                          f"lentil's own coordinates")
