"""C09 - FFT propagation agrees with DFT propagation; scratch space is transparent."""
import numpy as np
from hypothesis import strategies as st

import lentil
from checks import common as cm
from vlib import gen
from vlib.ref import dft as rdft
from vlib.ref import plane_model as pm
from vlib.runner import Skip, Violation, expect_raises, hyp, lentil_call

# the check's own calls are issued with keywords or positionally in the documented order (vlib/callforms.py)
from vlib import callforms as _cf
lentil = _cf.proxy(lentil)

RULE = ("FFT grids 2..32 per axis of either parity with pupils no larger than the grid, isotropic "
        "non-commensurate samplings (reported wavelength != requested) and per-axis commensurate samplings, "
        "oversampling 1-4, output shapes (none / accepted / too large), scratch buffers (none / exact / larger / "
        "dirty / reused); non-trivial = pupil not point-symmetric; distinct = distinct canonical descriptors")
ASSUMPTIONS = [
    "reference: longdouble unitary DFT of the model input field with alpha = 1/N per axis (= the sampling at the "
    "reported propagation wavelength), compared on the central shape*oversample samples",
    "per-axis samplings are restricted to those implying one propagation wavelength on both axes",
    "1/alpha is kept at least 0.05 away from a rounding boundary of round()",
]


@st.composite
def fft_setup(draw, tier="quick", max_grid=None):
    hi = max_grid or (20 if tier == "quick" else 32)
    os_ = draw(st.integers(1, 4))
    wl = draw(gen.finite(0.4e-6, 2e-6))
    z = draw(gen.finite(0.5, 30.0))
    exotic = draw(st.integers(0, 5)) == 0      # the same geometry at unusual physical magnitudes
    if exotic:
        wl = draw(gen.pos_log(1e-9, 1e-3))
        z = draw(gen.pos_log(1e-3, 1e3))
    iso = draw(st.booleans())
    if iso:
        N = draw(st.integers(2, hi))
        grid = (N, N)
        delta = draw(gen.finite(-0.45, 0.45)) if draw(st.booleans()) else 0.0
        dx = draw(gen.pos_log(1e-8, 1.0)) if exotic else draw(gen.pos_log(1e-4, 1e-1))
        du = wl * z * os_ / (dx * (N + delta))
        dxa, dua = dx, du
    else:
        grid = draw(gen.shape2(2, hi))
        dxr = draw(gen.pos_log(1e-8, 1.0)) if exotic else draw(gen.pos_log(1e-4, 1e-1))
        dxc = dxr * draw(st.sampled_from([1.0, 0.5, 1.7]))
        dxa = [dxr, dxc]
        dua = [wl * z * os_ / (dxr * grid[0]), wl * z * os_ / (dxc * grid[1])]
        delta = 0.0
    m = draw(st.integers(1, grid[0]))
    n = draw(st.integers(1, grid[1]))
    if m * n == 1:
        m, n = (min(2, grid[0]), min(2, grid[1]))
    return {"grid": list(grid), "pshape": [m, n], "oversample": os_, "wavelength": wl, "z": z, "dx": dxa,
            "du": dua, "delta": delta, "iso": iso}


@st.composite
def pupil_for(draw, pshape, wl):
    amp, opd, mask = draw(gen.aperture(tuple(pshape), wl, max_waves=1.0, min_samples=2))
    seg = draw(st.sampled_from([False, False, True]))
    labels = None
    if seg and mask.sum() >= 4:
        labels, _ = draw(gen.partition(mask.astype(bool), kmax=3))
    return {"amp": amp, "opd": opd, "mask": mask, "labels": labels}


@st.composite
def fft_case(draw, tier="quick"):
    s = draw(fft_setup(tier))
    s["pupil"] = draw(pupil_for(s["pshape"], s["wavelength"]))
    grid, os_ = s["grid"], s["oversample"]
    kind = draw(st.sampled_from(["none", "accepted", "accepted", "too_large"]))
    lim = (grid[0] // os_ if grid[0] % os_ else grid[0] // os_, grid[1] // os_)
    if kind == "accepted" and min(lim) < 1:
        kind = "none"
    if kind == "accepted":
        shape = [draw(st.integers(1, lim[0])), draw(st.integers(1, lim[1]))]
        if shape[0] == shape[1] and draw(st.booleans()):
            shape = shape[0]
    elif kind == "too_large":
        shape = [lim[0] + draw(st.integers(0, 3)), lim[1] + draw(st.integers(0, 3))]
        ax = draw(st.integers(0, 1))
        shape[ax] = int(np.floor(grid[ax] / os_)) + draw(st.integers(1, 3))
    else:
        shape = None
    s["shape_kind"], s["shape"] = kind, shape
    s["scratch"] = draw(st.sampled_from(["none", "exact", "exact_dirty", "larger", "larger_dirty"]))
    s["extra"] = [draw(st.integers(0, 5)), draw(st.integers(0, 5))]
    return s


def single_sample(p):
    if p["labels"] is not None:
        for v in range(1, int(p["labels"].max()) + 1):
            b = gen.bbox(p["labels"] == v)
            if (b[1] - b[0] + 1) * (b[3] - b[2] + 1) == 1:
                return True
    b = gen.bbox(p["mask"] != 0)
    return (b[1] - b[0] + 1) * (b[3] - b[2] + 1) == 1


def build(s, p=None, wl=None):
    p = s["pupil"] if p is None else p
    wl = s["wavelength"] if wl is None else wl
    mask = p["mask"] if p["labels"] is None else np.stack([(p["labels"] == v).astype(int)
                                                          for v in range(1, int(p["labels"].max()) + 1)])
    pl, _variant = cm.build_obj(lentil.Pupil, "lentil.Pupil",
                                int(p["amp"].shape[0]) + 2 * int(p["amp"].shape[1]) + int(np.count_nonzero(p["mask"])),
                                amplitude=p["amp"].copy(), opd=p["opd"].copy(), mask=mask.copy(), pixelscale=cm.as_ps(s["dx"]),
                                focal_length=s["z"])
    w = lentil.Wavefront(wl) * pl
    model = pm.phasor(p["amp"].shape, p["amp"], p["opd"], p["mask"], wl)
    return w, model


def reference(model, grid, out_full):
    """unitary DFT with alpha = 1/N evaluated on the full grid, then the central out_full samples"""
    a = (1.0 / grid[0], 1.0 / grid[1])
    F, max_phase = rdft.dft2_ref(model, a, grid, unitary=True)
    tol = rdft.tol_dft(model, a, max_phase, True) * 4 + 64 * np.finfo(float).eps * float(np.sum(np.abs(model))) \
        * np.sqrt(a[0] * a[1]) * np.log2(max(grid) + 2)
    r0 = grid[0] // 2 - out_full[0] // 2
    c0 = grid[1] // 2 - out_full[1] // 2
    return F[r0:r0 + out_full[0], c0:c0 + out_full[1]], tol


def point_symmetric(f):
    c = (f.shape[0] // 2, f.shape[1] // 2)
    s = {tuple(p) for p in np.argwhere(f != 0).tolist()}
    return all((2 * c[0] - p[0], 2 * c[1] - p[1]) in s for p in s)


def make_scratch(kind, grid, extra, seed=0):
    if kind == "none":
        return None, None
    shape = tuple(grid) if kind.startswith("exact") else (grid[0] + extra[0], grid[1] + extra[1])
    if kind.endswith("dirty"):
        rng = np.random.default_rng(seed)
        sc = rng.normal(size=shape) + 1j * rng.normal(size=shape)
        # "any prior content": uninitialised memory or the leftovers of a propagation that hit NaN samples hold
        # NaN / infinite values too (one buffer in three: a few such samples, or all of them)
        fill = seed % 6
        if fill == 0:
            sc[rng.uniform(size=shape) < 0.2] = np.nan
        elif fill == 1:
            sc[...] = complex(np.inf, -np.inf) if seed % 4 < 2 else np.nan
    else:
        sc = np.zeros(shape, dtype=complex)
    return sc, sc.copy()


def run_fft(s, w, model, scratch_kind, oracle, wl=None, scratch=None, before=None):
    grid, os_ = tuple(s["grid"]), s["oversample"]
    wl = s["wavelength"] if wl is None else wl
    if scratch is None and scratch_kind != "none":
        with lentil_call(oracle + ".scratch_shape", "scratch_shape"):
            adv = lentil.scratch_shape(wl, s["dx"], s["du"], s["z"], os_)
        if tuple(int(v) for v in adv) != grid:
            raise Violation(oracle + ".scratch_shape", f"scratch_shape = {tuple(adv)}, FFT grid is {grid}")
        scratch, before = make_scratch(scratch_kind, grid, s["extra"], seed=grid[0] * 131 + grid[1])
    kw = {}
    if s["shape"] is not None:
        kw["shape"] = cm.shape_arg(s["shape"])
    if scratch is not None:
        kw["scratch"] = scratch
    with lentil_call(oracle, f"propagate_fft(grid {grid}, pupil {model.shape}, scratch {scratch_kind})"):
        out = lentil.propagate_fft(w, pixelscale=cm.as_ps(s["du"]), oversample=os_, **kw)
        got = out.field
    if s["shape"] is None:
        full = grid
    else:
        sp = cm.shape_pair(s["shape"])
        full = (sp[0] * os_, sp[1] * os_)
    ref, tol = reference(model, grid, full)
    cm.compare_field(oracle, got, ref, tol, None, what=f"grid {grid} pupil {model.shape} out {full} scratch {scratch_kind}:")
    # reported propagation wavelength = the wavelength at which 1/alpha is exactly the grid
    dxp, dup = cm.ps_pair(s["dx"]), cm.ps_pair(s["du"])
    lam = min(grid[0] / os_ * dxp[0] * dup[0] / s["z"], grid[1] / os_ * dxp[1] * dup[1] / s["z"])
    if abs(out.wavelength - lam) > 1e-12 * lam:
        raise Violation(oracle + ".wavelength", f"reported wavelength {out.wavelength} != {lam}")
    if not np.allclose(np.asarray(out.pixelscale, dtype=float), (dup[0] / os_, dup[1] / os_), rtol=1e-15, atol=0):
        raise Violation(oracle + ".pixelscale", f"pixelscale {tuple(out.pixelscale)}")
    if scratch is not None and before is not None and scratch.shape != grid:
        outside = np.ones(scratch.shape, dtype=bool)
        outside[:grid[0], :grid[1]] = False
        if not np.array_equal(scratch[outside], before[outside], equal_nan=True):
            raise Violation(oracle + ".scratch_outside", "scratch buffer modified outside the advertised region")
    return out, got, ref, tol


@hyp("C09", "fft", lambda tier: fft_case(tier),
     "propagate_fft vs the unitary DFT at the reported wavelength; shape acceptance; scratch none/exact/larger/"
     "dirty give the same field; lentil.propagate_dft differential when the sampling is commensurate",
     examples=(600, 2500), budget_s=(150, 900))
def fft(s, ctx):
    if single_sample(s["pupil"]):
        raise Skip("single_sample_segment(known)")
    grid, os_ = tuple(s["grid"]), s["oversample"]
    psh = tuple(s["pshape"])
    with lentil_call("C09.build", "Pupil multiply"):
        w, model = build(s)
    ctx.tag("odd_grid" if grid[0] % 2 or grid[1] % 2 else "even_grid",
            "odd_pupil_even_grid" if any(p % 2 == 1 and g % 2 == 0 for p, g in zip(psh, grid)) else None,
            "even_pupil_odd_grid" if any(p % 2 == 0 and g % 2 == 1 for p, g in zip(psh, grid)) else None,
            "scratch:" + s["scratch"], "shape:" + s["shape_kind"],
            "rounded_wavelength" if s["delta"] != 0 else "commensurate", "iso" if s["iso"] else "per_axis",
            f"os:{os_}", "segmented" if s["pupil"]["labels"] is not None else None,
            "nonsquare_grid" if grid[0] != grid[1] else None)
    ctx.nontrivial_if(np.count_nonzero(model) >= 2 and not point_symmetric(model))
    if s["shape_kind"] == "too_large":
        expect_raises("C09.shape.refuse", (ValueError,),
                      lambda: lentil.propagate_fft(w, pixelscale=cm.as_ps(s["du"]), shape=cm.shape_arg(s["shape"]),
                                                   oversample=os_),
                      f"shape {s['shape']} larger than grid {grid}/os {os_}")
        return
    out, got, ref, tol = run_fft(s, w, model, s["scratch"], "C09.fft")
    if s["scratch"] != "none":
        out0, got0, _, _ = run_fft(s, w, model, "none", "C09.fft.noscratch")
        if cm.max_abs(got - got0) > 1e-14 * max(cm.max_abs(got0), 1e-300) + 1e-300:
            raise Violation("C09.scratch.transparent", f"result with scratch ({s['scratch']}) differs from the result "
                                                       f"without by {cm.max_abs(got - got0):.3e}")
    if s["delta"] == 0.0 and s["iso"]:
        # second leg: the image wavefront (possibly cropped to fewer samples than the grid) taken on with the FFT
        # propagator - in the pupil plane's sampling the grid is the same - without and with a dirty scratch buffer: both
        # must be the unitary DFT of what the wavefront reports as its field
        fld = np.asarray(out.field)
        dxs = float(np.atleast_1d(np.asarray(s["dx"], dtype=float))[0])
        ref2, tol2 = reference(fld, grid, grid)
        legs = {}
        for kind in ("none", "dirty"):
            kw2 = {} if kind == "none" else {"scratch": np.full(grid, 2.0 - 3.0j)}
            with lentil_call("C09.second_leg", f"propagate_fft of the image wavefront {fld.shape} on grid {grid} (scratch {kind})"):
                legs[kind] = lentil.propagate_fft(out, pixelscale=dxs, oversample=1, **kw2).field
            if legs[kind].shape != tuple(grid):
                raise Skip("second_leg_on_another_grid")           # (rounding put the second grid elsewhere)
            cm.compare_field("C09.second_leg", legs[kind], ref2, tol2, None,
                             what=f"image wavefront {fld.shape} (cropped from grid {grid}) propagated again, scratch {kind}:")
        ctx.tag("second_leg", "second_leg:cropped_input" if fld.shape != tuple(grid) else None)
    if s["delta"] == 0.0:
        # commensurate: the reported wavelength is the requested one, so propagate_dft of the same wavefront
        # must give the same field on the same samples
        full = got.shape
        if full[0] % os_ == 0 and full[1] % os_ == 0:
            with lentil_call("C09.dft_diff", "propagate_dft"):
                wd = lentil.propagate_dft(w, pixelscale=cm.as_ps(s["du"]), shape=(full[0] // os_, full[1] // os_),
                                          oversample=os_)
                d = wd.field
            if s["iso"]:
                # ... and the image wavefront that propagate_dft returned taken on with the FFT propagator as well
                dxs = float(np.atleast_1d(np.asarray(s["dx"], dtype=float))[0])
                ref3, tol3 = reference(np.asarray(d), grid, grid)
                for kind in ("none", "dirty"):
                    kw3 = {} if kind == "none" else {"scratch": np.full(grid, -1.0 + 2.0j)}
                    with lentil_call("C09.second_leg", f"propagate_fft of propagate_dft's image wavefront {d.shape} (scratch {kind})"):
                        b3 = lentil.propagate_fft(wd, pixelscale=dxs, oversample=1, **kw3).field
                    if b3.shape != tuple(grid):
                        raise Skip("second_leg_on_another_grid")
                    cm.compare_field("C09.second_leg", b3, ref3, tol3, None,
                                     what=f"propagate_dft image wavefront {d.shape} propagated with the FFT, scratch {kind}:")
                ctx.tag("second_leg_from_dft")
            if d.shape != got.shape or cm.max_abs(d - got) > 4 * tol:
                raise Violation("C09.dft_diff", f"propagate_fft and propagate_dft differ by {cm.max_abs(d - got):.3e} "
                                                f"(grid {grid}, pupil {psh})")


# --- tilt must be refused -------------------------------------------------------------------------

@st.composite
def tilt_refuse_case(draw, tier="quick"):
    s = draw(fft_setup(tier, max_grid=12))
    s["pupil"] = draw(pupil_for(s["pshape"], s["wavelength"]))
    s["how"] = draw(st.sampled_from(["wavefront", "tilt_plane_before", "tilt_plane_after", "fit_tilt"]))
    s["angle"] = [draw(gen.finite(-1e-4, 1e-4)), draw(gen.finite(-1e-4, 1e-4))]
    return s


@hyp("C09", "tilt_refused", lambda tier: tilt_refuse_case(tier),
     "wavefronts carrying tilt metadata (Wavefront(tilt), Tilt plane before/after, fit_tilt) must raise "
     "NotImplementedError in propagate_fft", examples=(150, 500))
def tilt_refused(s, ctx):
    if single_sample(s["pupil"]):
        raise Skip("single_sample_segment(known)")
    p = s["pupil"]
    ctx.tag("how:" + s["how"])
    ctx.nontrivial_if(True)
    with lentil_call("C09.tilt.build", "build tilted wavefront"):
        pl = lentil.Pupil(amplitude=p["amp"].copy(), opd=p["opd"].copy(), mask=p["mask"].copy(),
                          pixelscale=cm.as_ps(s["dx"]), focal_length=s["z"])
        t = lentil.Tilt(x=s["angle"][0], y=s["angle"][1])
        if s["how"] == "wavefront":
            w = lentil.Wavefront(s["wavelength"], tilt=list(s["angle"])) * pl
        elif s["how"] == "tilt_plane_before":
            w = (lentil.Wavefront(s["wavelength"]) * t) * pl
        elif s["how"] == "tilt_plane_after":
            w = (lentil.Wavefront(s["wavelength"]) * pl) * t
        else:
            if p["mask"].sum() < 3:
                raise Skip("too_few_samples_for_fit")
            w = lentil.Wavefront(s["wavelength"]) * pl.fit_tilt()
    expect_raises("C09.tilt.refuse", (NotImplementedError,),
                  lambda: lentil.propagate_fft(w, pixelscale=cm.as_ps(s["du"]), oversample=s["oversample"]),
                  f"propagate_fft of a wavefront with tilt ({s['how']})")


# --- history: one scratch buffer reused over several propagations -----------------------------------

@st.composite
def reuse_case(draw, tier="quick"):
    dx = draw(gen.pos_log(1e-4, 1e-1))
    z = draw(gen.finite(0.5, 30.0))
    os_ = draw(st.integers(1, 3))
    wl0 = draw(gen.finite(0.5e-6, 1e-6))
    N0 = draw(st.integers(4, 18))
    du = wl0 * z * os_ / (dx * N0)
    steps = []
    for _ in range(draw(st.integers(2, 6))):
        N = draw(st.integers(max(2, N0 - 3), N0 + 6))
        delta = draw(st.sampled_from([0.0, 0.3, -0.3, 0.12]))
        wl = (N + delta) * dx * du / (z * os_)
        m, n = draw(st.integers(1, N)), draw(st.integers(1, N))
        if m * n == 1:
            m = n = min(2, N)
        steps.append({"N": N, "wavelength": wl, "pupil": draw(pupil_for([m, n], wl))})
    return {"dx": dx, "du": du, "z": z, "oversample": os_, "steps": steps,
            "extra": [draw(st.integers(0, 4)), draw(st.integers(0, 4))], "dirty": draw(st.booleans())}


@hyp("C09", "scratch_reuse", lambda tier: reuse_case(tier),
     "one scratch buffer (sized by scratch_shape for the longest wavelength, possibly larger and dirty) reused for "
     "2-6 propagations at different wavelengths and pupils; each result vs the reference", examples=(150, 600),
     budget_s=(120, 600))
def scratch_reuse(case, ctx):
    steps = case["steps"]
    if any(single_sample(st_["pupil"]) for st_ in steps):
        raise Skip("single_sample_segment(known)")
    wls = [st_["wavelength"] for st_ in steps]
    with lentil_call("C09.reuse.scratch_shape", "scratch_shape(list of wavelengths)"):
        adv = tuple(int(v) for v in lentil.scratch_shape(wls, case["dx"], case["du"], case["z"], case["oversample"]))
    Nmax = max(st_["N"] for st_ in steps)
    if adv != (Nmax, Nmax):
        raise Violation("C09.reuse.scratch_shape", f"scratch_shape(wavelengths) = {adv}, largest grid is {Nmax}")
    shape = (adv[0] + case["extra"][0], adv[1] + case["extra"][1])
    rng = np.random.default_rng(Nmax)
    scratch = (rng.normal(size=shape) + 1j * rng.normal(size=shape)) if case["dirty"] else np.zeros(shape, dtype=complex)
    if case["dirty"] and (shape[0] + shape[1]) % 3 == 0:
        scratch[rng.uniform(size=shape) < 0.3] = np.nan          # prior content that is not even finite
    ctx.tag(f"steps:{len(steps)}", "dirty" if case["dirty"] else "clean", "exact" if shape == adv else "larger",
            "grids_differ" if len({st_["N"] for st_ in steps}) > 1 else None)
    ctx.nontrivial_if(len({st_["N"] for st_ in steps}) > 1)
    kept = []
    for i, st_ in enumerate(steps):
        s = {"grid": [st_["N"], st_["N"]], "oversample": case["oversample"], "wavelength": st_["wavelength"],
             "z": case["z"], "dx": case["dx"], "du": case["du"], "shape": None, "extra": case["extra"],
             "pupil": st_["pupil"]}
        with lentil_call("C09.reuse.build", "Pupil multiply"):
            w, model = build(s)
        before = scratch.copy()
        out_i, _got, ref_i, tol_i = run_fft(s, w, model, "reused", "C09.reuse", wl=st_["wavelength"], scratch=scratch, before=before)
        kept.append((i, out_i, ref_i, tol_i))
    # results obtained earlier with the buffer are still what they were: later propagations through the same buffer
    # (and the caller scribbling over it) do not reach them
    scratch[...] = -7.0 + 5.0j
    for i, out_i, ref_i, tol_i in kept:
        with lentil_call("C09.reuse.kept", f"field of the result of step {i} read after the loop"):
            again = out_i.field
        cm.compare_field("C09.reuse.kept", again, ref_i, tol_i, None, what=f"result of step {i} of {len(steps)} read after the "
                                                                          f"buffer was used again:")


# --- round-number set-ups whose grid size is decided by a rounding tie ------------------------------

@st.composite
def ties_case(draw, tier="quick"):
    dx = draw(st.sampled_from([1 / 50, 1 / 40, 0.01, 0.02, 0.025, 1e-3, 5e-3, 1 / 64]))
    du = draw(st.sampled_from([5e-6, 1e-5, 4e-6, 2.5e-6, 1.5e-5, 8e-6]))
    z = draw(st.sampled_from([0.5, 1.0, 2.0, 5.0, 10.0, 20.0]))
    os_ = draw(st.integers(1, 3))
    hi = 40 if tier == "quick" else 72
    band = []
    for _ in range(draw(st.integers(1, 4))):
        N = draw(st.integers(4, hi))
        frac = draw(st.sampled_from([0.5, 0.5, 0.5, 0.0, 0.25]))
        form = draw(st.sampled_from(["direct", "nm_times", "nm_div", "decimal"]))
        ulps = draw(st.integers(-2, 2))
        x = (N + frac) * dx * du / (z * os_)
        nm = round(x * 1e9, 6)
        if form == "nm_times":
            wl = nm * 1e-9
        elif form == "nm_div":
            wl = nm / 1e9
        elif form == "decimal":
            wl = float(f"{nm:.6f}e-9")
        else:
            wl = x
        for _ in range(abs(ulps)):
            wl = float(np.nextafter(wl, np.inf if ulps > 0 else -np.inf))
        band.append({"N": N, "frac": frac, "form": form, "ulps": ulps, "wavelength": wl})
    Nmin = min(b["N"] for b in band)
    m, n = draw(st.integers(2, Nmin)), draw(st.integers(2, Nmin))
    return {"dx": dx, "du": du, "z": z, "oversample": os_, "band": band,
            "pupil": draw(pupil_for([m, n], band[0]["wavelength"])), "as_array": draw(st.booleans())}


@hyp("C09", "ties", lambda tier: ties_case(tier),
     "round-number set-ups (catalogue pixel pitches, focal lengths, wavelengths on a decimal nm grid) where "
     "wavelength*z*oversample/(dx*du) sits on or within 2 ulp of N+1/2: a dirty buffer of exactly "
     "scratch_shape(band) must be accepted for every wavelength of the band and give the field obtained without "
     "scratch, which must be the DFT on whichever of the two adjacent grids was chosen", examples=(600, 2000),
     budget_s=(120, 600))
def ties(case, ctx):
    if single_sample(case["pupil"]):
        raise Skip("single_sample_segment(known)")
    os_, band = case["oversample"], case["band"]
    wls = [b["wavelength"] for b in band]
    arg = np.asarray(wls) if case["as_array"] else (wls if len(wls) > 1 else wls[0])
    with lentil_call("C09.ties.scratch_shape", "scratch_shape(band)"):
        adv = tuple(int(v) for v in lentil.scratch_shape(arg, case["dx"], case["du"], case["z"], os_))
    rng = np.random.default_rng(adv[0] * 977 + adv[1])
    scratch = rng.normal(size=adv) + 1j * rng.normal(size=adv)
    ctx.tag(f"band:{len(band)}", "has_tie" if any(b["frac"] == 0.5 for b in band) else "no_tie",
            *sorted({"form:" + b["form"] for b in band}), *sorted({f"ulps:{b['ulps']}" for b in band}))
    ctx.nontrivial_if(any(b["frac"] == 0.5 for b in band))
    for b in band:
        s = {"grid": None, "oversample": os_, "wavelength": b["wavelength"], "z": case["z"], "dx": case["dx"],
             "du": case["du"], "shape": None, "extra": [0, 0], "pupil": case["pupil"]}
        with lentil_call("C09.ties.build", "Pupil multiply"):
            w, model = build(s)
        what = (f"wavelength {b['wavelength']!r} (N+frac = {b['N']}+{b['frac']}, {b['form']}, {b['ulps']:+d} ulp), dx "
                f"{case['dx']}, du {case['du']}, z {case['z']}, oversample {os_}")
        with lentil_call("C09.ties.noscratch", "propagate_fft without scratch: " + what):
            out0 = lentil.propagate_fft(w, pixelscale=case["du"], oversample=os_)
            f0 = out0.field
        grid = f0.shape
        lo = b["N"] - 1 if b["frac"] == 0.0 else b["N"]
        if grid[0] != grid[1] or not lo <= grid[0] <= b["N"] + 1:
            raise Violation("C09.ties.grid", f"FFT grid {grid} for {what}")
        try:
            out1 = lentil.propagate_fft(w, pixelscale=case["du"], oversample=os_, scratch=scratch)
        except ValueError as e:
            raise Violation("C09.ties.advertised_refused", f"a buffer of exactly scratch_shape(band) = {adv} was refused "
                                                           f"({e}) for {what}; band {wls}")
        except Exception as e:  # noqa: BLE001
            raise Violation("C09.ties.raised", f"propagate_fft with the advertised scratch raised {type(e).__name__}: {e}")
        f1 = out1.field
        if f1.shape != grid or cm.max_abs(f1 - f0) > 1e-14 * max(cm.max_abs(f0), 1e-300):
            raise Violation("C09.ties.transparent", f"result with the advertised scratch differs from the result without "
                                                    f"for {what}")
        ref, tol = reference(model, grid, grid)
        cm.compare_field("C09.ties.value", f0, ref, tol, None, what=f"grid {grid}: " + what)
        lam = grid[0] / os_ * case["dx"] * case["du"] / case["z"]
        if abs(out0.wavelength - lam) > 1e-12 * lam or abs(out1.wavelength - lam) > 1e-12 * lam:
            raise Violation("C09.ties.wavelength", f"reported wavelength {out0.wavelength} != {lam} for grid {grid}")
