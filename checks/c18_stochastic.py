"""C18 - stochastic models are reproducible from their seed and physically bounded."""
import random

import numpy as np
from hypothesis import strategies as st

import lentil
from lentil import detector
from vlib import gen
from vlib.runner import Skip, Violation, expect_raises, hyp, lentil_call

# the check's own calls are issued with keywords or positionally in the documented order (vlib/callforms.py)
from vlib import callforms as _cf
lentil = _cf.proxy(lentil)
detector = _cf.proxy(detector, "detector.")

RULE = ("seeds 0..2^32, frame shapes incl. non-square, signal levels 0..1e15 (Poisson) / 1e3..1e12 (Gaussian), "
        "negative and > 9.2e18 signals (scalar and inside arrays) for both methods, read-noise sigma, dark rates and "
        "pattern factors, power-spectrum masks of any aspect ratio, global RNG states for cosmic rays; non-trivial = "
        "frame of at least 16 samples with non-degenerate parameters; distinct = distinct canonical descriptors")
ASSUMPTIONS = [
    "moment checks use 7-sigma bounds on n >= 5e4 samples: per-assertion false-alarm probability < 3e-12",
    "different seeds must give different frames only for frames of >= 16 samples with non-zero noise",
    "the variance clause of shot noise is checked for signals <= 1e12 (numpy's own Poisson sampler is inaccurate in "
    "its variance above ~1e13); mean, support and integrality over the whole range",
    "Gaussian shot-noise moments only in the documented large-count regime (lambda >= 1e3); its truncation toward "
    "zero is allowed for with +-1 on the mean and +1 on the variance",
]


def rng_states():
    return np.random.get_state(), random.getstate()


def states_equal(a, b):
    return a[1] == b[1] and a[0][0] == b[0][0] and np.array_equal(a[0][1], b[0][1]) and a[0][2:] == b[0][2:]


# --- reproducibility -----------------------------------------------------------------------------------

@st.composite
def seed_case(draw, tier):
    fn = draw(st.sampled_from(["shot_poisson", "shot_gaussian", "read_noise", "dark_current", "rule07", "power_spectrum"]))
    shape = draw(gen.shape2(4, 20))
    # (seed 0 is a seed like any other - it must not be taken for "no seed": one case in six)
    return {"fn": fn, "shape": list(shape), "seed": 0 if draw(st.integers(0, 5)) == 0 else draw(st.integers(0, 2**32 - 1)),
            "seed2": draw(st.integers(0, 2**32 - 1)), "level": draw(gen.pos_log(1e3, 1e9)),
            "sigma": draw(gen.pos_log(0.5, 100.0)), "fpn": draw(gen.finite(0.05, 0.4)),
            "pre_seed": draw(st.integers(0, 2**31 - 1))}


PARAM_FORMS = ["python", "python", "float64", "array0d", "array0d"]


def params_for(case):
    """the scalar parameters of the model as Python floats, numpy scalars or 0-d arrays (what np.load / HDF5 / squeeze()
    hand back) - ONE set of objects per case, passed to every call of the case and looked at again afterwards"""
    form = PARAM_FORMS[(3 * case["shape"][0] + case["shape"][1] + case["seed2"]) % len(PARAM_FORMS)]
    raw = {"level": case["level"], "sigma": case["sigma"], "fpn": case["fpn"], "temp": 120.0, "cutoff": 5e-6, "pitch": 18e-6,
           "pixelscale": 1e-3, "rms": 5e-8, "half_power_freq": 8.0, "exp": 3.0}
    conv = {"python": float, "float64": np.float64, "array0d": lambda v: np.array(float(v))}[form]
    return {k: conv(v) for k, v in raw.items()}, raw, form


def call_fn(case, seed, P=None):
    shape = tuple(case["shape"])
    fn = case["fn"]
    if P is None:
        P = params_for(case)[0]
    # the seed as a Python int or as a numpy integer scalar (same value); sequences go through as they are
    if not isinstance(seed, (list, tuple, np.ndarray)) and seed < 2**32:
        seed = gen.typed_scalar(seed, ["python", "python", "int64", "uint32", "uint64"][(case["shape"][0] + case["shape"][1]) % 5])
    if fn == "shot_poisson":
        return detector.shot_noise(np.full(shape, case["level"]), method="poisson", seed=seed)
    if fn == "shot_gaussian":
        return detector.shot_noise(np.full(shape, case["level"]), method="gaussian", seed=seed)
    if fn == "read_noise":
        return detector.read_noise(np.zeros(shape), P["sigma"], seed=seed)
    if fn == "dark_current":
        return detector.dark_current(P["level"], shape, fpn_factor=P["fpn"], seed=seed)
    if fn == "rule07":
        return detector.rule07_dark_current(P["temp"], P["cutoff"], P["pitch"], shape, fpn_factor=P["fpn"], seed=seed)
    m = np.ones(shape)
    m[0, 0] = 0
    return lentil.power_spectrum(m, P["pixelscale"], P["rms"], P["half_power_freq"], P["exp"], seed=seed)


@hyp("C18", "seeded", lambda tier: seed_case(tier),
     "every seeded model is a deterministic function of (arguments, seed), different seeds give different frames, "
     "and a seeded call neither reads nor advances the global numpy / python random state", examples=(400, 1500))
def seeded(case, ctx):
    ctx.tag("fn:" + case["fn"], "nonsquare" if case["shape"][0] != case["shape"][1] else "square", "seed:0" if case["seed"] == 0 else None)
    ctx.nontrivial_if(case["shape"][0] * case["shape"][1] >= 16)
    P, raw, pform = params_for(case)
    ctx.tag("param_form:" + pform)
    np.random.seed(case["pre_seed"])
    random.seed(case["pre_seed"])
    before = rng_states()
    with lentil_call("C18.seeded", case["fn"]):
        a = np.asarray(call_fn(case, case["seed"], P))
    after = rng_states()
    if not states_equal(before, after):
        raise Violation("C18.seeded.global_state", f"{case['fn']}(seed=...) advanced the global random state")
    np.random.seed(case["pre_seed"] + 1)          # a different global state must not matter
    with lentil_call("C18.seeded", case["fn"] + " (repeat)"):
        b = np.asarray(call_fn(case, case["seed"], P))
    if a.shape != tuple(case["shape"]):
        raise Violation("C18.seeded.shape", f"{case['fn']} returned shape {a.shape} for {tuple(case['shape'])}")
    if not np.array_equal(a, b):
        raise Violation("C18.seeded.reproducible", f"{case['fn']} with the same arguments and seed gave different frames")
    if a.size >= 16:
        # a family of related seeds (neighbours, small strides, single flipped bits up to bit 31): all frames must
        # differ pairwise - a seed that is reduced, truncated or partly ignored collides somewhere in the family
        s0 = case["seed"]
        family = [s0, case["seed2"], (s0 + 1) % 2**32, (s0 + 7) % 2**32, (s0 + 14) % 2**32, (s0 + 21) % 2**32,
                  s0 ^ (1 << 8), s0 ^ (1 << 16), s0 ^ (1 << 31), (2 * s0 + 1) % 2**32,
                  # seeds wider than 32 / 64 bits (numpy recommends 128-bit seeds): differing only in high bits
                  s0 + 2**32, s0 + 2**63, s0 + 2**64, s0 + 2**100, s0 ^ (1 << 127)]
        family = list(dict.fromkeys(family))
        frames = {s0: a}
        with lentil_call("C18.seeded", case["fn"] + " (other seeds)"):
            for sd in family[1:]:
                frames[sd] = np.asarray(call_fn(case, sd, P))
        for i, si in enumerate(family):
            for sj in family[i + 1:]:
                if np.array_equal(frames[si], frames[sj]):
                    raise Violation("C18.seeded.seed_ignored", f"{case['fn']}: seeds {si} and {sj} gave the same frame")
    if a.size >= 16:
        # sequence seeds ("None, int or array_like": (run id, frame number) pairs with 64-bit run ids): entries that
        # differ only above bit 31, and the same pair as list / tuple / uint64 array
        seqs = [[s0, 5], [s0 + 2**32, 5], [s0, 5 + 2**33], (s0 + 2**40, 5), np.array([s0 + 2**48, 5], dtype=np.uint64), [5, s0]]
        # entropy blocks of more than a thousand words (a 4 kB os.urandom read) that differ in ONE word in the middle
        long_a = (np.arange(1100, dtype=np.uint64) * 2654435761 + s0) % 2**32
        long_b = long_a.copy()
        long_b[550] = long_b[550] + np.uint64(1)
        seqs += [long_a, long_b]
        seen, uniq = set(), []
        for q in seqs:
            key = tuple(int(v) for v in q)
            if key not in seen:
                seen.add(key)
                uniq.append(q)
        seqs = uniq
        with lentil_call("C18.seeded", case["fn"] + " (sequence seeds)"):
            fr = [np.asarray(call_fn(case, q, P)) for q in seqs]
            again = np.asarray(call_fn(case, tuple(seqs[1]), P))
        if not np.array_equal(again, fr[1]):
            raise Violation("C18.seeded.reproducible", f"{case['fn']}: the sequence seed {seqs[1]} as a list and as a tuple gave different frames")
        for i in range(len(seqs)):
            for j in range(i + 1, len(seqs)):
                if np.array_equal(fr[i], fr[j]):
                    raise Violation("C18.seeded.seed_ignored", f"{case['fn']}: sequence seeds {list(map(int, seqs[i]))} and "
                                                               f"{list(map(int, seqs[j]))} gave the same frame")
    if not np.all(np.isfinite(a)):
        raise Violation("C18.seeded.finite", f"{case['fn']} returned non-finite values")
    changed = [k for k, v in raw.items() if float(P[k]) != float(v)]
    if changed:
        raise Violation("C18.seeded.parameter_mutated", f"{case['fn']} changed the caller's parameter object(s) {changed} "
                                                        f"(given as {pform}): {[(float(P[k]), raw[k]) for k in changed]}")


# --- shot noise ----------------------------------------------------------------------------------------------

@st.composite
def shot_case(draw, tier):
    method = draw(st.sampled_from(["poisson", "gaussian"]))
    lam = draw(st.sampled_from([0.0, 0.3, 5.0])) if (method == "poisson" and draw(st.booleans())) \
        else float(np.floor(draw(gen.pos_log(1e3, 1e15 if method == "poisson" else 1e12))))
    return {"method": method, "lam": lam, "seed": draw(st.integers(0, 2**32 - 1)),
            "shape": draw(st.sampled_from([[250, 200], [100, 500], [50000, 1], [224, 224], [600, 90], [80, 700],
                                           [1031, 1100], [2111, 509]])),          # the last two: more than 2^20 samples
            "gradient": draw(st.booleans())}


@hyp("C18", "shot_noise_moments", lambda tier: shot_case(tier),
     "shot noise is non-negative and integer-valued with mean and variance equal to the signal (7-sigma bounds)",
     examples=(60, 300), budget_s=(120, 900))
def shot_noise_moments(case, ctx):
    lam, method = case["lam"], case["method"]
    shape = tuple(case["shape"])
    n = shape[0] * shape[1]
    ctx.tag("method:" + method, "lam:%d" % int(np.log10(lam + 1)), "nonsquare" if shape[0] != shape[1] else None)
    ctx.nontrivial_if(lam > 0)
    img = np.full(shape, lam)
    if lam == np.floor(lam) and lam < 2**62 and case["seed"] % 3 == 0:
        img = img.astype(np.int64)                      # integer-typed photon counts
        ctx.tag("int_frame")
    with lentil_call("C18.shot", f"shot_noise({method}, lambda={lam:.3g})"):
        out = np.asarray(detector.shot_noise(img, method=method, seed=case["seed"]), dtype=float)
    if out.shape != shape:
        raise Violation("C18.shot.shape", f"shape {out.shape}")
    if np.any(out < 0):
        raise Violation("C18.shot.negative", f"negative counts from {method} shot noise at lambda={lam}")
    if np.any(out != np.floor(out)):
        raise Violation("C18.shot.integer", "shot noise is not integer-valued")
    mean, var = float(out.mean()), float(out.var())
    slack_m = 1.0 if method == "gaussian" else 0.0
    if abs(mean - lam) > 7 * np.sqrt(lam / n) + slack_m + 1e-9 * lam:
        raise Violation("C18.shot.mean", f"{method}: sample mean {mean:.6g} vs signal {lam:.6g} (n={n})")
    sd_var = np.sqrt((lam + 2 * lam ** 2) / n)
    # numpy's Poisson sampler itself loses variance accuracy above ~1e13 (3 % at 1e15): the variance clause is
    # checked up to 1e12, the mean / support clauses over the whole range
    if lam <= 1e12 and abs(var - lam) > 7 * sd_var + 1.0 + 1e-9 * lam:
        raise Violation("C18.shot.variance", f"{method}: sample variance {var:.6g} vs signal {lam:.6g} (n={n})")


@st.composite
def reject_case(draw, tier):
    return {"method": draw(st.sampled_from(["poisson", "gaussian"])), "bad": draw(st.sampled_from(["negative", "too_large"])),
            "form": draw(st.sampled_from(["scalar", "array_one_bad", "array_all_bad"])),
            "shape": list(draw(gen.shape2(1, 8))), "pos": draw(st.integers(0, 63)),
            "mag": draw(gen.pos_log(1e-3, 1e6)), "seed": draw(st.integers(0, 2**32 - 1)),
            # how the frame is stored: detector frames are often integer counts, and a saturated / flagged pixel
            # holds the largest value of its type
            "storage": draw(st.sampled_from(["float64", "float64", "int64", "uint64", "pyint", "int_list"])),
            "int_bad": draw(st.sampled_from(["type_max", "limit_plus", "drawn"])),
            "k": draw(st.integers(1, 2**20))}


def _integer_bad(case):
    """An out-of-range value that integer storage can hold exactly (None if this storage has none)."""
    st_ = case["storage"]
    if case["bad"] == "negative":
        return None if st_ == "uint64" else -max(1, min(int(case["mag"] * 1000), 2**62))
    top = {"int64": 2**63 - 1, "uint64": 2**64 - 1, "pyint": 2**64 - 1, "int_list": 2**63 - 1}[st_]
    limit = int(9.223372006484771e+18)
    if case["int_bad"] == "type_max":
        return top
    if case["int_bad"] == "limit_plus":
        return min(limit + 1024 + case["k"], top)          # just above the documented limit, below 2^63
    return min(limit + 1024 + (case["k"] * 7919) % (top - limit - 1024), top)


@hyp("C18", "shot_noise_rejects", lambda tier: reject_case(tier),
     "negative or unrepresentably large signals (scalar, or anywhere inside an array) raise ValueError for both "
     "methods", examples=(300, 1000))
def shot_noise_rejects(case, ctx):
    bad = -case["mag"] if case["bad"] == "negative" else 9.3e18 * (1 + case["mag"])
    shape = tuple(case["shape"])
    storage = case.get("storage", "float64")
    ibad = _integer_bad(case) if storage != "float64" else None
    if ibad is None:
        storage = "float64"
    if storage == "float64":
        if case["form"] == "scalar":
            img = bad
        elif case["form"] == "array_all_bad":
            img = np.full(shape, bad)
        else:
            img = np.full(shape, 2000.0)
            img.flat[case["pos"] % img.size] = bad
    else:
        bad = ibad
        if case["form"] == "scalar":
            img = bad if storage in ("pyint", "int_list") else np.dtype(storage).type(bad)
        else:
            vals = [bad] * int(np.prod(shape)) if case["form"] == "array_all_bad" else [2000] * int(np.prod(shape))
            vals[case["pos"] % len(vals)] = bad
            if storage in ("pyint", "int_list"):
                img = [vals[r * shape[1]:(r + 1) * shape[1]] for r in range(shape[0])]      # nested list of Python ints
            else:
                img = np.array(vals, dtype=storage).reshape(shape)
    ctx.tag("method:" + case["method"], "bad:" + case["bad"], "form:" + case["form"], "storage:" + storage,
            f"int_bad:{case.get('int_bad')}" if storage != "float64" and case["bad"] == "too_large" else None)
    ctx.nontrivial_if(case["form"] == "array_one_bad")
    expect_raises("C18.shot.reject", (ValueError,),
                  lambda: detector.shot_noise(img, method=case["method"], seed=case["seed"]),
                  f"shot_noise({case['method']}) with a {case['bad']} value {bad!r} ({case['form']}, stored as {storage})")


@st.composite
def boundary_case(draw, tier):
    return {"method": draw(st.sampled_from(["poisson", "gaussian"])),
            "k_sigma": draw(st.sampled_from([0.0, 0.25, 0.5, 1.0, 2.0, 3.0, 5.0, 8.0, 9.5, 9.99, 10.01, 10.5, 12.0, 20.0, 100.0,
                                             1e4, 1e6])) if draw(st.booleans()) else draw(gen.finite(0.0, 15.0)),
            "above": draw(st.sampled_from([None, None, None, 0, 1, 2, 1000])),
            "form": draw(st.sampled_from(["array_all", "array_one", "scalar"])),
            "storage": draw(st.sampled_from(["float64", "float64", "int", "int"])),
            "seed": draw(st.integers(0, 2**32 - 1))}


@hyp("C18", "shot_noise_boundary", lambda tier: boundary_case(tier),
     "signals on a ladder approaching the largest representable count (2^63 minus k standard deviations, and the "
     "first floats at/above 2^63): every call either raises ValueError or returns a well-formed draw (non-negative, "
     "finite, within 12 sigma (Gaussian) / 1e4 sigma (Poisson) of the signal, reproducible); at or above 2^63 it must raise", examples=(200, 800))
def shot_noise_boundary(case, ctx):
    top = 2.0 ** 63
    sigma = np.sqrt(top)
    if case["above"] is not None:
        lam = top
        for _ in range(case["above"]):
            lam = float(np.nextafter(lam, np.inf))
    else:
        lam = top - case["k_sigma"] * sigma
    n = 4000
    # the same ladder stored as integer counts: int64 below 2^63 (2^63 - 1 for the top rung itself), uint64 above
    dt = float
    if case.get("storage") == "int":
        dt = np.int64 if lam < top else np.uint64
        lam = int(lam)
    if case["form"] == "scalar":
        img = lam if dt is float else dt(lam)
    elif case["form"] == "array_all":
        img = np.full((40, 100), lam, dtype=dt)
    else:
        img = np.full((40, 100), 5000, dtype=dt)
        img[17, 23] = lam
    lam = float(lam)
    ctx.tag("method:" + case["method"], "form:" + case["form"], "storage:" + np.dtype(dt).name,
            "at_or_above_2^63" if lam >= top else ("within_10_sigma" if case["k_sigma"] < 10 else "below_10_sigma"))
    ctx.nontrivial_if(lam < top)
    what = f"shot_noise({case['method']}, signal 2^63 - {(top - lam) / sigma:.4g} sigma = {lam!r}, {case['form']})"
    try:
        out = detector.shot_noise(img, method=case["method"], seed=case["seed"])
    except ValueError:
        ctx.tag("rejected")
        return
    except Exception as e:  # noqa: BLE001
        raise Violation("C18.boundary.raised", f"{what} raised {type(e).__name__}: {e}")
    ctx.tag("accepted")
    if lam >= top:
        raise Violation("C18.boundary.accepted", f"{what}: an unrepresentably large signal was not rejected")
    o = np.asarray(out, dtype=float)
    v = o if case["form"] != "array_one" else o[17, 23]
    if not np.all(np.isfinite(o)) or np.any(o < 0):
        raise Violation("C18.boundary.negative", f"{what} was accepted but returned negative / non-finite counts "
                                                 f"(min {float(np.min(o)):.6g})")
    # numpy's own Poisson sampler has heavy tails at lambda ~ 9e18 (draws 50-90 sigma out in 1e6 samples), so only
    # the exact Gaussian method is held to 12 sigma; the Poisson method to 1e4 sigma (wrap-around is ~6e9 sigma)
    nsig = 12 if case["method"] == "gaussian" else 1e4
    if np.any(np.abs(np.asarray(v) - lam) > nsig * np.sqrt(lam) + 4096):
        raise Violation("C18.boundary.range", f"{what}: draw farther than {nsig:g} sigma from the signal")
    again = np.asarray(detector.shot_noise(img, method=case["method"], seed=case["seed"]), dtype=float)
    if not np.array_equal(again, o):
        raise Violation("C18.boundary.reproducible", f"{what}: same seed, different draw")


@hyp("C18", "shot_noise_huge", lambda tier: st.fixed_dictionaries(
        {"shape": st.tuples(st.integers(4097, 4300), st.integers(4097, 4300)).map(list) | st.tuples(st.integers(2049, 2300), st.integers(8193, 8400)).map(list),
         "method": st.sampled_from(["poisson", "gaussian"]), "seed": st.integers(0, 2**40), "lam": st.sampled_from([2000.0, 5e4])}),
     "shot noise on frames of more than 2^24 pixels (sizes of no special form): every block of 8 rows has mean and "
     "variance equal to the signal and depends on the seed", examples=(1, 2), budget_s=(200, 600))
def shot_noise_huge(case, ctx):
    shape = tuple(case["shape"])
    lam = case["lam"]
    ctx.tag("method:" + case["method"], "pixels>2^24")
    ctx.nontrivial_if(True)
    img = np.full(shape, lam)
    with lentil_call("C18.huge", f"shot_noise({case['method']}) on a {shape} frame"):
        a = np.asarray(detector.shot_noise(img, method=case["method"], seed=case["seed"]), dtype=np.float32)
        b = np.asarray(detector.shot_noise(img, method=case["method"], seed=case["seed"] + 1), dtype=np.float32)
    if a.shape != shape or np.any(a < 0):
        raise Violation("C18.huge.support", f"shape {a.shape} / negative counts for a {shape} frame")
    nb = shape[0] // 8
    za = ((a[:nb * 8] - lam) / np.sqrt(lam)).reshape(nb, 8 * shape[1])
    var, mean = za.var(axis=1), za.mean(axis=1)
    n = 8 * shape[1]
    bad = np.flatnonzero((np.abs(var - 1) > 7 * np.sqrt(2.0 / n) + 2.0 / lam) | (np.abs(mean) > 7 / np.sqrt(n) + 1.0 / np.sqrt(lam)))
    tail = (a[nb * 8:] - lam) / np.sqrt(lam)
    if tail.size and abs(float(tail.var()) - 1) > 7 * np.sqrt(2.0 / tail.size) + 2.0 / lam:
        bad = np.append(bad, nb)
    if bad.size:
        r = int(bad[0]) * 8
        raise Violation("C18.huge.moments", f"shot_noise({case['method']}) on a {shape} frame: rows {r}..{min(r + 7, shape[0] - 1)} "
                                            f"have normalised variance {float(var[bad[0]]) if bad[0] < nb else float(tail.var()):.4f} "
                                            f"(mean {float(mean[bad[0]]) if bad[0] < nb else float(tail.mean()):.4f}), expected 1 (0)")
    same_rows = np.flatnonzero((a == b).all(axis=1))
    if same_rows.size:
        raise Violation("C18.huge.seed", f"rows {same_rows[:4].tolist()}... of a {shape} frame are identical for two seeds")


# --- read noise, dark current -----------------------------------------------------------------------------------

@st.composite
def read_case(draw, tier):
    return {"sigma": draw(gen.pos_log(0.1, 1e4)), "seed": draw(st.integers(0, 2**32 - 1)),
            "shape": draw(st.sampled_from([[250, 200], [100, 500], [224, 224], [640, 80], [96, 530], [1031, 1100], [509, 2111]])),
            "offset": draw(gen.finite(-100, 1e4)),
            "rate": draw(gen.finite(0.0, 5000.0)), "dshape": list(draw(gen.shape2(1, 12))),
            "frame_dtype": draw(st.sampled_from(["float", "float", "int64", "uint16", "int32"]))}


@hyp("C18", "read_dark", lambda tier: read_case(tier),
     "read noise has zero mean and the requested standard deviation (7 sigma); a dark frame without pattern noise "
     "equals floor(rate) everywhere", examples=(60, 300), budget_s=(120, 600))
def read_dark(case, ctx):
    shape = tuple(case["shape"])
    n = shape[0] * shape[1]
    sig = case["sigma"]
    ctx.tag("nonsquare" if shape[0] != shape[1] else "square")
    ctx.nontrivial_if(True)
    dt = case.get("frame_dtype", "float")
    level = case["offset"] if dt == "float" else float(int(abs(case["offset"])) + 200)
    base = np.full(shape, level).astype({"float": float, "int64": np.int64, "uint16": np.uint16, "int32": np.int32}[dt])
    ctx.tag("frame:" + dt)
    base = gen.relayout(base, ["C", "F", "strided"][case["seed"] % 3])
    base0 = base.copy()
    with lentil_call("C18.read", f"read_noise({dt} frame)"):
        out = np.asarray(detector.read_noise(base, sig, seed=case["seed"]), dtype=float)
    if not np.array_equal(base, base0) or base.dtype != base0.dtype:
        raise Violation("C18.read.input_mutated", "read_noise changed its input")
    noise = out - level
    if abs(noise.mean()) > 7 * sig / np.sqrt(n) + 1e-9 * abs(level):
        raise Violation("C18.read.mean", f"read noise mean {noise.mean():.4g} for sigma {sig:.4g}")
    if abs(noise.std() - sig) > 7 * sig / np.sqrt(2 * n) + 1e-9 * abs(level):
        raise Violation("C18.read.std", f"read noise std {noise.std():.6g}, requested {sig:.6g}")
    ds = tuple(case["dshape"])
    with lentil_call("C18.dark", "dark_current(fpn_factor=0)"):
        d = np.asarray(detector.dark_current(case["rate"], ds, 0), dtype=float)
    if d.shape != ds or np.any(d != np.floor(case["rate"])):
        raise Violation("C18.dark.floor", f"dark_current({case['rate']}, {ds}, 0) is not floor(rate) everywhere")
    with lentil_call("C18.dark", "dark_current(fpn_factor>0)"):
        f = np.asarray(detector.dark_current(case["rate"], ds, 0.2, seed=case["seed"]), dtype=float)
    if f.shape != ds or np.any(f < 0) or np.any(f != np.floor(f)):
        raise Violation("C18.dark.fpn", "dark frame with pattern noise is negative or not integer-valued")


# --- power spectrum ---------------------------------------------------------------------------------------------

@st.composite
def psd_case(draw, tier):
    hi = 24 if tier == "quick" else 48
    shape = draw(gen.shape2(4, hi, big=0.03, big_pool=[64, 65, 128, 129, 256, 300, 513]))
    m = draw(gen.support_mask(shape, min_samples=4))
    return {"mask": m.astype(int), "rms": draw(gen.pos_log(1e-10, 1e-5)), "hpf": draw(gen.finite(1.0, 20.0)),
            "exp": draw(gen.finite(1.0, 4.0)), "pixelscale": draw(gen.pos_log(1e-4, 1e-1)),
            "seed": draw(st.integers(0, 2**32 - 1))}


@hyp("C18", "power_spectrum", lambda tier: psd_case(tier),
     "power_spectrum on masks of any aspect ratio: zero outside the mask, exactly the requested RMS over it",
     examples=(300, 1200))
def power_spectrum(case, ctx):
    mask = case["mask"]
    ctx.tag("nonsquare_mask" if mask.shape[0] != mask.shape[1] else "square_mask", gen.parity_tags("m", mask.shape))
    ctx.nontrivial_if(mask.shape[0] != mask.shape[1])
    m0 = mask.copy()
    with lentil_call("C18.psd", f"power_spectrum(mask {mask.shape})"):
        opd = np.asarray(lentil.power_spectrum(mask, case["pixelscale"], case["rms"], case["hpf"], case["exp"],
                                               seed=case["seed"]), dtype=float)
    if opd.shape != mask.shape:
        raise Violation("C18.psd.shape", f"shape {opd.shape} for mask {mask.shape}")
    if np.any(opd[mask == 0] != 0):
        raise Violation("C18.psd.offmask", "surface error is non-zero outside the mask")
    if not np.all(np.isfinite(opd)):
        raise Violation("C18.psd.finite", "non-finite surface error")
    rms = float(np.sqrt(np.mean(opd[mask != 0] ** 2)))
    if abs(rms - case["rms"]) > 1e-10 * case["rms"]:
        raise Violation("C18.psd.rms", f"RMS over the mask {rms:.12e}, requested {case['rms']:.12e}")
    if not np.array_equal(mask, m0):
        raise Violation("C18.psd.input_mutated", "power_spectrum changed the mask")


# --- cosmic rays ---------------------------------------------------------------------------------------------------

@st.composite
def cosmic_case(draw, tier):
    shape = draw(gen.shape2(2, 48))
    if draw(st.booleans()):
        shape = (shape[0], min(64, shape[1] + 16))
    px = [draw(gen.pos_log(2e-6, 3e-5)), draw(gen.pos_log(2e-6, 3e-5)), draw(gen.pos_log(1e-6, 2e-5))]
    return {"shape": list(shape), "pixelscale": px, "expected": draw(st.sampled_from([0.0, 0.3, 1.0, 4.0, 12.0, 30.0])),
            "state": draw(st.integers(0, 2**32 - 1))}


@hyp("C18", "cosmic_rays", lambda tier: cosmic_case(tier),
     "cosmic_rays under drawn global random states: requested shape, non-negative, finite", examples=(150, 600),
     budget_s=(150, 900))
def cosmic_rays(case, ctx):
    shape = tuple(case["shape"])
    px = case["pixelscale"]
    area = shape[0] * px[0] * shape[1] * px[1]
    rate = 4e4
    ts = case["expected"] / (area * rate)
    ctx.tag(f"expected:{case['expected']}", "nonsquare" if shape[0] != shape[1] else None)
    ctx.nontrivial_if(case["expected"] >= 1)
    np.random.seed(case["state"])
    with lentil_call("C18.cosmic", f"cosmic_rays(shape {shape}, {case['expected']} expected rays, state {case['state']})"):
        img = np.asarray(detector.cosmic_rays(shape, px, ts, rate=rate), dtype=float)
    if img.shape != shape:
        raise Violation("C18.cosmic.shape", f"shape {img.shape}, requested {shape}")
    if not np.all(np.isfinite(img)):
        raise Violation("C18.cosmic.finite", "non-finite electrons")
    if np.any(img < 0):
        raise Violation("C18.cosmic.negative", "negative electrons")
    if case["expected"] >= 4 and not np.any(img > 0):
        raise Violation("C18.cosmic.empty", f"{case['expected']} rays expected but the frame is empty")
