"""C08 - the plane-type state machine follows the documented table."""
import copy
import itertools
import os
import pickle
import warnings

import numpy as np
from hypothesis import strategies as st

import lentil
from vlib import foreign
from vlib.ref import ptype_doc
from vlib.runner import (Skip, Violation, enum, hyp, known_predicate, known_probe, lentil_call)

# the check's own calls are issued with keywords or positionally in the documented order (vlib/callforms.py)
from vlib import callforms as _cf
lentil = _cf.proxy(lentil)

RULE = ("programs over the alphabet {x Plane(ptype=p) for the five ptypes, x each documented plane class, "
        "propagate_dft, propagate_fft} from each of the three wavefront types; complete enumeration up to length 3 "
        "(quick) / 4 (thorough) plus drawn programs up to length 30; non-trivial = length >= 2 with at least one "
        "refusal or propagation; distinct = distinct (start, program)")
ASSUMPTIONS = [
    "expected types are parsed at run time from docs/user/fundamentals/wavefront.rst (Multiplication rules) and "
    "planes.rst (ptype -> classes); propagation allowed only from pupil/image and swapping them (property text)",
    "propagate_fft on a wavefront that carries tilt metadata is expected to raise NotImplementedError (C09) and "
    "leave the state unchanged; it is not a type refusal",
    "Rotate and Flip are excluded from the program alphabet (listed known finding) and probed separately",
]

REPO = os.environ.get("LENTIL_SRC", "/repo")
TABLE = ptype_doc.mul_table(REPO)          # harness error if the docs cannot be parsed
CLASSES = ptype_doc.class_table(REPO)
PROP = ptype_doc.propagation_rule(REPO)

WL, Z, DX, N = 1e-6, 2.0, 1e-3, 4
Z_PUPIL = 3.0      # the alphabet's Pupil carries its own focal length: a refused product must not hand it over
GRID = 8
KNOWN_BROKEN = ("Rotate", "Flip")


def doc_ptype_of_class(name):
    for p, cl in CLASSES.items():
        if name in cl:
            return p
    if name == "Grism":        # documented as a deprecated alias of DispersiveTilt
        return doc_ptype_of_class("DispersiveTilt")
    raise KeyError(name)


CLASS_OPS = [c for p in ptype_doc.PTYPES for c in CLASSES[p] if c not in KNOWN_BROKEN] + ["Grism"]
ALPHABET = [f"ptype:{p}" for p in ptype_doc.PTYPES] + [f"class:{c}" for c in CLASS_OPS] + ["prop:dft", "prop:fft"]
# the tilt classes document that a ``ptype`` keyword overrides their default type: every (class, type) combination is
# a plane of that type (used in the variant enumeration, in short enumerated programs and in the drawn long ones)
TILT_CLASSES = [c for c in ("Tilt", "DispersiveTilt", "Grism") if c in CLASS_OPS]
EXTRA_OPS = [f"tiltp:{c}:{p}" for c in TILT_CLASSES for p in ptype_doc.PTYPES]
ALL_OPS = ALPHABET + EXTRA_OPS


def name_of(op):
    kind, name = op.split(":", 1)
    return name if kind == "ptype" else None


def plane_recipe(op):
    """(class name, keyword arguments, documented ptype, adds tilt) of the alphabet's plane ``op``"""
    kind, name = op.split(":", 1)
    if kind == "ptype":
        if name in ("pupil", "image"):      # planes that give the wavefront a propagatable type also give it a shape
            return "Plane", dict(amplitude=np.ones((N, N)), ptype=name), name, False
        return "Plane", dict(ptype=name), name, False
    if kind == "tiltp":
        cls, p = name.split(":")
        kw = dict(plane_recipe("class:" + cls)[1])
        # (type as its name or as the lentil.<type> object; a propagatable type comes with a shape)
        kw["ptype"] = p if (len(cls) + len(p)) % 2 else getattr(lentil, p)
        if p in ("pupil", "image"):
            kw["amplitude"] = np.ones((N, N))
        return cls, kw, p, True
    p = doc_ptype_of_class(name)
    kw = {"Plane": {}, "Pupil": dict(amplitude=np.ones((N, N)), opd=np.zeros((N, N)), focal_length=Z_PUPIL),
          "Image": dict(amplitude=np.ones((N, N))), "Tilt": dict(x=1e-7, y=-2e-7),
          "DispersiveTilt": dict(trace=[1.0, 0.0], dispersion=[1e-3, WL]),
          "Grism": dict(trace=[0.5, 0.0], dispersion=[2e-3, WL]), "Rotate": dict(angle=90), "Flip": dict(axis=0)}[name]
    return name, kw, p, name in ("Tilt", "DispersiveTilt", "Grism")


def make_plane(op, where="here", extra=None):
    """the plane built in this process, or (where='foreign') built in another interpreter process and loaded here"""
    cls, kw, p, adds_tilt = plane_recipe(op)
    kw = dict(kw, **(extra or {}))
    with warnings.catch_warnings():
        warnings.simplefilter("ignore")
        if where == "foreign":
            return foreign.call("lentil." + cls, **kw), p, adds_tilt
        return getattr(lentil, cls)(**kw), p, adds_tilt


# how the plane object handed to the multiplication came about: a plane is the same plane after copy(),
# copy.deepcopy() or a pickle round trip (multiprocessing workers), and with its type given as a string or an object
# "foreign": built in ANOTHER interpreter process (different string-hash salt, fresh modules) and loaded here from its
# pickle - a model saved in an earlier session, or planes handed over by a multiprocessing worker (vlib/foreign.py)
VARIANTS = ["constructed", "copy", "deepcopy", "pickle", "foreign"]


def derive(plane, variant):
    if variant == "copy":
        return plane.copy()
    if variant == "deepcopy":
        return copy.deepcopy(plane)
    if variant == "pickle":
        return pickle.loads(pickle.dumps(plane))
    return plane


def variant_for(ops, i):
    return VARIANTS[(i + len(ops) + sum(ALL_OPS.index(o) for o in ops[:i + 1])) % len(VARIANTS)]


START_FORMS = ["planes", "ctor_str", "ctor_obj", "setter_str", "empty_str", "empty_obj", "foreign"]


def start_wavefront(t, blocked=False, form="planes"):
    if form == "foreign":
        # the whole start wavefront is produced in another interpreter process and loaded here
        prog = [("w", "lentil.Wavefront", (WL,), dict(pixelscale=DX, focal_length=Z))]
        if t != "none":
            prog += [("p", "lentil.Pupil", (), dict(amplitude=np.ones((N, N)), opd=np.zeros((N, N)), pixelscale=DX, focal_length=Z)),
                     ("w", "operator.mul", ("$w", "$p"), {})]
        if t == "image":
            prog += [("w", "lentil.propagate_dft", ("$w",), dict(pixelscale=WL * Z / (DX * GRID), shape=N, oversample=1))]
        return foreign.run(prog)
    if form != "planes":
        # a wavefront given its type directly: through the constructor or the ptype setter (type name or lentil.<type>
        # object), or Wavefront.empty; a plane of the same type then gives it a shape without changing the type
        tobj = getattr(lentil, t)
        if form == "ctor_str":
            w = lentil.Wavefront(WL, pixelscale=DX, focal_length=Z, ptype=t)
        elif form == "ctor_obj":
            w = lentil.Wavefront(WL, pixelscale=DX, focal_length=Z, ptype=tobj)
        elif form == "setter_str":
            w = lentil.Wavefront(WL, pixelscale=DX, focal_length=Z)
            w.ptype = t
        else:
            w = lentil.Wavefront.empty(WL, pixelscale=DX, focal_length=Z, shape=(N, N), ptype=t if form == "empty_str" else tobj)
        if t != "none" and not form.startswith("empty"):
            w = w * lentil.Plane(amplitude=np.ones((N, N)), ptype=t)
        return w
    w = lentil.Wavefront(WL, pixelscale=DX, focal_length=Z)
    if blocked:
        # two generic apertures with disjoint supports: no field is left, the type is still 'none'
        a1, a2 = np.zeros((N, N)), np.zeros((N, N))
        a1[:N // 2, :N // 2] = 1
        a2[N // 2:, N // 2:] = 1
        w = w * lentil.Plane(amplitude=a1) * lentil.Plane(amplitude=a2)
    if t == "none":
        return w
    w = w * lentil.Pupil(amplitude=np.ones((N, N)), opd=np.zeros((N, N)), pixelscale=DX, focal_length=Z)
    if t == "pupil":
        return w
    return lentil.propagate_dft(w, pixelscale=du_for(w), shape=N, oversample=1)


def du_for(w):
    dx = float(np.broadcast_to(w.pixelscale, (2,))[0])
    return WL * w.focal_length / (dx * GRID)


def snap_w(w):
    ps = None if w.pixelscale is None else tuple(float(v) for v in w.pixelscale)
    return (str(w.ptype), tuple(int(v) for v in w.shape), w.wavelength, ps, w.focal_length,
            tuple((f.data.tobytes(), f.data.shape, tuple(int(v) for v in f.offset), len(f.tilt)) for f in w.data))


def snap_p(p):
    return (str(p.ptype), np.asarray(p.amplitude).tobytes(), np.asarray(p.opd).tobytes(),
            np.asarray(p.mask).tobytes(), len(p.tilt), p.pixelscale)


def run_program(start, ops, ctx=None, variants=None, blocked=False, form="planes"):
    with lentil_call("C08.start", f"start wavefront of type {start}{' (blocked)' if blocked else ''} [{form}]"):
        w = start_wavefront(start, blocked, form)
    if str(w.ptype) != start:
        raise Violation("C08.start.type", f"{'blocked ' if blocked else ''}start wavefront has type '{w.ptype}', "
                                          f"expected '{start}'")
    t = start
    has_tilt = False
    shaped = start != "none" or blocked or form.startswith("empty")
    n_refused = n_prop = 0
    for i, op in enumerate(ops):
        where = f"step {i} ({op}) on a {t} wavefront [program {start}: {' '.join(ops[:i + 1])}]"
        before_w = snap_w(w)
        if op.startswith("prop:"):
            expect = PROP[t]
            fn = lentil.propagate_dft if op == "prop:dft" else lentil.propagate_fft
            kwargs = dict(pixelscale=du_for(w), shape=N, oversample=1)
            if expect is not None and not shaped:
                # a pupil/image wavefront always has a shape in these programs
                raise Violation("C08.model", "internal: unshaped propagatable wavefront")
            try:
                new = fn(w, **kwargs)
            except TypeError as e:
                if expect is not None:
                    raise Violation("C08.propagate.refused", f"{where}: raised TypeError ({e}) but propagation from "
                                                             f"'{t}' is permitted")
                n_refused += 1
                if snap_w(w) != before_w:
                    raise Violation("C08.refusal.mutates", f"{where}: refused propagation changed the wavefront")
                continue
            except NotImplementedError as e:
                if op == "prop:fft" and has_tilt:
                    # refused because of the tilt metadata (C09); for a 'none' wavefront either refusal is fine
                    if snap_w(w) != before_w:
                        raise Violation("C08.refusal.mutates", f"{where}: refused FFT propagation changed the wavefront")
                    continue
                raise Violation("C08.propagate.raised", f"{where}: NotImplementedError: {e}")
            except Exception as e:  # noqa: BLE001
                if expect is None:
                    raise Violation("C08.propagate.wrong_exception",
                                    f"{where}: propagation from '{t}' must raise TypeError, got {type(e).__name__}: {e}")
                raise Violation("C08.propagate.raised", f"{where}: {type(e).__name__}: {e}")
            if expect is None:
                raise Violation("C08.propagate.allowed", f"{where}: propagation from '{t}' succeeded but is not permitted")
            if op == "prop:fft" and has_tilt:
                raise Violation("C08.propagate.tilt", f"{where}: propagate_fft accepted a wavefront carrying tilt")
            if str(new.ptype) != expect:
                raise Violation("C08.propagate.type", f"{where}: result type '{new.ptype}', expected '{expect}'")
            if snap_w(w) != before_w:
                raise Violation("C08.propagate.mutates", f"{where}: propagation changed its input wavefront")
            w, t, has_tilt = new, expect, False
            n_prop += 1
            continue
        variant = variants[i] if variants is not None else variant_for(ops, i)
        where = f"step {i} ({op}, plane {variant}) on a {t} wavefront [program {start}: {' '.join(ops[:i + 1])}]"
        extra = None
        if TABLE[plane_recipe(op)[2]][t] is None and w.pixelscale is not None and (i + 2 * len(ops) + len(op)) % 3 == 0:
            # a product the table does not allow is refused as a TYPE error whatever else is wrong with it: here the
            # plane is also sampled differently from the wavefront (an image-plane mask in detector pixels applied to a
            # pupil wavefront because the propagation was forgotten)
            extra = {"pixelscale": 3.0 * float(np.broadcast_to(w.pixelscale, (2,))[0])}
            if ctx is not None:
                ctx.tag("refused_product_with_other_pixelscale")
        with lentil_call("C08.construct", f"constructing {op} ({variant})"):
            plane, p, adds_tilt = make_plane(op, "foreign" if variant == "foreign" else "here", extra)
            if name_of(op) in ("pupil", "image", "none", "tilt", "transform") and (i + len(ops)) % 2:
                # plane type given as the lentil.<type> object instead of its name (for the foreign variant: a type
                # object that was created in the other process, given to a plane built here)
                tobj = foreign.call("lentil.ptype", name_of(op)) if variant == "foreign" else getattr(lentil, name_of(op))
                plane = lentil.Plane(amplitude=np.ones((N, N)) if name_of(op) in ("pupil", "image") else 1, ptype=tobj, **(extra or {}))
            plane = derive(plane, variant)
        if str(plane.ptype) != p:
            raise Violation("C08.class.ptype", f"{op}: instance has ptype '{plane.ptype}', documented '{p}'")
        expect = TABLE[p][t]
        before_p = snap_p(plane)
        try:
            new = w * plane
        except TypeError as e:
            if expect is not None:
                raise Violation("C08.multiply.refused", f"{where}: raised TypeError ({e}) but the documented result is "
                                                        f"'{expect}'")
            n_refused += 1
            if snap_w(w) != before_w or snap_p(plane) != before_p:
                raise Violation("C08.refusal.mutates", f"{where}: refused multiplication changed an operand")
            continue
        except Exception as e:  # noqa: BLE001
            if expect is None:
                raise Violation("C08.multiply.wrong_exception",
                                f"{where}: documented as not allowed, must raise TypeError, got {type(e).__name__}: {e}")
            raise Violation("C08.multiply.raised", f"{where}: {type(e).__name__}: {e}")
        if expect is None:
            raise Violation("C08.multiply.allowed", f"{where}: succeeded (type '{new.ptype}') but the documentation says "
                                                    f"'Not allowed'")
        if str(new.ptype) != expect:
            raise Violation("C08.multiply.type", f"{where}: result type '{new.ptype}', documented '{expect}'")
        if snap_w(w) != before_w:
            raise Violation("C08.multiply.mutates", f"{where}: multiplication changed its input wavefront")
        if snap_p(plane)[:4] != before_p[:4]:
            raise Violation("C08.multiply.mutates", f"{where}: multiplication changed the plane")
        w, t = new, expect
        # tilt is metadata of the fields: a wavefront that has no field left (blocked) has nothing to carry it
        has_tilt = has_tilt or (adds_tilt and len(new.data) > 0)
        shaped = shaped or op in ("class:Pupil", "class:Image", "ptype:pupil", "ptype:image") or \
            (op.startswith("tiltp:") and op.endswith((":pupil", ":image")))
    if ctx is not None:
        ctx.tag(f"start:{start}", f"len:{min(len(ops), 6)}", "has_refusal" if n_refused else None,
                "has_propagation" if n_prop else None, f"final:{t}")
        ctx.nontrivial_if(len(ops) >= 2 and (n_refused or n_prop))


def _enum_programs(tier):
    maxlen = 3 if tier == "quick" else 4
    for start in ptype_doc.WTYPES:
        for L in range(0, maxlen + 1):
            for ops in itertools.product(ALPHABET if L > 2 else ALL_OPS, repeat=L):
                yield {"start": start, "ops": list(ops)}


@enum("C08", "programs_enum", _enum_programs,
      "every program of length <= 3 (quick) / <= 4 (thorough) over the 13-operation alphabet from each of the 3 "
      "wavefront types", budget_s=(240, 1500), exhaustive_tiers=("quick", "thorough"))
def programs_enum(case, ctx):
    run_program(case["start"], case["ops"], ctx)


@hyp("C08", "programs_long", lambda tier: st.fixed_dictionaries(
        {"start": st.sampled_from(ptype_doc.WTYPES),
         "ops": st.lists(st.sampled_from(ALL_OPS), min_size=5, max_size=30),
         "blocked": st.sampled_from([False, False, False, True]),
         "form": st.sampled_from(["planes", "planes", "planes"] + START_FORMS[1:])}),
     "drawn programs of length 5..30 (one in four from a wavefront that two disjoint apertures have emptied)",
     examples=(300, 1500))
def programs_long(case, ctx):
    form = case.get("form", "planes") if not case.get("blocked") else "planes"
    ctx.tag("start_form:" + form)
    run_program(case["start"], case["ops"], ctx, blocked=case.get("blocked", False), form=form)
    if case.get("blocked"):
        ctx.tag("blocked_start")


def _enum_variants(tier):
    for op in ALL_OPS:
        if op.startswith("prop:"):
            continue
        for t in ptype_doc.WTYPES:
            for v in VARIANTS:
                for second in (None, "class:Tilt", "prop:dft"):
                    yield {"start": t, "op": op, "variant": v, "then": second}
                    if v == "constructed":
                        yield {"start": t, "op": op, "variant": v, "then": second, "blocked": True}
                        for form in START_FORMS[1:]:
                            yield {"start": t, "op": op, "variant": v, "then": second, "form": form}


@enum("C08", "plane_variants", _enum_variants,
      "every plane of the alphabet as constructed / after copy() / copy.deepcopy() / a pickle round trip, applied to "
      "every wavefront type (optionally followed by a Tilt plane or a propagation)", exhaustive_tiers=("quick", "thorough"))
def plane_variants(case, ctx):
    ops = [case["op"]] + ([case["then"]] if case["then"] else [])
    ctx.tag("variant:" + case["variant"], "blocked_start" if case.get("blocked") else None)
    ctx.tag("start_form:" + case.get("form", "planes"))
    run_program(case["start"], ops, ctx, variants=[case["variant"]] * len(ops), blocked=case.get("blocked", False),
                form=case.get("form", "planes"))
    ctx.nontrivial_if(case["variant"] != "constructed")


def _enum_classes(tier):
    for p in ptype_doc.PTYPES:
        for c in CLASSES[p]:
            for t in ptype_doc.WTYPES:
                yield {"cls": c, "wavefront": t}


@known_predicate("rotate_flip_unusable")
def _rotflip(case):
    return case.get("cls") in KNOWN_BROKEN or case.get("probe") == "rotate_flip_unusable"


@enum("C08", "documented_classes", _enum_classes,
      "every class of the documented ptype->class table applied to every wavefront type: instance ptype as "
      "documented, allowed products succeed with the documented type, others raise TypeError",
      exhaustive_tiers=("quick", "thorough"))
def documented_classes(case, ctx):
    ctx.tag("cls:" + case["cls"], "wavefront:" + case["wavefront"])
    ctx.nontrivial_if(True)
    if case["cls"] in KNOWN_BROKEN:
        raise Skip("rotate_flip_unusable(known)")
    run_program(case["wavefront"], [f"class:{case['cls']}"])


@known_probe("C08", "rotate_flip_unusable")
def probe_rotate_flip():
    msgs = []
    for name in KNOWN_BROKEN:
        plane, p, _ = make_plane("class:" + name)
        if str(plane.ptype) != p:
            msgs.append(f"{name}() has ptype '{plane.ptype}' (documented '{p}')")
        for t in ptype_doc.WTYPES:
            if TABLE[p][t] is None:
                continue
            try:
                new = start_wavefront(t) * plane
                if str(new.ptype) != TABLE[p][t]:
                    msgs.append(f"{name} x {t} -> {new.ptype}")
            except Exception as e:  # noqa: BLE001
                msgs.append(f"{name} x {t} wavefront raises {type(e).__name__}")
                break
    return "; ".join(msgs) if msgs else None
