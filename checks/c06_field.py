"""C06 - Field and extent bookkeeping == arithmetic on an infinite zero-padded plane."""
import itertools

import numpy as np
from hypothesis import strategies as st

import lentil
import lentil.extent as lext
import lentil.field as lfield
from lentil.field import Field
from vlib import gen
from vlib.ref import fieldmodel as fm
from vlib.runner import Skip, Violation, enum, expect_raises, hyp, lentil_call

# the check's own calls are issued with keywords or positionally in the documented order (vlib/callforms.py)
from vlib import callforms as _cf
lentil = _cf.proxy(lentil)
lfield = _cf.proxy(lfield, "field.")

RULE = ("fields with drawn shapes (1..6 per axis, one-element included where the property defines them), "
        "integer offsets of either sign, targets 1..11; non-trivial = operands/target partially overlap, "
        "are clipped on at least one side, or lie wholly outside; thorough adds complete enumerations")
ASSUMPTIONS = [
    "embedding rule: data rows occupy offset_r - floor(h/2) + [0, h) (the property's floor(n/2) convention)",
    "one-element fields are exercised in products only (infinite constants have no finite extent to merge/insert)",
    "values compared at 1e-13 relative (single multiply / add); placement exact",
]


def _vals(shape, k):
    """deterministic distinct complex values"""
    n = shape[0] * shape[1]
    base = np.arange(1, n + 1, dtype=float).reshape(shape)
    return (base * (1.0 + 0.37 * k)) + 1j * (base % 7 - 3.0 + k)


@st.composite
def field_desc(draw, lo=1, hi=6, off=9, min_size=1):
    shape = draw(gen.shape2(lo, hi))
    if shape[0] * shape[1] < min_size:
        shape = (shape[0] + 1, shape[1])
    data = draw(gen.complex_array(shape, maxmag=50.0, dense_prob=0.7)) * draw(gen.scales())
    return {"data": data, "offset": [draw(st.integers(-off, off)), draw(st.integers(-off, off))]}


MOVED = {"n": 0, "seen": 0}


def tag_moved(ctx):
    """tag the case if any of its fields was re-positioned / re-filled after construction"""
    if ctx is not None and MOVED["n"] > MOVED["seen"]:
        ctx.tag("field_changed_after_construction")
    MOVED["seen"] = MOVED["n"]


def mk(fd):
    lay = ["C", "F", "strided", "reversed", "transposed_view"][(fd["data"].shape[0] + 3 * fd["data"].shape[1] + int(fd["offset"][0])) % 5]
    sel = (5 * fd["data"].shape[0] + fd["data"].shape[1] + 3 * int(fd["offset"][0]) + int(fd["offset"][1])) % 8
    if sel >= 2:
        return Field(data=gen.relayout(fd["data"], lay), offset=list(fd["offset"]))
    # a field that was re-positioned (sel 0) or given new data of another shape (sel 1) after it was constructed:
    # `offset` and `data` are public attributes, the field is wherever they say it is now
    MOVED["n"] += 1
    if sel == 0:
        f = Field(data=gen.relayout(fd["data"], lay), offset=[int(fd["offset"][0]) + 11, int(fd["offset"][1]) - 7])
        f.offset = list(fd["offset"])
    else:
        f = Field(data=np.ones((fd["data"].shape[0] + 2, fd["data"].shape[1] + 1), dtype=complex), offset=list(fd["offset"]))
        f.data = np.asarray(gen.relayout(fd["data"], lay), dtype=complex)
    return f


def render(field):
    return fm.embed(field.data, field.offset if field.offset is not None else (0, 0)) if field.data.ndim == 2 \
        else fm.embed(np.zeros((0, 0)), (0, 0))


def close(a, b, scale=None):
    scale = max(float(np.max(np.abs(b))) if b.size else 0.0, 1e-300) if scale is None else scale
    return (float(np.max(np.abs(a - b))) if a.size else 0.0) <= 1e-13 * scale


def relation(sa, oa, sb, ob):
    A, B = fm.coordset(sa, oa), fm.coordset(sb, ob)
    I = A & B
    if not I:
        return "disjoint"
    if I == A or I == B:
        return "nested"
    return "partial"


# --- product -----------------------------------------------------------------

@hyp("C06", "mul", lambda tier: st.tuples(field_desc(), field_desc()),
     "Field*Field vs pointwise product of embeddings (one-element field = infinite constant)",
     examples=(1500, 6000))
def mul(case, ctx):
    a, b = case
    _mul_body(a, b, ctx)


def _mul_body(a, b, ctx):
    fa, fb = mk(a), mk(b)
    tag_moved(ctx)
    a0, b0 = a["data"].copy(), b["data"].copy()
    with lentil_call("C06.mul", "Field.__mul__"):
        res = fa * fb
    sa, sb = a["data"].shape, b["data"].shape
    one_a, one_b = a["data"].size == 1, b["data"].size == 1
    if one_a and one_b:
        ctx.tag("both_one_element")
        if list(a["offset"]) == list(b["offset"]):
            exp = fm.embed(a["data"] * b["data"], a["offset"])
        else:
            exp = fm.embed(np.zeros((0, 0)), (0, 0))
    elif one_a or one_b:
        ctx.tag("one_element_constant")
        big, const = (b, a) if one_a else (a, b)
        exp = fm.embed(big["data"] * const["data"].ravel()[0], big["offset"])
    else:
        exp = fm.embed(a["data"], a["offset"]) * fm.embed(b["data"], b["offset"])
        rel = relation(sa, a["offset"], sb, b["offset"])
        ctx.tag("rel:" + rel)
        ctx.nontrivial_if(rel == "partial")
    if one_a != one_b:
        ctx.nontrivial_if(True)
    ctx.tag(gen.parity_tags("a", sa), gen.parity_tags("b", sb))
    if res.data.size == 0:
        got = fm.embed(np.zeros((0, 0)), (0, 0))
    else:
        if res.data.ndim != 2:
            raise Violation("C06.mul.shape", f"product data has ndim {res.data.ndim}")
        got = fm.embed(res.data, res.offset)
        # the recorded extent must describe the data
        if tuple(res.extent) != fm.extent(res.data.shape, res.offset):
            raise Violation("C06.mul.extent", f"extent {res.extent} != {fm.extent(res.data.shape, res.offset)}")
    if not close(got, exp):
        raise Violation("C06.mul.value", f"product differs from pointwise product of embeddings "
                                         f"(shapes {sa},{sb} offsets {a['offset']},{b['offset']})")
    if not (np.array_equal(a0, fa.data) and np.array_equal(b0, fb.data)):
        raise Violation("C06.mul.operand_mutated", "operand data changed")


# --- merge / reduce ------------------------------------------------------------

@hyp("C06", "merge", lambda tier: st.tuples(field_desc(min_size=2), field_desc(min_size=2)),
     "merge(a,b) vs sum of embeddings; refusal iff extents do not intersect", examples=(800, 3000))
def merge(case, ctx):
    a, b = case
    if (a["offset"][0] + b["offset"][1]) % 5 == 0:
        # identical footprint: same shape and offset (two contributions on the same grid)
        b = {"data": np.resize(b["data"], a["data"].shape) + 0.5, "offset": list(a["offset"])}
        ctx.tag("identical_footprint")
    fa, fb = mk(a), mk(b)
    tag_moved(ctx)
    da0, db0 = fa.data.copy(), fb.data.copy()
    sa, sb = a["data"].shape, b["data"].shape
    rel = relation(sa, a["offset"], sb, b["offset"])
    ctx.tag("rel:" + rel)
    ctx.nontrivial_if(rel == "partial")
    with lentil_call("C06.overlap", "field.overlap"):
        ov = lfield.overlap((fa, fb))
    if bool(ov) != (rel != "disjoint"):
        raise Violation("C06.overlap", f"overlap() = {ov} but coordinate sets are {rel}")
    exp = fm.embed(a["data"], a["offset"]) + fm.embed(b["data"], b["offset"])
    if rel == "disjoint":
        expect_raises("C06.merge.refuse", (ValueError,), lambda: lfield.merge(fa, fb), "merge of disjoint fields")
        with lentil_call("C06.merge", "merge(enforce_overlap=False)"):
            res = lfield.merge(fa, fb, enforce_overlap=False)
    else:
        with lentil_call("C06.merge", "merge"):
            res = lfield.merge(fa, fb)
    if not close(render(res), exp):
        raise Violation("C06.merge.value", f"merge differs from sum of embeddings (shapes {sa},{sb} offsets "
                                           f"{a['offset']},{b['offset']})")
    if not (np.array_equal(fa.data, da0) and np.array_equal(fb.data, db0)):
        raise Violation("C06.merge.operand_mutated", f"merge changed one of its operands (shapes {sa},{sb} offsets "
                                                     f"{a['offset']},{b['offset']})")
    with lentil_call("C06.merge", "merge (second time)"):
        res2 = lfield.merge(fa, fb, enforce_overlap=False)
    if not close(render(res2), exp):
        raise Violation("C06.merge.repeat", "merging the same two fields a second time gives a different result")


def _rect_field(draw, r0, r1, c0, c1):
    h, w = r1 - r0 + 1, c1 - c0 + 1
    data = draw(gen.complex_array((h, w), maxmag=50.0, dense_prob=0.9))
    return {"data": data, "offset": [r0 + h // 2, c0 + w // 2]}


@st.composite
def tiled_fields(draw):
    """collections with exact coincidences between derived extents: strips / tiles whose union has exactly the
    extent of another member (the full window), nested and adjacent members, in a drawn order"""
    H, W = draw(st.integers(2, 7)), draw(st.integers(2, 7))
    r0, c0 = draw(st.integers(-8, 8 - H)), draw(st.integers(-8, 8 - W))
    r1, c1 = r0 + H - 1, c0 + W - 1
    fields = []
    kind = draw(st.sampled_from(["row_strips", "col_strips", "quadrants", "corner_pair"]))
    if kind == "row_strips":
        a = draw(st.integers(r0, r1))                   # first strip r0..a, second b..r1 with b <= a + 1
        b = draw(st.integers(r0, min(a + 1, r1)))
        fields += [_rect_field(draw, r0, a, c0, c1), _rect_field(draw, b, r1, c0, c1)]
    elif kind == "col_strips":
        a = draw(st.integers(c0, c1))
        b = draw(st.integers(c0, min(a + 1, c1)))
        fields += [_rect_field(draw, r0, r1, c0, a), _rect_field(draw, r0, r1, b, c1)]
    elif kind == "quadrants":
        rm, cm_ = draw(st.integers(r0, r1)), draw(st.integers(c0, c1))
        for (ra, rb) in ((r0, rm), (min(rm + 1, r1), r1)):
            for (ca, cb) in ((c0, cm_), (min(cm_ + 1, c1), c1)):
                fields.append(_rect_field(draw, ra, rb, ca, cb))
    else:                                               # two overlapping rectangles touching opposite corners
        ra, ca = draw(st.integers(r0, r1)), draw(st.integers(c0, c1))
        rb, cb = draw(st.integers(r0, ra)), draw(st.integers(c0, ca))
        fields += [_rect_field(draw, r0, ra, c0, ca), _rect_field(draw, rb, r1, cb, c1)]
    if draw(st.integers(0, 3)):
        fields.append(_rect_field(draw, r0, r1, c0, c1))                     # the full window itself
    for _ in range(draw(st.integers(0, 2))):
        fields.append(draw(field_desc(hi=5, off=8, min_size=2)))
    # one-element fields are infinite constants by this property and cannot take part in a merge: leave them out
    fields = [f for f in fields if f["data"].size >= 2]
    if not fields:
        fields = [_rect_field(draw, r0, r1, c0, c1)]
    order = draw(st.permutations(list(range(len(fields)))))
    return [fields[i] for i in order]


@st.composite
def cascade_fields(draw):
    """more than 32 fields: four whose bounding boxes pull each other in one after the other (A and B overlap; C lies
    inside the box around A and B without touching them; D only inside the box around A, B and C), in any order and
    orientation, among 29-45 isolated two-sample fields placed before, after or around them"""
    boxes = [(0, 1, 0, 9), (0, 9, 0, 1), (5, 6, 5, 14), (0, 1, 12, 13)]          # rmin, rmax, cmin, cmax
    o = draw(st.integers(0, 7))
    if o & 1:
        boxes = [(9 - b[1], 9 - b[0], b[2], b[3]) for b in boxes]
    if o & 2:
        boxes = [(b[0], b[1], 14 - b[3], 14 - b[2]) for b in boxes]
    r_off, c_off = -18, -18
    four = []
    for b in boxes:
        if o & 4:          # transpose (the region is 15 x 10 then)
            b = (b[2], b[3], b[0], b[1])
        four.append(_rect_field(draw, b[0] + r_off, b[1] + r_off, b[2] + c_off, b[3] + c_off))
    four = [four[i] for i in draw(st.permutations([0, 1, 2, 3]))]
    nfill = draw(st.integers(29, 45))
    cells = [(r, c) for r in range(0, 18, 3) for c in range(-18, 17, 4)]          # all below / right of the 15 x 15 corner
    picks = draw(st.permutations(cells))[:nfill]
    fill = [_rect_field(draw, r, r, c, c + 1) for r, c in picks]
    where = draw(st.sampled_from(["before", "after", "around"]))
    if where == "before":
        return fill + four
    if where == "after":
        return four + fill
    return fill[:nfill // 2] + four + fill[nfill // 2:]


@hyp("C06", "reduce", lambda tier: st.one_of(st.lists(field_desc(hi=5, off=8, min_size=2), min_size=1, max_size=6),
                                              tiled_fields(), cascade_fields()),
     "reduce(fields): results pairwise disjoint in extent, same total as the sum of embeddings; boundary(fields) "
     "= bounding box of the union", examples=(800, 3000))
def reduce_(case, ctx):
    if len(case) >= 2 and (case[0]["offset"][0] + len(case)) % 4 == 0:
        # two contributions with an identical footprint
        case = list(case)
        case[1] = {"data": np.resize(case[1]["data"], case[0]["data"].shape) - 0.25, "offset": list(case[0]["offset"])}
        ctx.tag("identical_footprint")
    fields = [mk(f) for f in case]
    tag_moved(ctx)
    if len(case) >= 1 and (int(case[0]["offset"][1]) + 2 * len(case)) % 5 == 0:
        # the very same Field object listed more than once (two wavefronts sharing a field): it counts each time
        j = int(abs(case[0]["offset"][0])) % len(case)
        pos = int(abs(case[0]["offset"][1])) % (len(case) + 1)
        case = list(case)
        case.insert(pos, case[j])
        fields.insert(pos, fields[j if j < pos else j])
        ctx.tag("same_object_twice")
    snaps = [f.data.copy() for f in fields]
    sets = [fm.coordset(f["data"].shape, f["offset"]) for f in case]
    exp = sum(fm.embed(f["data"], f["offset"]) for f in case)
    n_overlap = sum(1 for i, j in itertools.combinations(range(len(case)), 2) if sets[i] & sets[j])
    ctx.tag(f"n:{len(case) if len(case) <= 6 else '7-32' if len(case) <= 32 else '>32'}", "reduce_n>=3" if len(case) >= 3 else None)
    exts = [fm.set_extent(s_) for s_ in sets] if len(case) <= 12 else []
    if exts and any(fm.set_extent(sets[i] | sets[j]) == exts[k] for i, j, k in itertools.permutations(range(len(case)), 3)
                    if sets[i] & sets[j]):
        ctx.tag("union_of_two_has_extent_of_third")
    union = set().union(*sets)
    want_bb = fm.set_extent(union)
    if want_bb[1] < 0 or want_bb[3] < 0:
        ctx.tag("negative_only_extent")
    if 3 <= len(case) <= 12:
        chain = any((sets[i] & sets[j]) and (sets[j] & sets[k]) and not (sets[i] & sets[k])
                    for i, j, k in itertools.permutations(range(len(case)), 3))
        ctx.tag("chain_merge" if chain else None)
    ctx.nontrivial_if(n_overlap >= 1 and len(case) >= 2)
    with lentil_call("C06.boundary", "field.boundary"):
        bb = lfield.boundary(fields)
    if tuple(int(v) for v in bb) != want_bb:
        raise Violation("C06.boundary", f"boundary() = {tuple(int(v) for v in bb)} but the fields' coordinates "
                                        f"span {want_bb}")
    # the collection as a list, a tuple or a one-shot iterable (a generator expression over a wavefront's fields,
    # itertools.chain of two wavefronts' fields): "a number of Fields" - a refusal of one-shot iterables would be fine,
    # silently losing fields is not
    cform = ["list", "list", "tuple", "iter", "generator", "chain"][(len(fields) + int(abs(case[0]["offset"][0])) + 2 * int(abs(case[0]["offset"][1]))) % 6]
    arg = {"list": lambda: fields, "tuple": lambda: tuple(fields), "iter": lambda: iter(fields),
           "generator": lambda: (f_ for f_ in fields),
           "chain": lambda: itertools.chain(fields[:len(fields) // 2], fields[len(fields) // 2:])}[cform]()
    ctx.tag("collection_as:" + cform)
    try:
        with lentil_call("C06.reduce", f"field.reduce({cform})"):
            out = lfield.reduce(arg)
    except Violation as v_:
        if cform in ("iter", "generator", "chain") and "TypeError" in v_.detail:
            ctx.tag("one_shot_iterable_refused")
            with lentil_call("C06.reduce", "field.reduce"):
                out = lfield.reduce(fields)
        else:
            raise
    got = sum(render(f) for f in out) if len(out) else 0 * exp
    if not close(got, exp):
        raise Violation("C06.reduce.total", "sum of reduced fields differs from sum of embeddings")
    if any(not np.array_equal(f.data, s0) for f, s0 in zip(fields, snaps)):
        raise Violation("C06.reduce.operand_mutated", "reduce changed one of the fields it was given")
    with lentil_call("C06.reduce", "field.reduce (second time)"):
        out_again = lfield.reduce(fields)
    if not close(sum(render(f) for f in out_again), exp):
        raise Violation("C06.reduce.repeat", "reducing the same fields a second time gives a different total")
    for i, j in itertools.combinations(range(len(out)), 2):
        ei = fm.extent(out[i].data.shape, out[i].offset)
        ej = fm.extent(out[j].data.shape, out[j].offset)
        if fm.extents_intersect(ei, ej):
            raise Violation("C06.reduce.disjoint", f"reduced fields {i},{j} overlap: {ei} {ej}")
    # the recorded extent of each result describes its data
    for f in out:
        if tuple(int(v) for v in f.extent) != fm.extent(f.data.shape, f.offset):
            raise Violation("C06.reduce.extent", f"field extent {f.extent} inconsistent with data/offset")
    if len(case) > 2:
        with lentil_call("C06.overlap", "overlap(n>2)"):
            ov = lfield.overlap(fields)
        if bool(ov) != (len(out) == 1):
            raise Violation("C06.overlap", f"overlap(fields)={ov} but reduce produced {len(out)} fields")


def _enum_cascade(tier):
    """every order of the four cascading fields x every orientation x filler placement (complete: 24 x 8 x 3)"""
    base = [(0, 1, 0, 9), (0, 9, 0, 1), (5, 6, 5, 14), (0, 1, 12, 13)]
    cells = [(r, c) for r in range(0, 18, 3) for c in range(-18, 17, 4)]
    for o in range(8):
        boxes = list(base)
        if o & 1:
            boxes = [(9 - b[1], 9 - b[0], b[2], b[3]) for b in boxes]
        if o & 2:
            boxes = [(b[0], b[1], 14 - b[3], 14 - b[2]) for b in boxes]
        if o & 4:
            boxes = [(b[2], b[3], b[0], b[1]) for b in boxes]
        for perm in itertools.permutations(range(4)):
            for where in ("before", "after", "around"):
                yield {"boxes": [list(boxes[i]) for i in perm], "where": where, "nfill": 29 + (o + sum(perm[:2])) % 9,
                       "cells": [list(c) for c in cells], "orientation": o}


@enum("C06", "cascade_enum", _enum_cascade,
      "collections of 33-41 fields holding the four-field bounding-box cascade in EVERY order (24) and orientation (8), "
      "fillers before / after / around: reduce total, disjointness, boundary (complete enumeration, 576 cases)",
      exhaustive_tiers=("quick", "thorough"))
def cascade_enum(case, ctx):
    def rect(r0, r1, c0, c1, k):
        h, w = r1 - r0 + 1, c1 - c0 + 1
        return {"data": _vals((h, w), k), "offset": [r0 + h // 2, c0 + w // 2]}
    four = [rect(b[0] - 18, b[1] - 18, b[2] - 18, b[3] - 18, i) for i, b in enumerate(case["boxes"])]
    fill = [rect(r, r, c, c + 1, 5 + i) for i, (r, c) in enumerate(case["cells"][:case["nfill"]])]
    fields = fill + four if case["where"] == "before" else four + fill if case["where"] == "after" else \
        fill[:len(fill) // 2] + four + fill[len(fill) // 2:]
    ctx.tag("cascade_order_enumerated", "where:" + case["where"])
    reduce_(fields, ctx)


# --- insert ----------------------------------------------------------------------

@st.composite
def insert_case(draw):
    fd = draw(field_desc(lo=1, hi=6, off=9, min_size=2))
    tshape = draw(gen.shape2(1, 11))
    intensity = draw(st.booleans())
    weight = draw(st.sampled_from([1, 1, 0, -2.5, 0.125, 3]))
    k = draw(st.integers(0, 2**31 - 1))
    return {"field": fd, "target": list(tshape), "intensity": intensity, "weight": weight, "fill_seed": k,
            "prefill": draw(st.booleans())}


def _insert_body(case, ctx):
    fd = case["field"]
    tshape = tuple(case["target"])
    f = mk(fd)
    tag_moved(ctx)
    rng = np.random.default_rng(case["fill_seed"])
    if case["intensity"]:
        out = rng.uniform(-5, 5, size=tshape) if case["prefill"] else np.zeros(tshape)
        emb = fm.embed(np.abs(fd["data"]) ** 2, fd["offset"], dtype=float)
    else:
        out = (rng.uniform(-5, 5, size=tshape) + 1j * rng.uniform(-5, 5, size=tshape)) if case["prefill"] \
            else np.zeros(tshape, dtype=complex)
        emb = fm.embed(fd["data"], fd["offset"])
    before = out.copy()
    exp = before + case["weight"] * fm.window(emb, tshape)
    # classify
    F = fm.coordset(fd["data"].shape, fd["offset"])
    T = fm.coordset(tshape, (0, 0))
    inside = F & T
    if not inside:
        ctx.tag("wholly_outside")
    elif inside == F:
        ctx.tag("wholly_inside")
    else:
        fe, te = fm.set_extent(F), fm.set_extent(T)
        ctx.tag("clip_top" if fe[0] < te[0] else None, "clip_bottom" if fe[1] > te[1] else None,
                "clip_left" if fe[2] < te[2] else None, "clip_right" if fe[3] > te[3] else None)
    ctx.tag("intensity" if case["intensity"] else "field", gen.parity_tags("f", fd["data"].shape),
            gen.parity_tags("t", tshape))
    ctx.nontrivial_if(inside != F)
    with lentil_call("C06.insert", f"insert(field {fd['data'].shape}@{fd['offset']} -> {tshape})"):
        ret = lfield.insert(f, out, intensity=case["intensity"], weight=case["weight"])
    if ret is not out:
        raise Violation("C06.insert.identity", "insert did not return the target array")
    if not close(out, exp, scale=max(float(np.max(np.abs(exp))), float(np.max(np.abs(before))), 1e-300)):
        bad = np.argwhere(~np.isclose(out, exp, rtol=1e-12, atol=1e-12))[:3].tolist()
        raise Violation("C06.insert.value", f"insert(field {fd['data'].shape}@{fd['offset']} -> {tshape}) "
                                            f"differs from embedding restricted to the window at {bad}")
    if not np.array_equal(f.data, fd["data"]):
        raise Violation("C06.insert.field_mutated", "insert changed the field data")


@hyp("C06", "insert", lambda tier: insert_case(),
     "insert(field, out, intensity, weight) vs out + w*embedding restricted to the target window",
     examples=(1500, 6000))
def insert(case, ctx):
    _insert_body(case, ctx)


def _enum_insert(tier):
    shapes = [(h, w) for h in range(1, 5) for w in range(1, 5) if h * w >= 2]
    targets = [(h, w) for h in range(1, 6) for w in range(1, 6)]
    offs = range(-7, 8)
    i = 0
    for fs in shapes:
        for ts in targets:
            for orr in offs:
                for oc in offs:
                    i += 1
                    if tier == "quick" and i % 41:
                        continue
                    yield {"field": {"data": _vals(fs, 1), "offset": [orr, oc]}, "target": list(ts),
                           "intensity": bool((orr + oc) % 2), "weight": 1 if i % 3 else -2.5, "fill_seed": i,
                           "prefill": bool(i % 2)}


@enum("C06", "insert_enum", _enum_insert,
      "complete enumeration: field shapes 1..4 (>=2 elements) x offsets -7..7 x target shapes 1..5 (quick: every 41st)")
def insert_enum(case, ctx):
    _insert_body(case, ctx)


def _enum_mul(tier):
    shapes = [(h, w) for h in range(1, 4) for w in range(1, 4)]
    offs = [(r, c) for r in range(-3, 4) for c in range(-3, 4)]
    i = 0
    for sa in shapes:
        for sb in shapes:
            for oa in [(0, 0), (-2, 1), (3, -3), (-4, -4)]:
                for ob in offs:
                    i += 1
                    if tier == "quick" and i % 23:
                        continue
                    yield {"a": {"data": _vals(sa, 1), "offset": [oa[0], oa[1]]},
                           "b": {"data": _vals(sb, 2), "offset": [oa[0] + ob[0], oa[1] + ob[1]]}}


@enum("C06", "mul_enum", _enum_mul,
      "complete enumeration: shapes 1..3 x 1..3 for both operands, 4 anchor offsets x relative offsets -3..3 "
      "(quick: every 23rd)")
def mul_enum(case, ctx):
    _mul_body(case["a"], case["b"], ctx)


# --- extent queries ------------------------------------------------------------------

def _enum_extent(tier):
    shapes = [(h, w) for h in range(1, 5) for w in range(1, 5)]
    offs = range(-4, 5)
    i = 0
    for sa in shapes:
        for sb in shapes:
            for orr in offs:
                for oc in offs:
                    for anchor in ((0, 0), (-3, 2), (5, -6)):
                        i += 1
                        if tier == "quick" and i % 29:
                            continue
                        yield {"sa": list(sa), "oa": list(anchor), "sb": list(sb),
                               "ob": [anchor[0] + orr, anchor[1] + oc]}


@enum("C06", "extent_enum", _enum_extent,
      "complete enumeration of extent queries: shapes 1..4 x 1..4 for both, relative offsets -4..4, 3 anchors "
      "(quick: every 29th)")
def extent_enum(case, ctx):
    sa, oa, sb, ob = tuple(case["sa"]), tuple(case["oa"]), tuple(case["sb"]), tuple(case["ob"])
    A, B = fm.coordset(sa, oa), fm.coordset(sb, ob)
    I = A & B
    ctx.tag("rel:" + relation(sa, oa, sb, ob))
    ctx.nontrivial_if(bool(I) and I != A and I != B)
    with lentil_call("C06.extent", "extent functions"):
        ea = lext.array_extent(sa, oa)
        eb = lext.array_extent(sb, ob)
        hit = lext.intersect(ea, eb)
        ishape = lext.intersection_shape(ea, eb)
        ca = lext.array_center(ea)
    if tuple(ea) != fm.set_extent(A) or tuple(eb) != fm.set_extent(B):
        raise Violation("C06.extent.array_extent", f"array_extent({sa},{oa}) = {ea}, coordinates span {fm.set_extent(A)}")
    if tuple(int(v) for v in ca) != oa:
        raise Violation("C06.extent.center", f"array_center({ea}) = {ca}, expected the offset {oa}")
    if bool(hit) != bool(I):
        raise Violation("C06.extent.intersect", f"intersect({ea},{eb}) = {hit}, sets share {len(I)} samples")
    if not I:
        if tuple(ishape) != ():
            raise Violation("C06.extent.intersection_shape", f"disjoint extents but shape {ishape}")
        return
    ie = fm.set_extent(I)
    want_shape = (ie[1] - ie[0] + 1, ie[3] - ie[2] + 1)
    with lentil_call("C06.extent", "intersection functions"):
        ishift = lext.intersection_shift(ea, eb)
        sla, slb = lext.intersection_slices(ea, eb)
        iext = lext.intersection_extent(ea, eb)
    if tuple(ishape) != want_shape or tuple(iext) != ie:
        raise Violation("C06.extent.intersection_shape", f"{ishape}/{iext} vs set intersection {want_shape}/{ie}")
    # shift = centre of the intersection in the floor(n/2) convention
    if fm.extent(want_shape, ishift) != ie:
        raise Violation("C06.extent.intersection_shift", f"array_extent(shape, shift={ishift}) != intersection {ie}")
    # slices select the common coordinates in both operands
    ra = np.arange(ea[0], ea[1] + 1)[sla[0]]
    cacol = np.arange(ea[2], ea[3] + 1)[sla[1]]
    rb = np.arange(eb[0], eb[1] + 1)[slb[0]]
    cb = np.arange(eb[2], eb[3] + 1)[slb[1]]
    want_r = np.arange(ie[0], ie[1] + 1)
    want_c = np.arange(ie[2], ie[3] + 1)
    if not (np.array_equal(ra, want_r) and np.array_equal(rb, want_r) and np.array_equal(cacol, want_c)
            and np.array_equal(cb, want_c)):
        raise Violation("C06.extent.intersection_slices", f"slices {sla},{slb} do not select {ie}")
    # parent-relative extent
    with lentil_call("C06.extent", "array_extent(parent_shape)"):
        ep = lext.array_extent(sa, oa, parent_shape=(9, 8))
    if tuple(ep) != (ea[0] + 4, ea[1] + 4, ea[2] + 4, ea[3] + 4):
        raise Violation("C06.extent.parent", f"parent-relative extent {ep}")


# --- large fields: sizes at and around 64 / 128 / 256 ---------------------------------------------------

@st.composite
def large_field_case(draw, tier):
    pool = gen.BIG + [255, 256, 257]
    fs = (draw(st.sampled_from(pool + [3, 10])), draw(st.sampled_from(pool + [5])))
    ts = (draw(st.sampled_from(pool + [300])), draw(st.sampled_from(pool + [12])))
    rel = draw(st.sampled_from(["inside", "clipped", "edge", "outside"]))
    return {"fs": list(fs), "ts": list(ts), "rel": rel, "seed": draw(st.integers(0, 2**31 - 1)),
            "u": [draw(gen.finite(-1, 1)), draw(gen.finite(-1, 1))], "intensity": draw(st.booleans()),
            "weight": draw(st.sampled_from([1, -2.5, 0.125]))}


@hyp("C06", "large", lambda tier: large_field_case(tier),
     "insert / product / merge with fields and targets of 63..300 samples per axis against direct index arithmetic",
     examples=(40, 150), budget_s=(120, 600))
def large(case, ctx):
    fs, ts = tuple(case["fs"]), tuple(case["ts"])
    rng = np.random.default_rng(case["seed"])
    # offset chosen so that the field is inside / clipped / touching by one sample / wholly outside
    span = [(ts[i] + fs[i]) // 2 for i in range(2)]
    if case["rel"] == "inside":
        off = [int(case["u"][i] * max((ts[i] - fs[i]) // 2 - 1, 0)) for i in range(2)]
    elif case["rel"] == "clipped":
        off = [int(case["u"][i] * span[i] * 0.8) for i in range(2)]
    elif case["rel"] == "edge":
        off = [int(np.sign(case["u"][i]) or 1) * (span[i] - (1 if case["u"][i] > 0 else 0)) if i == 0 else int(case["u"][i] * 3)
               for i in range(2)]
    else:
        off = [int((np.sign(case["u"][i]) or 1) * (span[i] + 2 + abs(int(case["u"][i] * 9)))) if i == 0 else int(case["u"][i] * 5)
               for i in range(2)]
    data = rng.normal(size=fs) + 1j * rng.normal(size=fs)
    ctx.tag("rel:" + case["rel"], f"max:{max(max(fs), max(ts)) // 64 * 64}+")
    ctx.nontrivial_if(case["rel"] != "inside")
    f = Field(data=data.copy(), offset=list(off))
    out = rng.uniform(-1, 1, size=ts) if case["intensity"] else (rng.uniform(-1, 1, size=ts) + 1j * rng.uniform(-1, 1, size=ts))
    before = out.copy()
    exp = before.copy()
    src = np.abs(data) ** 2 if case["intensity"] else data
    rows = np.arange(fs[0]) + off[0] - fs[0] // 2 + ts[0] // 2
    cols = np.arange(fs[1]) + off[1] - fs[1] // 2 + ts[1] // 2
    okr, okc = (rows >= 0) & (rows < ts[0]), (cols >= 0) & (cols < ts[1])
    if okr.any() and okc.any():
        exp[np.ix_(rows[okr], cols[okc])] += case["weight"] * src[np.ix_(np.flatnonzero(okr), np.flatnonzero(okc))]
    with lentil_call("C06.large.insert", f"insert(field {fs}@{off} -> {ts})"):
        lfield.insert(f, out, intensity=case["intensity"], weight=case["weight"])
    if np.max(np.abs(out - exp)) > 1e-12 * (np.max(np.abs(exp)) + 1):
        raise Violation("C06.large.insert", f"insert(field {fs}@{off} -> {ts}) differs from the embedding restricted to the "
                                            f"target ({case['rel']})")
    # product with a second large field at the mirrored offset
    g = Field(data=rng.normal(size=(ts[0] // 2 + 1, ts[1] // 2 + 1)) + 0j, offset=[-off[0] // 3, off[1] // 2])
    with lentil_call("C06.large.mul", "Field * Field"):
        pr = f * g
    ca, cb = fm.coords(fs, off), fm.coords(g.data.shape, g.offset)
    r0, r1, c0, c1 = max(ca[0], cb[0]), min(ca[1], cb[1]), max(ca[2], cb[2]), min(ca[3], cb[3])
    if r1 <= r0 or c1 <= c0:
        if pr.data.size != 0:
            raise Violation("C06.large.mul", "product of non-overlapping large fields is not empty")
    else:
        want = data[r0 - ca[0]:r1 - ca[0], c0 - ca[2]:c1 - ca[2]] * g.data[r0 - cb[0]:r1 - cb[0], c0 - cb[2]:c1 - cb[2]]
        pc = fm.coords(pr.data.shape, pr.offset)
        if pc != (r0, r1, c0, c1) or np.max(np.abs(pr.data - want)) > 1e-12 * (np.max(np.abs(want)) + 1):
            raise Violation("C06.large.mul", f"product of fields {fs}@{off} and {g.data.shape}@{g.offset} differs from the "
                                             f"pointwise product on the common samples")


# --- fields of more than a million samples -------------------------------------------------------------------

@st.composite
def mega_field_case(draw, tier):
    fs = draw(gen.mega_shape())
    return {"fs": list(fs), "dt": [draw(st.integers(-60, 60)), draw(st.integers(-60, 60))],
            "off": [draw(st.integers(-80, 80)), draw(st.integers(-80, 80))], "seed": draw(st.integers(0, 2**31 - 1)),
            "intensity": draw(st.booleans()), "weight": draw(st.sampled_from([1, -2.5, 0.125]))}


@hyp("C06", "mega", lambda tier: mega_field_case(tier),
     "insert and product with fields of more than 2^20 samples against direct index arithmetic", examples=(3, 12),
     budget_s=(150, 700))
def mega(case, ctx):
    fs = tuple(case["fs"])
    ts = (fs[0] + case["dt"][0], fs[1] + case["dt"][1])
    off = tuple(case["off"])
    rng = np.random.default_rng(case["seed"])
    data = rng.normal(size=fs) + 1j * rng.normal(size=fs)
    f = Field(data=data, offset=list(off))
    ctx.tag("mega", "intensity" if case["intensity"] else "complex")
    ctx.nontrivial_if(True)
    tgt = np.zeros(ts, dtype=float if case["intensity"] else complex)
    # expected: sample (i, j) of the field sits at target index i - fs//2 + off + ts//2
    r = np.arange(fs[0]) - fs[0] // 2 + off[0] + ts[0] // 2
    c = np.arange(fs[1]) - fs[1] // 2 + off[1] + ts[1] // 2
    okr, okc = (r >= 0) & (r < ts[0]), (c >= 0) & (c < ts[1])
    exp = tgt.copy()
    src = np.abs(data) ** 2 if case["intensity"] else data
    exp[np.ix_(r[okr], c[okc])] += case["weight"] * src[np.ix_(okr, okc)]
    with lentil_call("C06.mega.insert", f"insert(field {fs} at {off} into {ts})"):
        out = lfield.insert(f, tgt, intensity=case["intensity"], weight=case["weight"])
    if out.shape != exp.shape or float(np.max(np.abs(out - exp))) > 1e-12 * float(np.max(np.abs(src))):
        raise Violation("C06.mega.insert", f"insert of a {fs} field at offset {off} into a {ts} array differs from direct "
                                           f"index arithmetic")
    g = Field(data=rng.normal(size=(fs[0] - 7, fs[1] + 5)) + 0j, offset=[off[0] + 3, off[1] - 2])
    with lentil_call("C06.mega.mul", "Field * Field"):
        prod = f * g
    Lr, Lc = fs[0] + 400, fs[1] + 400           # canvas just large enough for both operands at their offsets

    def emb(fld):
        z = np.zeros((Lr, Lc), dtype=complex)
        sh, o = fld.data.shape, fld.offset
        r0, c0 = Lr // 2 - sh[0] // 2 + int(o[0]), Lc // 2 - sh[1] // 2 + int(o[1])
        z[r0:r0 + sh[0], c0:c0 + sh[1]] = fld.data
        return z
    want = emb(f) * emb(g)
    if float(np.max(np.abs(emb(prod) - want))) > 1e-12 * float(np.max(np.abs(want))):
        raise Violation("C06.mega.mul", f"product of {fs} and {g.data.shape} fields differs from the pointwise product of "
                                        f"their embeddings")
