"""C14 - unit conversions are consistent and Planck's law is unit-independent."""
import itertools

import numpy as np
from hypothesis import strategies as st

import lentil
from lentil import radiometry as rad
from lentil.radiometry import Spectrum
from vlib import gen
from vlib.runner import Skip, Violation, enum, expect_raises, hyp, lentil_call

# the check's own calls are issued with keywords or positionally in the documented order (vlib/callforms.py)
from vlib import callforms as _cf
lentil = _cf.proxy(lentil)
rad = _cf.proxy(rad, "radiometry.")

RULE = ("complete enumeration of ordered triples of wavelength-unit names (incl. long aliases) and of flux units; "
        "drawn wavelengths (1e-8..1e-2 m), fluxes and temperatures (50..50 000 K) for Spectrum.to, Planck radiance / "
        "exitance and Vega fluxes in every (wavelength unit, flux unit) pair; non-trivial = the units involved are "
        "not all equal")
ASSUMPTIONS = [
    "SI scale of the wavelength units (m, um = 1e-6 m, nm = 1e-9 m, angstrom = 1e-10 m) from the Unit docstring",
    "physical constants H, C, K are taken from the module under test (the property is about unit consistency)",
    "Wien peak located on a dense logarithmic grid (one grid step); Stefan-Boltzmann by trapezoid on that grid (1e-5)",
]

WNAMES = ["m", "meter", "um", "micron", "nm", "nanometer", "angstrom"]
CANON = {"m": "m", "meter": "m", "um": "um", "micron": "um", "nm": "nm", "nanometer": "nm", "angstrom": "angstrom"}
SI = {"m": 1.0, "um": 1e-6, "nm": 1e-9, "angstrom": 1e-10}
FNAMES = ["photlam", "flam", "wlam"]


def close(a, b, rel=1e-12):
    a, b = np.asarray(a, dtype=float), np.asarray(b, dtype=float)
    return bool(np.all(np.abs(a - b) <= rel * np.maximum(np.abs(a), np.abs(b)) + 1e-300))


def wfactor(a, b):
    return rad.Unit(a).to(b)


def _enum_wave(tier):
    for t in itertools.product(WNAMES, repeat=3):
        yield {"units": list(t)}


@enum("C14", "wave_triples", _enum_wave, "all 7^3 ordered triples of wavelength-unit names",
      exhaustive_tiers=("quick", "thorough"))
def wave_triples(case, ctx):
    a, b, c = case["units"]
    ctx.tag("aliases" if any(u in ("meter", "micron", "nanometer") for u in (a, b, c)) else "short_names")
    ctx.nontrivial_if(len({CANON[a], CANON[b], CANON[c]}) == 3)
    with lentil_call("C14.wave", f"Unit factors {a}->{b}->{c}"):
        ab, bc, ac, aa, ba = wfactor(a, b), wfactor(b, c), wfactor(a, c), wfactor(a, a), wfactor(b, a)
    if aa != 1:
        raise Violation("C14.wave.identity", f"{a}->{a} factor {aa}")
    if not close(ab * bc, ac):
        raise Violation("C14.wave.compose", f"{a}->{b} ({ab}) x {b}->{c} ({bc}) != {a}->{c} ({ac})")
    if not close(ab * ba, 1.0):
        raise Violation("C14.wave.roundtrip", f"{a}->{b}->{a} = {ab * ba}")
    if not close(ab, SI[CANON[a]] / SI[CANON[b]]):
        raise Violation("C14.wave.si", f"{a}->{b} factor {ab}, SI definition gives {SI[CANON[a]] / SI[CANON[b]]}")
    if rad.Unit(a).name != CANON[a]:
        raise Violation("C14.wave.name", f"Unit({a!r}).name = {rad.Unit(a).name}")


def _enum_flux(tier):
    for i, t in enumerate(itertools.product(FNAMES, repeat=3)):
        for k, (lam, flux) in enumerate([(5e-7, 1.0), (1.3e-8, 4.2e10), (9e-3, 7e-9), (2.2e-6, 3.0)]):
            yield {"units": list(t), "wave_m": lam, "flux": flux}


def fconv(flux, a, b, wave_m):
    return rad.Unit(a).to(flux, b, wave_m)


@enum("C14", "flux_triples", _enum_flux, "all 3^3 ordered triples of flux units at four (wavelength, flux) points",
      exhaustive_tiers=("quick", "thorough"))
def flux_triples(case, ctx):
    a, b, c = case["units"]
    lam, f = case["wave_m"], case["flux"]
    ctx.nontrivial_if(len({a, b, c}) == 3)
    ctx.tag("/".join(case["units"]))
    with lentil_call("C14.flux", f"flux conversion {a}->{b}->{c}"):
        ab = fconv(f, a, b, lam)
        abc = fconv(ab, b, c, lam)
        ac = fconv(f, a, c, lam)
        aba = fconv(ab, b, a, lam)
        aa = fconv(f, a, a, lam)
    if aa != f:
        raise Violation("C14.flux.identity", f"{a}->{a} changed the flux")
    if not close(abc, ac):
        raise Violation("C14.flux.compose", f"{a}->{b}->{c} = {abc} but {a}->{c} = {ac} (lambda {lam} m)")
    if not close(aba, f):
        raise Violation("C14.flux.roundtrip", f"{a}->{b}->{a} = {aba}, started from {f}")
    # independent definitions: W = photons * h c / lambda ; 1 W/m^2 = 1e3 erg/s/cm^2
    to_w = {"wlam": 1.0, "flam": 1e-3, "photlam": rad.H * rad.C / lam}
    if not close(ab, f * to_w[a] / to_w[b]):
        raise Violation("C14.flux.definition", f"{a}->{b} at {lam} m gives {ab}, definition gives {f * to_w[a] / to_w[b]}")


# --- Spectrum.to ---------------------------------------------------------------------------------------

@st.composite
def spectrum_case(draw, tier):
    n = draw(st.integers(2, 30))
    lo = draw(gen.pos_log(1e-8, 1e-3))
    hi = lo * draw(gen.finite(1.05, 10.0))
    k = draw(st.integers(0, 2**31 - 1))
    rng = np.random.default_rng(k)
    w = np.sort(rng.uniform(lo, hi, size=n))
    w[0], w[-1] = lo, hi
    if np.any(np.diff(w) <= 0):
        w = np.linspace(lo, hi, n)
    cls = draw(st.sampled_from(["Spectrum", "Spectrum", "Spectrum", "copy", "Blackbody", "vegamag"]))
    vu = draw(st.sampled_from([None, "photlam", "flam", "wlam"]))
    path = [draw(st.sampled_from(["m", "um", "nm", "angstrom", "photlam", "flam", "wlam"]))
            for _ in range(draw(st.integers(1, 4)))]
    if cls == "vegamag":
        vu = "photlam"                      # the zero points are photon fluxes
    if cls in ("Blackbody", "vegamag"):
        vu = vu or "photlam"
        if not any(p in ("photlam", "flam", "wlam") and p != vu for p in path):
            path.insert(draw(st.integers(0, len(path))), draw(st.sampled_from([u for u in ("photlam", "flam", "wlam") if u != vu])))
    return {"wave_m": w, "value": rng.uniform(0.1, 5.0, size=n) * draw(gen.pos_log(1e-6, 1e6)),
            "unit": draw(st.sampled_from(["m", "um", "nm", "angstrom"])),
            "valueunit": vu,
            "path": path,
            "two_arg": draw(st.booleans()),
            # the object converted: a plain Spectrum, a copy() of one, or one of the Spectrum subclasses
            "cls": cls,
            "temp_factor": draw(gen.finite(1.0, 4.0)), "mag": draw(gen.finite(-2.0, 12.0)),
            "band": draw(st.sampled_from(["U", "B", "V", "R", "I", "J", "H", "K"]))}


def make_spectrum(case, wave, value, u, vu):
    with np.errstate(all="ignore"):
        return _make_spectrum(case, wave, value, u, vu)


def _make_spectrum(case, wave, value, u, vu):
    cls = case.get("cls", "Spectrum")
    if cls in ("Blackbody", "vegamag") and vu is not None:
        # temperature high enough for the Planck exponent to stay well inside the float range
        # (for vegamag also at the band's reference wavelength, 0.36 um or longer)
        temp = 0.0144 / (min(case["wave_m"][0], 3.6e-7 if cls == "vegamag" else 1.0) * 40.0) * case["temp_factor"]
        if cls == "Blackbody":
            return rad.Blackbody(wave.copy(), temp, waveunit=u, valueunit=vu)
        if vu == "photlam":
            return rad.Blackbody.vegamag(wave.copy(), temp, case["mag"], case["band"], waveunit=u)
    s = Spectrum(wave.copy(), value.copy(), waveunit=u, valueunit=vu)
    return s.copy() if cls == "copy" else s


def trapz(y, x):
    return float(np.sum((y[1:] + y[:-1]) * np.diff(x) / 2))


@hyp("C14", "spectrum_to", lambda tier: spectrum_case(tier),
     "Spectrum.to along drawn unit paths: integral invariant for densities, values invariant for unitless spectra, "
     "round trips restore, two-argument form == two calls, flux conversion of a unitless spectrum refused",
     examples=(500, 2000))
def spectrum_to(case, ctx):
    u, vu = case["unit"], case["valueunit"]
    f = SI["m"] / SI[u]
    wave = case["wave_m"] * f
    value = case["value"] / f if vu else case["value"]
    with lentil_call("C14.spectrum.make", f"{case.get('cls', 'Spectrum')} in ({u}, {vu})"):
        s = make_spectrum(case, wave, value, u, vu)
        # whatever its class, the object is a spectrum whose samples may have been edited since construction
        # (emissivity applied, band edges zeroed): conversions act on the samples it holds now
        ed = (int(case["wave_m"].size) + len(case["path"]) + int(case.get("two_arg", False))) % 4
        if ed == 1:
            s.value = np.asarray(s.value) * np.linspace(0.3, 0.9, np.asarray(s.value).size)
        elif ed == 2 and np.asarray(s.value).size >= 3:
            s.value[0] = 0.0
            s.value[-1] *= 0.5
        ctx.tag(["edit:none", "edit:assign", "edit:inplace", "edit:none"][ed])
        edited = (np.asarray(s.wave, dtype=float).copy(), np.asarray(s.value, dtype=float).copy())
    value = np.asarray(s.value, dtype=float).copy()
    if not np.all(np.isfinite(value)) or not np.any(value) or np.max(np.abs(value)) > 1e200 \
            or np.min(np.abs(value[value != 0])) < 1e-200:
        raise Skip("degenerate_blackbody_values")          # over/underflow regime of the Planck exponent
    ctx.tag("valueunit:" + str(vu), "start:" + u, f"path_len:{len(case['path'])}", "object:" + type(s).__name__ +
            ("(vegamag)" if hasattr(s, "band") else "(copy)" if case.get("cls") == "copy" else ""))
    ctx.nontrivial_if(any(p != u and p != vu for p in case["path"]))
    w0_m = np.asarray(s.wave) * SI[s.waveunit]
    integ0 = trapz(np.asarray(s.value), np.asarray(s.wave))
    cur_vu = vu
    for step in case["path"]:
        if step in FNAMES and cur_vu is None:
            snap = (s.wave.copy(), s.value.copy(), s.waveunit, s.valueunit)
            expect_raises("C14.spectrum.refuse", (TypeError,), lambda: s.to(step),
                          f"flux conversion {step} of a unitless spectrum")
            if not (np.array_equal(s.wave, snap[0]) and np.array_equal(s.value, snap[1]) and s.waveunit == snap[2]):
                raise Violation("C14.spectrum.refuse", "refused conversion changed the spectrum")
            continue
        before_integ = trapz(np.asarray(s.value), np.asarray(s.wave))
        before_vals = np.asarray(s.value).copy()
        with lentil_call("C14.spectrum.to", f"Spectrum.to({step}) from ({s.waveunit}, {s.valueunit})"):
            s.to(step)
        if step in SI:
            if s.waveunit != step:
                raise Violation("C14.spectrum.unit", f"waveunit {s.waveunit} after to({step})")
            if not close(np.asarray(s.wave) * SI[step], w0_m, 1e-12):
                raise Violation("C14.spectrum.wave", f"wavelengths changed physically in to({step})")
            if cur_vu is None:
                if not np.array_equal(np.asarray(s.value), before_vals):
                    raise Violation("C14.spectrum.unitless", f"unitless values changed in to({step})")
            else:
                now = trapz(np.asarray(s.value), np.asarray(s.wave))
                if not close(now, before_integ, 1e-11):
                    raise Violation("C14.spectrum.integral", f"integral of a {cur_vu} density changed from {before_integ} "
                                                             f"to {now} in to({step})")
        else:
            if s.valueunit != step:
                raise Violation("C14.spectrum.unit", f"valueunit {s.valueunit} after to({step})")
            # per-sample definition check (values per current wavelength unit)
            lam = np.asarray(s.wave) * SI[s.waveunit]
            to_w = {"wlam": np.ones_like(lam), "flam": np.full_like(lam, 1e-3), "photlam": rad.H * rad.C / lam}
            want = before_vals * to_w[cur_vu] / to_w[step]
            if not close(np.asarray(s.value), want, 1e-11):
                raise Violation("C14.spectrum.flux", f"{cur_vu}->{step} of a spectrum differs from the definition")
            cur_vu = step
    # the whole path handed over in ONE call: to(*units) - if the call is accepted, the spectrum it leaves is the same
    # physical spectrum in the final units as after the successive calls (a refusal of more than the documented
    # (wavelength unit, flux unit) pair is not a violation)
    if len(case["path"]) >= 2 and (vu is not None or not any(p in FNAMES for p in case["path"])):
        s3 = make_spectrum(case, wave, value, u, vu)
        s3.value = edited[1].copy()
        n_flux = sum(1 for p in case["path"] if p in FNAMES)
        ctx.tag(f"one_call:flux_units:{min(n_flux, 3)}")
        try:
            with np.errstate(all="ignore"):
                s3.to(*case["path"])
        except Exception:  # noqa: BLE001
            ctx.tag("one_call:refused")
            s3 = None
        if s3 is not None and not (close(s3.wave, s.wave, 1e-11) and close(s3.value, s.value, 1e-10) and s3.waveunit == s.waveunit
                                   and s3.valueunit == s.valueunit):
            raise Violation("C14.spectrum.one_call", f"to{tuple(case['path'])} in one call leaves ({s3.waveunit}, {s3.valueunit}) values "
                                                     f"{np.asarray(s3.value)[:3]}, the same steps as successive calls leave "
                                                     f"({s.waveunit}, {s.valueunit}) values {np.asarray(s.value)[:3]}")
    # return to the start: everything restored
    with lentil_call("C14.spectrum.to", "return to the original units"):
        if vu is not None and case["two_arg"]:
            s.to(u, vu)
        else:
            s.to(u)
            if vu is not None:
                s.to(vu)
    if not (close(s.wave, wave, 1e-11) and close(s.value, value, 1e-10)):
        raise Violation("C14.spectrum.roundtrip", f"path {case['path']} and back does not restore the spectrum")
    if vu is not None and not close(trapz(np.asarray(s.value), np.asarray(s.wave)), integ0, 1e-10):
        raise Violation("C14.spectrum.roundtrip", "integral not restored")
    # two-argument form == two calls
    if vu is not None:
        t_w = [p for p in case["path"] if p in SI][-1:] or ["um"]
        t_f = [p for p in case["path"] if p in FNAMES][-1:] or ["wlam"]
        s1 = make_spectrum(case, wave, value, u, vu)
        s2 = make_spectrum(case, wave, value, u, vu)
        s1.value, s2.value = edited[1].copy(), edited[1].copy()
        with lentil_call("C14.spectrum.two_arg", f"to({t_w[0]}, {t_f[0]})"):
            s1.to(t_w[0], t_f[0])
            s2.to(t_w[0])
            s2.to(t_f[0])
        if not (close(s1.wave, s2.wave) and close(s1.value, s2.value, 1e-12) and s1.waveunit == s2.waveunit
                and s1.valueunit == s2.valueunit):
            raise Violation("C14.spectrum.two_arg", "to(wave_unit, flux_unit) differs from two successive calls")


@hyp("C14", "spectrum_to_integer", lambda tier: st.fixed_dictionaries(
        {"dtype": st.sampled_from(["int64", "int32", "int16", "uint16", "uint8", "int8"]),
         "vdtype": st.sampled_from(["same", "same", "float64", "int64", "uint8"]),
         "start": st.integers(1, 100), "steps": st.lists(st.integers(1, 6), min_size=2, max_size=12),
         "vals": st.lists(st.integers(0, 120), min_size=13, max_size=13),
         "unit": st.sampled_from(["m", "um", "nm", "angstrom"]), "valueunit": st.sampled_from([None] + FNAMES),
         "path": st.lists(st.sampled_from(["m", "um", "nm", "angstrom"] + FNAMES), min_size=1, max_size=4)}),
     "Spectrum.to on spectra whose whole-number wavelengths / values are held in integer arrays of any width: every "
     "step gives the physical spectrum that the same numbers held as floats give (dtype of the storage is not part "
     "of the quantity)", examples=(300, 1200))
def spectrum_to_integer(case, ctx):
    w = np.cumsum([case["start"]] + case["steps"])
    if w[-1] > np.iinfo(case["dtype"]).max:
        w = w[w <= np.iinfo(case["dtype"]).max]
    if w.size < 2:
        raise Skip("too_few_samples")
    vdt = case["dtype"] if case["vdtype"] == "same" else case["vdtype"]
    v = np.array(case["vals"][:w.size]) + (0 if case["valueunit"] is None else 1)
    u, vu = case["unit"], case["valueunit"]
    ctx.tag("dtype:" + case["dtype"], "valueunit:" + str(vu), "start:" + u)
    ctx.nontrivial_if(any(p != u and p != vu for p in case["path"]))
    with lentil_call("C14.spectrum_int.make", f"Spectrum({case['dtype']} wave, {vdt} value, {u}, {vu})"):
        si = Spectrum(w.astype(case["dtype"]), v.astype(vdt), waveunit=u, valueunit=vu)
        sf = Spectrum(w.astype(float), v.astype(float), waveunit=u, valueunit=vu)
    for step in case["path"]:
        if step in FNAMES and vu is None:
            continue
        with lentil_call("C14.spectrum_int.to", f"to({step}) of a Spectrum with {case['dtype']} wavelengths {w[:4]}... ({u}, {vu})"):
            with np.errstate(all="ignore"):
                si.to(step)
                sf.to(step)
        gi, gf = np.asarray(si.wave, dtype=float), np.asarray(sf.wave, dtype=float)
        vi, vf = np.asarray(si.value, dtype=float), np.asarray(sf.value, dtype=float)
        if gi.shape != gf.shape or not np.allclose(gi, gf, rtol=1e-12, atol=0):
            raise Violation("C14.spectrum_int.wave", f"after to({step}) in path {case['path']}: wavelengths {gi[:3]} from "
                                                     f"{case['dtype']} storage, {gf[:3]} from float storage")
        if vi.shape != vf.shape or not np.allclose(vi, vf, rtol=1e-11, atol=0):
            raise Violation("C14.spectrum_int.value", f"after to({step}) in path {case['path']}: values {vi[:3]} from "
                                                      f"{vdt} storage, {vf[:3]} from float storage")
        if si.waveunit != sf.waveunit or si.valueunit != sf.valueunit:
            raise Violation("C14.spectrum_int.unit", f"units ({si.waveunit}, {si.valueunit}) vs ({sf.waveunit}, {sf.valueunit})")


# --- Planck ----------------------------------------------------------------------------------------------

@st.composite
def planck_case(draw, tier):
    T = draw(gen.pos_log(50.0, 50000.0)) if draw(st.integers(0, 3)) else draw(gen.pos_log(2.7, 1e8))
    n = draw(st.integers(1, 12))
    # wavelengths around the thermal peak so that exp() neither overflows nor underflows everywhere; one case in
    # four goes far into the Rayleigh-Jeans tail (radio wavelengths: h c / (lambda k T) down to ~1e-9)
    peak = 2.9e-3 / T
    far = draw(st.integers(0, 3)) == 0
    lam = peak * np.array([draw(gen.pos_log(200.0, 5e9)) if far and draw(st.booleans()) else draw(gen.pos_log(0.05, 200.0))
                           for _ in range(n)])
    return {"T": T, "wave_m": lam, "waveunit": draw(st.sampled_from(["m", "um", "nm", "angstrom"])),
            "valueunit": draw(st.sampled_from(FNAMES)), "scalar": draw(st.booleans())}


def planck_si(lam, T, pi_factor):
    h, c, k = rad.H, rad.C, rad.K
    return pi_factor * 2 * h * c ** 2 / (lam ** 5 * np.expm1(h * c / (lam * k * T)))


@st.composite
def planck_int_case(draw, tier):
    """Whole-number wavelengths held in an integer array / integer scalar (tabulated grids such as arange(400, 4000) nm,
    or metre waves 1, 2, 3 ... m), in every wavelength unit."""
    dt = draw(st.sampled_from(["int64", "int64", "int32", "int16", "uint16", "uint8", "int8", "uint64", "pyint"]))
    top = {"int8": 127, "uint8": 255, "int16": 32767, "uint16": 65535}.get(dt, 10**6)
    hi = draw(st.sampled_from([9, 100, 127, 255, 4000, 32767, 10**5, 10**6]))
    hi = min(hi, top)
    n = draw(st.integers(1, 10))
    w = sorted(set(draw(st.lists(st.integers(1, hi), min_size=n, max_size=n))))
    wu = draw(st.sampled_from(["m", "m", "um", "nm", "angstrom"]))
    # temperature chosen from x = h c / (lambda k T) at the middle wavelength: thermal peak to Rayleigh-Jeans tail
    x0 = draw(gen.pos_log(1e-5, 20.0))
    return {"waves": w, "dtype": dt, "waveunit": wu, "valueunit": draw(st.sampled_from(FNAMES)), "x0": x0,
            "scalar": draw(st.integers(0, 3)) == 0}


@hyp("C14", "planck_integer", lambda tier: planck_int_case(tier),
     "planck_radiance / planck_exitance at whole-number wavelengths held in integer arrays / numpy integer scalars / "
     "Python ints of every width, in every (wavelength unit, flux unit): same physical quantity as the SI evaluation "
     "of the same numbers as floats", examples=(300, 1200))
def planck_integer(case, ctx):
    wu, vu, dt = case["waveunit"], case["valueunit"], case["dtype"]
    w = case["waves"][:1] if case["scalar"] else case["waves"]
    lam = np.array(w, dtype=float) * SI[wu]
    T = float(rad.H * rad.C / (lam[len(lam) // 2] * rad.K * case["x0"]))
    if dt == "pyint":
        if not case["scalar"]:
            raise Skip("python_int_is_scalar_only")
        wave = int(w[0])
    else:
        wave = np.array(w, dtype=dt)
        if case["scalar"]:
            wave = wave[0]
    ctx.tag("waveunit:" + wu, "dtype:" + dt, "scalar" if case["scalar"] else "array",
            "w^5>int64" if max(w) > 6208 else ("w^5>dtype" if dt not in ("int64", "uint64", "pyint") and max(w) ** 5 > np.iinfo(dt).max else "w^5_fits"))
    ctx.nontrivial_if(True)
    with lentil_call("C14.planck_int", f"planck_radiance/exitance({dt} wavelengths {w[:4]} {wu}, T={T:.4g}, {vu})"):
        with np.errstate(all="ignore"):
            L = np.atleast_1d(np.asarray(rad.planck_radiance(wave, T, waveunit=wu, valueunit=vu), dtype=float))
            M = np.atleast_1d(np.asarray(rad.planck_exitance(wave, T, waveunit=wu, valueunit=vu), dtype=float))
    to_w = {"wlam": np.ones_like(lam), "flam": np.full_like(lam, 1e-3), "photlam": rad.H * rad.C / lam}
    L_si = L / SI[wu] * to_w[vu]
    M_si = M / SI[wu] * to_w[vu]
    with np.errstate(all="ignore"):
        want = planck_si(lam, T, 1.0)
    ok = np.isfinite(want) & (want > 1e-250)
    xx = rad.H * rad.C / (lam * rad.K * T)
    ptol = 1e-9 + 16 * np.finfo(float).eps / xx
    if L_si.shape != want.shape or M_si.shape != want.shape:
        raise Violation("C14.planck_int.shape", f"{len(w)} wavelengths gave {L.shape} / {M.shape} values")
    for name, got, f in (("radiance", L_si, 1.0), ("exitance", M_si, np.pi)):
        if np.any(~(np.abs(got[ok] - f * want[ok]) <= ptol[ok] * f * want[ok])):
            raise Violation("C14.planck_int." + name,
                            f"planck_{name}({wu}, {vu}) at the {dt} wavelengths {w[:4]} (T={T:.4g} K) is "
                            f"{(got / f)[ok][:3]} in SI, the same numbers as floats give {want[ok][:3]}")


@hyp("C14", "planck", lambda tier: planck_case(tier),
     "planck_radiance / planck_exitance in every (wavelength unit, flux unit): same physical quantity as the SI "
     "evaluation, exitance = pi x radiance", examples=(600, 2500))
def planck(case, ctx):
    T, lam = case["T"], case["wave_m"]
    wu, vu = case["waveunit"], case["valueunit"]
    ctx.tag("waveunit:" + wu, "valueunit:" + vu)
    ctx.nontrivial_if(wu != "m" or vu != "wlam")
    wave = lam / SI[wu]
    if case["scalar"]:
        wave, lam = float(wave[0]), lam[:1]
    with lentil_call("C14.planck", f"planck_radiance/exitance({wu}, {vu})"):
        L = np.atleast_1d(np.asarray(rad.planck_radiance(wave, T, waveunit=wu, valueunit=vu), dtype=float))
        M = np.atleast_1d(np.asarray(rad.planck_exitance(wave, T, waveunit=wu, valueunit=vu), dtype=float))
    # to W m^-2 per metre
    to_w = {"wlam": np.ones_like(lam), "flam": np.full_like(lam, 1e-3), "photlam": rad.H * rad.C / lam}
    L_si = L / SI[wu] * to_w[vu]
    M_si = M / SI[wu] * to_w[vu]
    want = planck_si(lam, T, 1.0)
    ok = np.isfinite(want) & (want > 1e-250)
    # exp(x) - 1 as written in the library loses eps/x (relative) for small x = h c / (lambda k T): that rounding is
    # allowed for, the reference itself uses expm1
    xx = rad.H * rad.C / (lam * rad.K * T)
    ptol = 1e-9 + 16 * np.finfo(float).eps / xx
    ctx.tag("rayleigh_jeans_tail" if np.any(xx < 1e-6) else None)
    if np.any(np.abs(L_si[ok] - want[ok]) > ptol[ok] * want[ok]) or np.any(np.abs(M_si[ok] - np.pi * want[ok]) > ptol[ok] * np.pi * want[ok]):
        bad = "radiance" if np.any(np.abs(L_si[ok] - want[ok]) > ptol[ok] * want[ok]) else "exitance"
        raise Violation("C14.planck." + bad, f"planck_{bad}({wu}, {vu}) at T={T:.4g} K, wavelengths {lam[ok][:3]} m is not "
                                             f"the SI {bad} ({(L_si if bad == 'radiance' else M_si / np.pi)[ok][:3]} vs {want[ok][:3]})")
    # exitance = pi x radiance, sample by sample (the same expression twice: rounding level)
    if np.any(np.abs(M_si[ok] - np.pi * L_si[ok]) > 1e-12 * np.pi * np.abs(L_si[ok])):
        raise Violation("C14.planck.exitance", f"planck_exitance({wu}, {vu}) is not pi x planck_radiance")


@st.composite
def wien_case(draw, tier):
    return {"T": draw(gen.pos_log(50.0, 50000.0)), "waveunit": draw(st.sampled_from(["m", "um", "nm", "angstrom"])),
            "valueunit": draw(st.sampled_from(FNAMES))}


@hyp("C14", "wien_stefan", lambda tier: wien_case(tier),
     "the Planck curve peaks where Wien's displacement law says (energy and photon units) and exitance integrates "
     "to sigma T^4", examples=(200, 800))
def wien_stefan(case, ctx):
    T, wu, vu = case["T"], case["waveunit"], case["valueunit"]
    h, c, k = rad.H, rad.C, rad.K
    ctx.tag("valueunit:" + vu, "waveunit:" + wu)
    ctx.nontrivial_if(True)
    x = 3.9206903 if vu == "photlam" else 4.9651142
    peak = h * c / (x * k * T)
    lam = peak * np.logspace(-2, 3, 20001)
    with lentil_call("C14.wien", "planck_exitance on a dense grid"):
        M = np.asarray(rad.planck_exitance(lam / SI[wu], T, waveunit=wu, valueunit=vu), dtype=float)
    i = int(np.argmax(M))
    step = lam[1] / lam[0]
    if not (peak / step ** 1.5 <= lam[i] <= peak * step ** 1.5):
        raise Violation("C14.wien", f"{vu} exitance peaks at {lam[i]:.6e} m, Wien's law gives {peak:.6e} m (T={T:.1f})")
    if vu != "photlam":
        to_w = 1.0 if vu == "wlam" else 1e-3
        total = trapz(M / SI[wu] * to_w, lam)
        sigma = 2 * np.pi ** 5 * k ** 4 / (15 * h ** 3 * c ** 2)
        if abs(total - sigma * T ** 4) > 2e-5 * sigma * T ** 4:
            raise Violation("C14.stefan", f"integrated exitance {total:.6e} != sigma T^4 = {sigma * T ** 4:.6e}")


# --- Vega ----------------------------------------------------------------------------------------------------

VEGA = {"U": (360e-9, 1790), "B": (438e-9, 4036), "V": (545e-9, 3636), "R": (641e-9, 3064), "I": (798e-9, 2416),
        "J": (1220e-9, 1589), "H": (1630e-9, 1021), "K": (2190e-9, 640), "W1": (3353e-9, 310), "W2": (4603e-9, 172),
        "W3": (11561e-9, 31.7), "W4": (22088e-9, 8.36)}


def _enum_vega(tier):
    for band in VEGA:
        for wu in ["m", "um", "nm", "angstrom"]:
            for vu in FNAMES:
                yield {"band": band, "waveunit": wu, "valueunit": vu}


@enum("C14", "vega", _enum_vega, "vegaflux for all 12 bands x 4 wavelength units x 3 flux units vs the documented "
      "Jansky table", exhaustive_tiers=("quick", "thorough"))
def vega(case, ctx):
    band, wu, vu = case["band"], case["waveunit"], case["valueunit"]
    ctx.tag("valueunit:" + vu, "waveunit:" + wu)
    ctx.nontrivial_if(wu != "nm" or vu != "photlam")
    with lentil_call("C14.vega", f"vegaflux({band}, {wu}, {vu})"):
        flux, wave = rad.vegaflux(band.lower() if band == "V" else band, waveunit=wu, valueunit=vu)
    lam, jy = VEGA[band]
    if not close(wave * SI[wu], lam, 1e-12):
        raise Violation("C14.vega.wave", f"band {band}: wavelength {wave} {wu} != {lam} m")
    f_lam_w = jy * 1e-26 * rad.C / lam ** 2               # W m^-2 per metre
    to_w = {"wlam": 1.0, "flam": 1e-3, "photlam": rad.H * rad.C / lam}
    got_w = flux / SI[wu] * to_w[vu]
    if not close(got_w, f_lam_w, 1e-10):
        raise Violation("C14.vega.flux", f"band {band} in ({wu}, {vu}): {got_w} W/m^2/m vs {f_lam_w} from {jy} Jy")
