"""C03 - splitting an aperture into segments or sub-arrays never changes the result."""
import numpy as np
from hypothesis import strategies as st

import lentil
from lentil import fourier
from checks import common as cm
from vlib import gen
from vlib.ref import dft as rdft
from vlib.ref import plane_model as pm
from vlib.runner import (Skip, Violation, hyp, known_predicate, known_probe, lentil_call)

# the check's own calls are issued with keywords or positionally in the documented order (vlib/callforms.py)
from vlib import callforms as _cf
lentil = _cf.proxy(lentil)
fourier = _cf.proxy(fourier, "fourier.")

RULE = ("apertures with a drawn partition of the support into 1..5 segments (stripes, Voronoi, interleaved, "
        "random labels), optional second plane, drawn propagation settings; non-trivial = k >= 2 segments; "
        "distinct = distinct canonical descriptors")
ASSUMPTIONS = [
    "segments whose bounding box is a single sample are excluded by construction and counted "
    "(known finding: a one-element field is treated as an infinite constant)",
    "segmented result compared both with the monolithic lentil result (1e-11 of the peak) and with the "
    "longdouble Fraunhofer sum of the model field",
]


@known_predicate("single_sample_segment")
def _single(case):
    if case.get("probe") == "single_sample_segment":
        return True
    lab = case.get("labels")
    if lab is None:
        return False
    if _window_samples(case) == 1:
        return True
    for v in range(1, int(lab.max()) + 1):
        sel = lab == v
        if sel.any():
            b = gen.bbox(sel)
            if (b[1] - b[0] + 1) * (b[3] - b[2] + 1) == 1:
                return True
    return False


def _window_samples(case):
    """number of output samples lentil evaluates (centred window, or the output mask's bounding box)"""
    os_ = case["oversample"]
    full = (case["out_shape"][0] * os_, case["out_shape"][1] * os_)
    prop = case["out_shape"] if case["prop_shape"] is None else case["prop_shape"]
    sel = pm.centred_window(full, (prop[0] * os_, prop[1] * os_))
    if case["omask"] is not None:
        sel = sel & pm.bbox_window(case["omask"])
    return int(sel.sum())


def cube(labels):
    k = int(labels.max())
    return np.stack([(labels == v).astype(int) for v in range(1, k + 1)])


def merge_single_sample_segments(labels):
    """exclude single-sample segments by construction: fold each into another segment"""
    n_fixed = 0
    k = int(labels.max())
    for v in range(1, k + 1):
        sel = labels == v
        if sel.any():
            b = gen.bbox(sel)
            if (b[1] - b[0] + 1) * (b[3] - b[2] + 1) == 1:
                others = [u for u in range(1, k + 1) if u != v and np.any(labels == u)]
                if others:
                    labels = labels.copy()
                    labels[sel] = others[0]
                    n_fixed += 1
    # compact
    out = np.zeros_like(labels)
    for j, v in enumerate([u for u in range(1, k + 1) if np.any(labels == u)]):
        out[labels == v] = j + 1
    return out, n_fixed


@st.composite
def seg_case(draw, tier="quick"):
    hi = 14 if tier == "quick" else draw(st.sampled_from([14, 24, 36]))
    shape = draw(gen.shape2(3, hi, big=0.02, big_pool=[63, 64, 65, 100, 128, 129]))
    samp = draw(gen.sampling(shape))
    wl = samp["wavelength"]
    amp, opd, mask = draw(gen.aperture(shape, wl, min_samples=4))
    amp = amp * draw(gen.scales())
    labels, kind = draw(gen.partition(mask.astype(bool), kmax=5))
    labels, nfix = merge_single_sample_segments(labels)
    second = None
    if draw(st.sampled_from([False, False, True])):
        # the second plane's arrays may have another size (planes line up on their origin samples, index floor(n/2))
        shape2 = shape
        if draw(st.booleans()) and max(shape) <= 40:
            shape2 = (max(3, shape[0] + draw(st.integers(-4, 8))), max(3, shape[1] + draw(st.integers(-4, 8))))
        a2, o2, m2 = draw(gen.aperture(shape2, wl, min_samples=4))
        lab2 = None
        if draw(st.booleans()) or shape2 != shape:
            # (a second plane of another size is always segmented: segments x segments on two different frames)
            lab2, _ = draw(gen.partition(m2.astype(bool), kmax=3, kmin=2 if shape2 != shape else 1))
            lab2, _n = merge_single_sample_segments(lab2)
        second = {"amp": a2, "opd": o2, "mask": m2, "labels": lab2}
    os_ = samp["oversample"]
    out_shape = list(draw(gen.shape2(1, 10)))
    prop_shape = None
    if draw(st.booleans()):
        prop_shape = [draw(st.integers(1, out_shape[0])), draw(st.integers(1, out_shape[1]))]
    omask = None
    if draw(st.sampled_from([False, False, True])):
        omask = draw(gen.support_mask((out_shape[0] * os_, out_shape[1] * os_), min_samples=2)).astype(int)
    return {"shape": list(shape), "amp": amp, "opd": opd, "mask": mask, "labels": labels, "kind": kind,
            "merged_single_sample": nfix, "second": second, "dx": draw(cm.scalar_or_pair(samp["dx"])),
            "du": draw(cm.scalar_or_pair(samp["du"])), "z": samp["z"], "wavelength": wl, "oversample": os_,
            "out_shape": out_shape, "prop_shape": prop_shape, "omask": omask,
            "single_as_cube": draw(st.booleans()),
            # optional tilt carried as metadata: on the incoming wavefront, as a Tilt plane before and/or after the
            # aperture (in output pixels; the same for every segment, so both descriptions must still agree)
            # ("steer": a Tilt plane with its own surface - a ramp over the whole frame - that was fit_tilt()-ed, i.e. an
            # element that carries fitted tilt of its own, after the aperture)
            "tilts": draw(st.sampled_from([None, None, None, "wavefront", "before", "after", "wavefront+after",
                                           "before+after", "after+after", "steer", "steer", "after+steer"])),
            "tilt_px": [draw(gen.finite(-2.5, 2.5)), draw(gen.finite(-2.5, 2.5))]}


def _bbox_overlap(labels):
    k = int(labels.max())
    boxes = [gen.bbox(labels == v) for v in range(1, k + 1)]
    for i in range(k):
        for j in range(i + 1, k):
            a, b = boxes[i], boxes[j]
            if not (a[1] < b[0] or b[1] < a[0] or a[3] < b[2] or b[3] < a[2]):
                return True
    return False


def _propagate(case, masks):
    """masks: list of mask arrays (2-D or cube), one per plane"""
    wl = case["wavelength"]
    planes = [(case["amp"], case["opd"])]
    if case["second"] is not None:
        planes.append((case["second"]["amp"], case["second"]["opd"]))
    tilts = case.get("tilts") or ""
    du = cm.ps_pair(case["du"])
    ang = [case.get("tilt_px", [0, 0])[0] * du[1] / case["z"], case.get("tilt_px", [0, 0])[1] * du[0] / case["z"]]
    w = lentil.Wavefront(wl, tilt=ang) if "wavefront" in tilts else lentil.Wavefront(wl)
    if "before" in tilts:
        w = w * lentil.Tilt(x=ang[0], y=-ang[1])
    for (a, o), m in zip(planes, masks):
        pl, _variant = cm.build_obj(lentil.Pupil, "lentil.Pupil", a.shape[0] + a.shape[1] + int(np.count_nonzero(a)),
                                    amplitude=a.copy(), opd=o.copy(), mask=m.copy(),
                                    pixelscale=cm.as_ps(case["dx"]), focal_length=case["z"])
        w = w * pl
        if any(np.ndim(f.data) == 2 and f.data.size == 1 for f in w.data):
            # the overlap of two planes' supports left a one-sample field (infinite constant, known finding)
            raise Skip("single_sample_intermediate_field(known)")
    for _ in range(tilts.count("after")):
        w = w * lentil.Tilt(x=-0.5 * ang[0], y=ang[1])
    if "steer" in tilts:
        shp = w.shape
        yy, xx = np.mgrid[0:shp[0], 0:shp[1]]
        dxp = cm.ps_pair(case["dx"])
        surface = 0.3 * ang[0] * (yy - shp[0] // 2) * dxp[0] - 0.2 * ang[1] * (xx - shp[1] // 2) * dxp[1]
        w = w * lentil.Tilt(x=0.4 * ang[0], y=-0.3 * ang[1], amplitude=np.ones(shp), opd=surface,
                            pixelscale=cm.as_ps(case["dx"])).fit_tilt(inplace=False)
    kw = {}
    if case["prop_shape"] is not None:
        kw["prop_shape"] = tuple(case["prop_shape"])
    if case["omask"] is not None:
        kw["mask"] = case["omask"].copy()
    pre_field, pre_int = w.field, w.intensity
    out = lentil.propagate_dft(w, pixelscale=cm.as_ps(case["du"]), shape=tuple(case["out_shape"]),
                               oversample=case["oversample"], **kw)
    if len(out.data) >= 2 and any(f.data.size == 1 for f in out.data):
        # a tilted image clipped to one sample at the edge of the output (one-element field = constant; known finding)
        raise Skip("single_sample_output_field(known)")
    return pre_field, pre_int, out.field, out.intensity


@hyp("C03", "segmented", lambda tier: seg_case(tier),
     "segmented vs monolithic description of the same optics, before and after propagation, and vs the "
     "reference Fraunhofer sum", examples=(700, 2500), budget_s=(150, 900))
def segmented(case, ctx):
    shape = tuple(case["shape"])
    labels = case["labels"]
    k = int(labels.max())
    wl, os_ = case["wavelength"], case["oversample"]
    if case["merged_single_sample"]:
        ctx.tag("excluded_known:single_sample_segment")
    if _window_samples(case) <= 1:
        raise Skip("single_sample_output_window(known:one-element field)")
    if _single(case):
        raise Skip("single_sample_segment(known)")
    seg_mask = cube(labels) if (k >= 2 or case["single_as_cube"]) else case["mask"]
    mono = [case["mask"]]
    seg = [seg_mask]
    model = pm.phasor(shape, case["amp"], case["opd"], case["mask"], wl)
    sec = case["second"]
    two_seg = False
    if sec is not None:
        mono.append(sec["mask"])
        if sec["labels"] is not None and int(sec["labels"].max()) >= 2:
            seg.append(cube(sec["labels"]))
            two_seg = True
        else:
            seg.append(sec["mask"])
        shape2 = tuple(np.asarray(sec["amp"]).shape)
        if shape2 != shape:
            ctx.tag("second_plane_other_size", "second_plane_other_centre" if (shape2[0] // 2, shape2[1] // 2) != (shape[0] // 2, shape[1] // 2) else None)
        model = pm.recentre(model, shape2) * pm.phasor(shape2, sec["amp"], sec["opd"], sec["mask"], wl)
        if not np.any(model):
            raise Skip("planes_do_not_overlap")
    ctx.tag(f"k:{k}", "kind:" + case["kind"], "bbox_overlap" if k >= 2 and _bbox_overlap(labels) else None,
            "two_segmented_planes" if two_seg else None, "second_plane" if sec is not None else None,
            "prop<shape" if case["prop_shape"] is not None else None, "omask" if case["omask"] is not None else None,
            "cube_k1" if k == 1 and case["single_as_cube"] else None, gen.parity_tags("in", shape))
    tilted = bool(case.get("tilts"))
    ctx.tag("tilt:" + case["tilts"] if tilted else None)
    ctx.nontrivial_if(k >= 2)
    with lentil_call("C03.mono", "monolithic chain"):
        m_pre, m_pre_i, m_f, m_i = _propagate(case, mono)
    with lentil_call("C03.segmented", f"segmented chain (k={k})"):
        s_pre, s_pre_i, s_f, s_i = _propagate(case, seg)
    peak_pre = max(cm.max_abs(m_pre), 1e-300)
    if s_pre.shape != m_pre.shape or cm.max_abs(s_pre - m_pre) > 1e-12 * peak_pre:
        raise Violation("C03.pupil.field", f"pupil-plane field differs between segmented (k={k}, {case['kind']}) "
                                           f"and monolithic description by {cm.max_abs(s_pre - m_pre):.3e}")
    if cm.max_abs(s_pre_i - m_pre_i) > 1e-12 * peak_pre ** 2:
        raise Violation("C03.pupil.intensity", "pupil-plane intensity differs between descriptions")
    # rounding floor of either summation order (an image that is dark everywhere in the window is pure rounding
    # noise of the input: comparing it relative to its own peak is meaningless)
    full_ = (case["out_shape"][0] * os_, case["out_shape"][1] * os_)
    ref, tol, a = pm.fraunhofer(model, cm.ps_pair(case["dx"]), cm.ps_pair(case["du"]), wl, case["z"], os_, full_)
    floor_tol = float(tol) * (1 + k)
    peak = max(cm.max_abs(m_f), 1e-300)
    if s_f.shape != m_f.shape or cm.max_abs(s_f - m_f) > 1e-11 * peak + 2 * floor_tol + 1e-300:
        raise Violation("C03.image.field", f"propagated field differs (k={k}, {case['kind']}): "
                                           f"{cm.max_abs(s_f - m_f):.3e} vs peak {peak:.3e}")
    if cm.max_abs(s_i - m_i) > 1e-11 * peak ** 2 + 4 * floor_tol * (peak + floor_tol) + 1e-300:
        raise Violation("C03.image.intensity", f"propagated intensity differs (k={k}): segments are not added "
                                               f"coherently ({cm.max_abs(s_i - m_i):.3e} vs peak {peak ** 2:.3e})")
    if tilted:
        return          # the absolute position of tilted images is C04's subject; here only the two descriptions
    # reference
    full = (case["out_shape"][0] * os_, case["out_shape"][1] * os_)
    prop = case["out_shape"] if case["prop_shape"] is None else case["prop_shape"]
    sel = pm.centred_window(full, (prop[0] * os_, prop[1] * os_))
    if case["omask"] is not None:
        sel = sel & pm.bbox_window(case["omask"])
    # k segments: k separately rounded transforms are summed
    cm.compare_field("C03.image.ref", s_f, ref, tol * (1 + k), sel, what=f"segmented k={k}")
    ri = (np.abs(ref) ** 2).astype(float) * sel
    if cm.max_abs(s_i - ri) > 4 * tol * (1 + k) * (cm.max_abs(ref) + tol) + 1e-300:
        raise Violation("C03.image.ref_intensity", "segmented intensity differs from |coherent Fraunhofer sum|^2")


# --- planes that were already used, then derived (rescaled, copied, edited) and used again ----------------------

DERIVE_OPS = ["rescale", "rescale", "resample", "copy", "deepcopy", "pickle", "set_opd", "set_amp", "use"]


_has_block = gen.has_block


@st.composite
def used_case(draw, tier="quick"):
    shape = draw(gen.shape2(8, 16 if tier == "quick" else 24))
    samp = draw(gen.sampling(shape))
    wl = samp["wavelength"]
    amp, opd, mask = draw(gen.aperture(shape, wl, min_samples=12))
    if draw(st.booleans()):
        # solid rectangle cut into 2-3 thick off-centre stripes (>= 4 samples wide): survives every rescale factor used
        m, n = shape = (draw(st.integers(12, 20)), draw(st.integers(12, 20)))
        samp = draw(gen.sampling(shape))
        wl = samp["wavelength"]
        r0, c0 = draw(st.integers(0, 3)), draw(st.integers(0, 3))
        r1, c1 = m - draw(st.integers(0, 3)), n - draw(st.integers(0, 3))
        mask = np.zeros(shape, dtype=int)
        mask[r0:r1, c0:c1] = 1
        rng = np.random.default_rng(draw(st.integers(0, 2**31 - 1)))
        amp = mask * (0.5 + 0.5 * rng.uniform(size=shape))
        opd = mask * 0.2 * wl * rng.normal(size=shape)
        k = draw(st.integers(2, 3))
        labels = np.zeros(shape, dtype=int)
        if draw(st.booleans()):
            cuts = np.linspace(r0, r1, k + 1).astype(int)
            for j in range(k):
                labels[cuts[j]:cuts[j + 1], c0:c1] = j + 1
            kind = "thick_stripes_r"
        else:
            cuts = np.linspace(c0, c1, k + 1).astype(int)
            for j in range(k):
                labels[r0:r1, cuts[j]:cuts[j + 1]] = j + 1
            kind = "thick_stripes_c"
    else:
        labels, kind = draw(gen.partition(mask.astype(bool), kmax=4, kmin=2))
        labels, nfix = merge_single_sample_segments(labels)
    ops = [{"op": "use"}]
    for _ in range(draw(st.integers(1, 4))):
        ops.append({"op": draw(st.sampled_from(DERIVE_OPS)), "s": draw(st.sampled_from([2.0, 0.5, 1.5, 3.0, 0.75, 1.0])),
                    "seed": draw(st.integers(0, 2**31 - 1))})
        if draw(st.booleans()):
            ops.append({"op": "use"})
    ops.append({"op": "use"})
    return {"shape": list(shape), "amp": amp, "opd": opd, "mask": mask, "labels": labels, "kind": kind,
            "dx": samp["dx"], "du": samp["du"], "z": samp["z"], "wavelength": wl, "oversample": samp["oversample"],
            "out_shape": list(draw(gen.shape2(2, 10))), "ops": ops}


@hyp("C03", "used_then_derived", lambda tier: used_case(tier),
     "one aperture as a global mask and as a cube of 2-4 segment masks; both planes are USED (multiplied and "
     "propagated) and then rescaled / resampled / copied / pickled / given new OPD or amplitude arrays, and used "
     "again: at every use the two descriptions give the same pupil field and the same propagated field",
     examples=(200, 800), budget_s=(150, 700))
def used_then_derived(case, ctx):
    import copy as _copy
    import pickle as _pickle
    wl, labels = case["wavelength"], case["labels"]
    k = int(labels.max())
    if k < 2:
        raise Skip("one_segment")
    if _single(dict(case, prop_shape=None, omask=None)):
        raise Skip("single_sample_segment(known)")
    kw = dict(pixelscale=float(np.atleast_1d(case["dx"])[0]), focal_length=case["z"])
    with lentil_call("C03.used.build", "Pupil (global mask / segment cube)"):
        pm_ = lentil.Pupil(amplitude=case["amp"].copy(), opd=case["opd"].copy(), mask=case["mask"].copy(), **kw)
        ps_ = lentil.Pupil(amplitude=case["amp"].copy(), opd=case["opd"].copy(), mask=cube(labels), **kw)
    du = float(np.atleast_1d(case["du"])[0])
    done, uses, derived_after_use = [], 0, False
    eps = np.finfo(float).eps
    for i, op in enumerate(case["ops"]):
        o = op["op"]
        if o != "use":
            rng = np.random.default_rng(op["seed"])
            shp = pm_.shape
            with lentil_call("C03.used.derive", f"{o} after [{' '.join(done)}]"):
                if o in ("rescale", "resample"):
                    if max(shp) * op["s"] > 64:
                        continue
                    # every segment must stay resolved on the new grid (a solid block wide enough for at least two
                    # output samples per axis: thin slivers can vanish when shrinking, and a one-sample-wide sliver on
                    # the array border is only reached by out-of-range interpolation coordinates when growing); planes
                    # whose segments vanish are not what this check is about
                    if not all(_has_block(sg, max(2, int(np.ceil(2 / op["s"])) + 1)) for sg in np.asarray(ps_.mask)):
                        continue
                    if o == "rescale":
                        pm_, ps_ = pm_.rescale(op["s"]), ps_.rescale(op["s"])
                    else:
                        pm_, ps_ = pm_.resample(pm_.pixelscale[0] / op["s"]), ps_.resample(ps_.pixelscale[0] / op["s"])
                elif o == "copy":
                    pm_, ps_ = pm_.copy(), ps_.copy()
                elif o == "deepcopy":
                    pm_, ps_ = _copy.deepcopy(pm_), _copy.deepcopy(ps_)
                elif o == "pickle":
                    pm_, ps_ = _pickle.loads(_pickle.dumps(pm_)), _pickle.loads(_pickle.dumps(ps_))
                elif o == "set_opd":
                    new = rng.uniform(-0.3, 0.3, size=shp) * wl
                    pm_.opd, ps_.opd = new.copy(), new.copy()
                elif o == "set_amp":
                    new = rng.uniform(0.2, 1.0, size=shp)
                    pm_.amplitude, ps_.amplitude = new.copy(), new.copy()
            done.append(o + (f"({op['s']})" if o in ("rescale", "resample") else ""))
            derived_after_use = derived_after_use or uses > 0
            continue
        segs = np.asarray(ps_.mask)
        if segs.ndim != 3 or segs.shape[0] != k:
            raise Violation("C03.used.segments", f"the segment cube became {segs.shape} after [{' '.join(done)}]")
        boxes = [gen.bbox(sg != 0) if np.any(sg) else None for sg in segs]
        if any(b is None or (b[1] - b[0] + 1) * (b[3] - b[2] + 1) <= 1 for b in boxes):
            raise Skip("single_sample_segment_after_rescale(known)")
        with lentil_call("C03.used.multiply", f"Wavefront * plane after [{' '.join(done)}]"):
            wm, ws = lentil.Wavefront(wl) * pm_, lentil.Wavefront(wl) * ps_
            fm, fs = wm.field, ws.field
        peak = max(cm.max_abs(fm), 1e-300)
        hist = " ".join(done) or "-"
        if fs.shape != fm.shape or cm.max_abs(fs - fm) > 1e-12 * peak:
            raise Violation("C03.used.pupil", f"use {uses} (after: {hist}): pupil field of the {k}-segment description "
                                              f"differs from the global-mask description by {cm.max_abs(fs - fm):.3e} (peak {peak:.3e})")
        with lentil_call("C03.used.propagate", f"propagate_dft after [{hist}]"):
            om = lentil.propagate_dft(wm, pixelscale=du, shape=tuple(case["out_shape"]), oversample=case["oversample"])
            os2 = lentil.propagate_dft(ws, pixelscale=du, shape=tuple(case["out_shape"]), oversample=case["oversample"])
            gm, gs = om.field, os2.field
        floor = 256 * eps * float(np.sum(np.abs(fm))) * (1 + k)
        ipeak = max(cm.max_abs(gm), 1e-300)
        if gs.shape != gm.shape or cm.max_abs(gs - gm) > 1e-11 * ipeak + floor:
            raise Violation("C03.used.image", f"use {uses} (after: {hist}): propagated field of the {k}-segment description "
                                              f"differs from the global-mask description by {cm.max_abs(gs - gm):.3e} (peak {ipeak:.3e})")
        done.append("use")
        uses += 1
    ctx.tag(f"k:{k}", "kind:" + case["kind"], f"uses:{min(uses, 4)}", *sorted({"op:" + d.split("(")[0] for d in done if d != "use"}))
    ctx.nontrivial_if(derived_after_use and uses >= 2)


# --- transform level: dft2 of a sub-array with an offset -------------------------------

@st.composite
def sub_case(draw, tier="quick"):
    hi = 12 if tier == "quick" else 28
    shape = draw(gen.shape2(2, hi))
    f = draw(gen.complex_array(shape, maxmag=10.0))
    r0 = draw(st.integers(0, shape[0] - 1))
    r1 = draw(st.integers(r0 + 1, shape[0]))
    c0 = draw(st.integers(0, shape[1] - 1))
    c1 = draw(st.integers(c0 + 1, shape[1]))
    out_shape = draw(gen.shape2(1, 10))
    a = (draw(gen.signed_log(1e-3, 0.5)), draw(gen.signed_log(1e-3, 0.5)))
    shift = (draw(gen.finite(-5, 5)), draw(gen.finite(-5, 5))) if draw(st.booleans()) else (0.0, 0.0)
    return {"f": f, "box": [r0, r1, c0, c1], "out_shape": list(out_shape), "alpha": list(a), "shift": list(shift),
            "unitary": draw(st.booleans())}


@hyp("C03", "subarray_dft", lambda tier: sub_case(tier),
     "dft2(cropped sub-array, offset=slice offset) == dft2(whole array zeroed outside the crop)",
     examples=(600, 2500))
def subarray_dft(case, ctx):
    f = case["f"]
    r0, r1, c0, c1 = case["box"]
    m, n = f.shape
    sub = f[r0:r1, c0:c1]
    whole = np.zeros_like(f)
    whole[r0:r1, c0:c1] = sub
    off = (r0 + (r1 - r0) // 2 - m // 2, c0 + (c1 - c0) // 2 - n // 2)
    ctx.tag("offcentre" if any(off) else "centred", gen.parity_tags("sub", sub.shape), gen.parity_tags("in", f.shape),
            "shift" if any(case["shift"]) else None)
    ctx.nontrivial_if(any(off) and np.count_nonzero(sub) >= 2)
    a = tuple(case["alpha"])
    with lentil_call("C03.subdft", "dft2"):
        Fs = fourier.dft2(sub, a, shape=tuple(case["out_shape"]), shift=tuple(case["shift"]), offset=off,
                          unitary=case["unitary"])
        Fw = fourier.dft2(whole, a, shape=tuple(case["out_shape"]), shift=tuple(case["shift"]),
                          unitary=case["unitary"])
    ref, max_phase = rdft.dft2_ref(whole, a, case["out_shape"], case["shift"], (0, 0), case["unitary"])
    tol = rdft.tol_dft(whole, a, max_phase, case["unitary"])
    if cm.max_abs(Fs.astype(rdft.CLD) - ref) > tol:
        raise Violation("C03.subdft.value", f"dft2(sub {sub.shape}, offset={off}) differs from the transform of the "
                                            f"whole array by {cm.max_abs(Fs - Fw):.3e}")
    if cm.max_abs(Fw.astype(rdft.CLD) - ref) > tol:
        raise Violation("C03.subdft.whole", "dft2(whole array) differs from the defining sum")


# --- known finding probe -------------------------------------------------------------------

@known_probe("C03", "single_sample_segment")
def probe_single_sample_segment():
    shape = (4, 4)
    amp = np.ones(shape)
    labels = np.full(shape, 2)
    labels[0, 0] = 1
    w0 = lentil.Wavefront(1e-6) * lentil.Pupil(amplitude=amp, mask=np.ones(shape, dtype=int), pixelscale=1e-3,
                                               focal_length=1.0)
    w1 = lentil.Wavefront(1e-6) * lentil.Pupil(amplitude=amp, mask=cube(labels), pixelscale=1e-3, focal_length=1.0)
    try:
        d = cm.max_abs(w0.field - w1.field)
    except Exception as e:  # noqa: BLE001
        return f"segment with a one-sample bounding box: field raises {type(e).__name__}"
    if d > 1e-12:
        return (f"a segment whose bounding box is one sample is treated as a broadcastable constant and dropped: "
                f"4x4 aperture split into [1 sample | 15 samples] differs from the monolithic field by {d:.2f}")
    return None


# --- segments whose images land on different, partially overlapping windows ---------------------

@hyp("C03", "chips", lambda tier: cm.chips_case(tier),
     "2-5 tilted segments propagated onto small windows (several output fields that overlap partially, bridge "
     "or are disjoint): intensity must be |coherent sum|^2 on every sample", examples=(500, 2000))
def chips(case, ctx):
    with lentil_call("C03.chips", "fit_tilt + propagate_dft"):
        out = cm.build_chips(case)
        field = out.field
        inten = out.intensity
    rects = cm.chip_rects(out)
    n_ov = sum(1 for i in range(len(rects)) for j in range(i + 1, len(rects)) if cm.rects_overlap(rects[i], rects[j]))
    ctx.tag(f"fields:{len(rects)}", "overlapping_fields" if n_ov else "all_disjoint",
            "bridge_in_order" if cm.bridge_in_order(rects) else None,
            "partial_and_disjoint" if 0 < n_ov < len(rects) * (len(rects) - 1) // 2 else None)
    ctx.nontrivial_if(n_ov >= 1)
    # independent coherent sum: place every output field on a canvas by its offset (floor(n/2) origin)
    total = np.zeros(field.shape, dtype=complex)
    for f, (r0, r1, c0, c1) in zip(out.data, rects):
        R0, R1, C0, C1 = max(r0, 0), min(r1, total.shape[0]), max(c0, 0), min(c1, total.shape[1])
        if R1 > R0 and C1 > C0:
            total[R0:R1, C0:C1] += f.data[R0 - r0:R1 - r0, C0 - c0:C1 - c0]
    peak = max(cm.max_abs(total), 1e-300)
    if cm.max_abs(field - total) > 1e-12 * peak:
        raise Violation("C03.chips.field", "Wavefront.field is not the coherent sum of its fields")
    if cm.max_abs(inten - np.abs(total) ** 2) > 1e-11 * peak ** 2:
        raise Violation("C03.chips.intensity",
                        f"intensity differs from |coherent sum|^2 by {cm.max_abs(inten - np.abs(total) ** 2):.3e} "
                        f"(peak {peak ** 2:.3e}) for {len(rects)} fields at {rects}: contributions of different "
                        f"segments were added as intensities")


# --- fitted tilt must not depend on how the aperture is described ---------------------------------------------

@st.composite
def fit_case(draw, tier="quick"):
    k = draw(st.integers(2, 4))
    w_ = draw(st.integers(3, 5))
    m = draw(st.integers(4, 8))
    vertical = draw(st.booleans())
    shape = (m, k * w_) if vertical else (k * w_, m)
    labels = np.zeros(shape, dtype=int)
    for j in range(k):
        if vertical:
            labels[:, j * w_:(j + 1) * w_] = j + 1
        else:
            labels[j * w_:(j + 1) * w_, :] = j + 1
    # per-segment displacement in output samples, all below half a sample (the evaluated window does not move);
    # some segments exactly flat
    disp = [[0.0, 0.0] if draw(st.integers(0, 2)) == 0 else [draw(gen.finite(-0.4, 0.4)), draw(gen.finite(-0.4, 0.4))]
            for _ in range(k)]
    return {"labels": labels, "k": k, "disp": disp, "oversample": draw(st.integers(1, 2)),
            "out_shape": [draw(st.integers(4, 9)), draw(st.integers(4, 9))], "seed": draw(st.integers(0, 2**31 - 1)),
            "inplace": draw(st.booleans())}


@hyp("C03", "fit_segments", lambda tier: fit_case(tier),
     "stripe segments with sub-sample tilts (some segments exactly flat): the image of the segmented plane with "
     "its tilt fitted equals the image without fitting and the image of the monolithic description", examples=(200, 800))
def fit_segments(case, ctx):
    labels, k = case["labels"], case["k"]
    shape = labels.shape
    wl, z, dx, os_ = 1e-6, 2.0, 1e-3, case["oversample"]
    du = (6e-6, 8e-6)
    rng = np.random.default_rng(case["seed"])
    amp = rng.uniform(0.5, 1.5, size=shape)
    r = (np.arange(shape[0]) - shape[0] // 2)[:, None] * dx
    c = (np.arange(shape[1]) - shape[1] // 2)[None, :] * dx
    opd = np.zeros(shape)
    for j in range(k):
        s_r, s_c = case["disp"][j]
        opd = opd + (r * (s_r * du[0] / (z * os_)) + c * (s_c * du[1] / (z * os_))) * (labels == j + 1)
    cube_ = cube(labels)
    nflat = sum(1 for d in case["disp"] if d == [0.0, 0.0])
    ctx.tag(f"k:{k}", f"flat:{nflat}", "flat_before_tilted" if any(case["disp"][i] == [0.0, 0.0] and any(
        d != [0.0, 0.0] for d in case["disp"][i + 1:]) for i in range(k)) else None, "inplace" if case["inplace"] else "copy")
    ctx.nontrivial_if(0 < nflat < k)

    def image(mask, fit):
        p = lentil.Pupil(amplitude=amp.copy(), opd=opd.copy(), mask=mask.copy(), pixelscale=dx, focal_length=z)
        if fit:
            p = p.fit_tilt(inplace=True) if case["inplace"] else p.fit_tilt(inplace=False)
        return lentil.propagate_dft(lentil.Wavefront(wl) * p, pixelscale=du, shape=tuple(case["out_shape"]),
                                    oversample=os_).field
    with lentil_call("C03.fit", "segmented / monolithic, fitted / not fitted"):
        f_seg, f_seg_fit = image(cube_, False), image(cube_, True)
        f_mono = image((labels > 0).astype(int), False)
    peak = max(cm.max_abs(f_mono), 1e-300)
    if cm.max_abs(f_seg - f_mono) > 1e-11 * peak:
        raise Violation("C03.fit.segmented", "segmented and monolithic descriptions differ (no fitting)")
    if f_seg_fit.shape != f_mono.shape or cm.max_abs(f_seg_fit - f_mono) > 1e-9 * peak:
        raise Violation("C03.fit.fitted", f"the image of the segmented plane changes by "
                                          f"{cm.max_abs(f_seg_fit - f_mono) / peak:.3e} of its peak when the segment tilts "
                                          f"(all below half a sample; displacements {case['disp']}) are fitted first")


# --- the FFT propagator, with and without a scratch buffer -----------------------------------------------------

def _fft_seg_case(tier):
    from checks import c09_fft as c9
    return c9.fft_case(tier).filter(lambda s: s["pupil"]["labels"] is not None and int(s["pupil"]["labels"].max()) >= 2
                                    and s["shape_kind"] != "too_large" and min(s["pshape"]) >= 3)


@hyp("C03", "fft_segments", _fft_seg_case,
     "propagate_fft (no scratch / exact / larger / dirty scratch) of the segmented description equals that of the "
     "monolithic description of the same aperture (segments with overlapping bounding boxes included)",
     examples=(120, 500))
def fft_segments(s, ctx):
    from checks import c09_fft as c9
    p = s["pupil"]
    if p["labels"] is None or int(p["labels"].max()) < 2:
        raise Skip("not_segmented")
    if c9.single_sample(p) or s["shape_kind"] == "too_large":
        raise Skip("single_sample_segment(known)" if c9.single_sample(p) else "shape_refused")
    k = int(p["labels"].max())
    ctx.tag(f"k:{k}", "scratch:" + s["scratch"], "bbox_overlap" if _bbox_overlap(p["labels"]) else "bbox_disjoint")
    ctx.nontrivial_if(True)
    grid = tuple(s["grid"])
    mono = dict(p, labels=None)

    def run(pd):
        w, _ = c9.build(s, p=pd)
        kw = {}
        if s["shape"] is not None:
            kw["shape"] = cm.shape_arg(s["shape"])
        sc, _b = c9.make_scratch(s["scratch"], grid, s["extra"], seed=grid[0] * 7 + grid[1])
        if sc is not None:
            kw["scratch"] = sc
        return lentil.propagate_fft(w, pixelscale=cm.as_ps(s["du"]), oversample=s["oversample"], **kw).field
    with lentil_call("C03.fft", f"propagate_fft (scratch {s['scratch']})"):
        f_seg, f_mono = run(p), run(mono)
    peak = max(cm.max_abs(f_mono), 1e-300)
    if f_seg.shape != f_mono.shape or cm.max_abs(f_seg - f_mono) > 1e-11 * peak:
        raise Violation("C03.fft.field", f"propagate_fft of the segmented description (k={k}, scratch {s['scratch']}) differs "
                                         f"from the monolithic one by {cm.max_abs(f_seg - f_mono) / peak:.3e} of the peak")


# --- hundreds of segments ------------------------------------------------------------------------------------------

@hyp("C03", "many_segments", lambda tier: st.fixed_dictionaries(
        {"rows": st.integers(12, 19), "cols": st.integers(13, 21), "seg": st.integers(2, 3), "seed": st.integers(0, 2**31 - 1),
         "oversample": st.integers(1, 2), "out_shape": st.tuples(st.integers(4, 9), st.integers(4, 9)).map(list)}),
     "a raster of 156..399 segments (2x2 or 3x3 samples each, gaps between them) described segment by segment and by "
     "the union mask: same field and intensity after propagate_dft, and the reference Fraunhofer sum",
     examples=(6, 30), budget_s=(150, 600))
def many_segments(case, ctx):
    R, C, g = case["rows"], case["cols"], case["seg"]
    nseg, pitch = R * C, g + 1
    m, n = R * pitch + 1, C * pitch + 1
    labels = np.zeros((m, n), dtype=int)
    k = 0
    for i in range(R):
        for j in range(C):
            k += 1
            labels[1 + i * pitch:1 + i * pitch + g, 1 + j * pitch:1 + j * pitch + g] = k
    rng = np.random.default_rng(case["seed"])
    wl, z, dx, os_ = 1e-6, 3.0, 1e-3, case["oversample"]
    amp = rng.uniform(0.5, 1.0, size=(m, n)) * (labels > 0)
    opd = rng.normal(size=(m, n)) * 0.05 * wl * (labels > 0)
    du = (0.4 / m * wl * z * os_ / dx, 0.5 / n * wl * z * os_ / dx)
    ctx.tag("segments>=256" if nseg >= 256 else "segments<256", f"os:{os_}")
    ctx.nontrivial_if(nseg >= 256)

    def image(mask):
        p = lentil.Pupil(amplitude=amp.copy(), opd=opd.copy(), mask=mask, pixelscale=dx, focal_length=z)
        out = lentil.propagate_dft(lentil.Wavefront(wl) * p, pixelscale=du, shape=tuple(case["out_shape"]), oversample=os_)
        return out.field, out.intensity
    with lentil_call("C03.many", f"{nseg} segments vs union mask"):
        f_seg, i_seg = image(cube(labels))
        f_mono, i_mono = image((labels > 0).astype(int))
    peak = max(cm.max_abs(f_mono), 1e-300)
    if f_seg.shape != f_mono.shape or cm.max_abs(f_seg - f_mono) > 1e-10 * peak:
        raise Violation("C03.many.field", f"{nseg}-segment description differs from the union-mask description by "
                                          f"{cm.max_abs(f_seg - f_mono) / peak:.3e} of the peak")
    if cm.max_abs(i_seg - i_mono) > 1e-10 * peak ** 2:
        raise Violation("C03.many.intensity", f"intensity of the {nseg}-segment description differs from the union-mask one")
    model = pm.phasor((m, n), amp, opd, (labels > 0).astype(int), wl)
    full = (case["out_shape"][0] * os_, case["out_shape"][1] * os_)
    ref, tol, a = pm.fraunhofer(model, (dx, dx), du, wl, z, os_, full)
    cm.compare_field("C03.many.ref", f_seg, ref, tol * (1 + np.sqrt(nseg)), np.ones(full, dtype=bool), what=f"{nseg} segments")
