#!/bin/bash
# tools/soak.sh <tier> <seed...> : run every property at the given seeds, print one line per run (my own use)
tier=$1; shift
for s in "$@"; do
  for p in C01 C02 C03 C04 C05 C06 C07 C08 C09 C10 C11 C12 C13 C14 C15 C16 C17 C18 C19 C20; do
    out=$(VERIF_SEED=$s PYTHONHASHSEED=0 /venv/bin/python check.py $p --tier $tier 2>&1 | grep -v Warn)
    echo "$out" | grep -E "^VIOLATION|oracle=|HARNESS" | cut -c1-400
    echo "$out" | tail -1
  done
done
echo SOAKDONE
