#!/venv/bin/python
"""Confirm a seeded change and run my checks against it (my own use).

tools/seeded.py verify <Cxx> <dir-with-patch.diff-and-demo> [name]
    - copies /repo to a scratch dir, applies patch.diff, runs the unedited test suite (must pass),
      runs the demo with and without the change (must exit 1 / 0), runs the quick check(s)
      against the changed tree, and (if confirmed) stores /verif/seeded/<name>/.
tools/seeded.py run <name> [Cxx ...] [--tier thorough]
    - re-runs the listed checks (default: the property in meta.json) against a stored change.
"""
import glob
import json
import os
import shutil
import subprocess
import sys
import tempfile

HERE = os.path.dirname(os.path.dirname(os.path.abspath(__file__)))
PY = "/venv/bin/python"


def scratch_with(patch):
    tmp = tempfile.mkdtemp(prefix="lentil-seeded-", dir="/tmp")
    for d in ("lentil", "tests", "docs"):
        shutil.copytree(os.path.join("/repo", d), os.path.join(tmp, d), ignore=shutil.ignore_patterns("__pycache__"))
    for f in ("setup.py", "setup.cfg"):
        shutil.copy(os.path.join("/repo", f), tmp)
    r = subprocess.run(["git", "apply", "--whitespace=nowarn", os.path.abspath(patch)], cwd=tmp, capture_output=True, text=True)
    if r.returncode:
        r = subprocess.run(["patch", "-p1", "-i", os.path.abspath(patch)], cwd=tmp, capture_output=True, text=True)
        if r.returncode:
            shutil.rmtree(tmp)
            raise SystemExit(f"patch does not apply: {r.stdout} {r.stderr}")
    return tmp


def run_checks(tmp, props, tier="quick"):
    out = {}
    for p in props:
        env = dict(os.environ, LENTIL_SRC=tmp, VERIF_OUT_DIR=os.path.join(tmp, "_out"))
        r = subprocess.run([PY, os.path.join(HERE, "check.py"), p, "--tier", tier], env=env, capture_output=True, text=True, cwd=HERE)
        lines = [l.strip() for l in r.stdout.splitlines() if l.startswith(("VIOLATION", "  oracle", "HARNESS", "KNOWN"))]
        out[p] = {"exit": r.returncode, "lines": lines[:6]}
        print(f"  check {p} [{tier}]: exit={r.returncode}")
        for l in lines[:6]:
            print("     ", l[:240])
    return out


def verify(prop, src, name):
    patch = os.path.join(src, "patch.diff")
    demos = glob.glob(os.path.join(src, "demo_*.py"))
    assert os.path.exists(patch) and demos, "need patch.diff and demo_*.py"
    demo = demos[0]
    tmp = scratch_with(patch)
    try:
        env = dict(os.environ, PYTHONPATH=tmp)
        t = subprocess.run([PY, "-m", "pytest", "-q", "-p", "no:cacheprovider", "-x", "--timeout=900"], cwd=tmp, env=env, capture_output=True, text=True)
        tail = t.stdout.strip().splitlines()[-1] if t.stdout.strip() else t.stderr[-200:]
        print("  test suite with change:", tail)
        # run the demo from a neutral directory so that sys.path[0] never contains a lentil package
        ddir = os.path.join(tmp, "_demo")
        os.makedirs(ddir)
        dcopy = shutil.copy(demo, ddir)
        d1 = subprocess.run([PY, dcopy], cwd=ddir, env=env, capture_output=True, text=True)
        d0 = subprocess.run([PY, dcopy], cwd=ddir, env=dict(os.environ, PYTHONPATH="/repo"), capture_output=True, text=True)
        print(f"  demo with change: exit={d1.returncode}; without: exit={d0.returncode}")
        ok = t.returncode == 0 and d1.returncode == 1 and d0.returncode == 0
        res = run_checks(tmp, [prop])
        if ok:
            dst = os.path.join(HERE, "seeded", name)
            os.makedirs(dst, exist_ok=True)
            shutil.copy(patch, os.path.join(dst, "patch.diff"))
            shutil.copy(demo, os.path.join(dst, os.path.basename(demo)))
            meta = {"property": prop, "name": name, "needs": "", "description": "",
                    "confirmed": {"test_suite_with_change": tail, "demo_with_change_exit": d1.returncode,
                                  "demo_without_change_exit": d0.returncode,
                                  "demo_output_with_change": (d1.stdout + d1.stderr)[-600:]},
                    "checks": {p: {"quick": r} for p, r in res.items()},
                    "repo_head_when_confirmed": subprocess.run(["git", "-C", "/repo", "rev-parse", "--short", "HEAD"], capture_output=True, text=True).stdout.strip()}
            mp = os.path.join(dst, "meta.json")
            if os.path.exists(mp):
                old = json.load(open(mp))
                meta["needs"], meta["description"] = old.get("needs", ""), old.get("description", "")
            json.dump(meta, open(mp, "w"), indent=1)
            print("  stored", dst)
        else:
            print("  NOT CONFIRMED - not stored")
    finally:
        shutil.rmtree(tmp, ignore_errors=True)


def rerun(name, props, tier):
    dst = os.path.join(HERE, "seeded", name)
    meta = json.load(open(os.path.join(dst, "meta.json")))
    props = props or [meta["property"]]
    tmp = scratch_with(os.path.join(dst, "patch.diff"))
    try:
        res = run_checks(tmp, props, tier)
        for p, r in res.items():
            meta.setdefault("checks", {}).setdefault(p, {})[tier] = r
        json.dump(meta, open(os.path.join(dst, "meta.json"), "w"), indent=1)
    finally:
        shutil.rmtree(tmp, ignore_errors=True)


if __name__ == "__main__":
    if sys.argv[1] == "verify":
        verify(sys.argv[2], sys.argv[3], sys.argv[4] if len(sys.argv) > 4 else sys.argv[2])
    else:
        args = [a for a in sys.argv[3:] if not a.startswith("--")]
        tier = "thorough" if "--tier" in sys.argv and "thorough" in sys.argv else "quick"
        args = [a for a in args if a not in ("thorough", "quick")]
        rerun(sys.argv[2], args, tier)
