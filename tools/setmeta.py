#!/venv/bin/python
import json, sys, os
HERE = os.path.dirname(os.path.dirname(os.path.abspath(__file__)))
name, desc, needs = sys.argv[1], sys.argv[2], sys.argv[3]
p = os.path.join(HERE, "seeded", name, "meta.json")
m = json.load(open(p)); m["description"] = desc; m["needs"] = needs; m["source"] = "independent sub-agent given only the property text and a scratch worktree"
json.dump(m, open(p, "w"), indent=1)
