#!/venv/bin/python
"""Print the as-built sub-check inventory (markdown) from the registry (used for DESIGN.md section 9.1)."""
import importlib, os, sys
HERE = os.path.dirname(os.path.dirname(os.path.abspath(__file__)))
sys.path.insert(0, HERE)
os.environ.setdefault("LENTIL_SRC", "/repo")
from vlib import runner
runner.setup_lentil()
print("| Sub-check | Kind | Cases quick / thorough (per shard) | What is decided |")
print("|---|---|---|---|")
for prop in sorted(runner.PROPERTY_MODULES):
    importlib.import_module(runner.PROPERTY_MODULES[prop])
    for sc in runner.REGISTRY[prop]:
        n = f"{sc.examples[0]} / {sc.examples[1]}" if sc.kind == "hyp" else "complete enumeration"
        print(f"| {prop}.{sc.name} | {sc.kind} | {n} | {sc.rule} |")
