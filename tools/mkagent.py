#!/venv/bin/python
"""Print the prompt for a mutation sub-agent: property text only, plus a worktree path."""
import json, os, sys
HERE = os.path.dirname(os.path.dirname(os.path.abspath(__file__)))
pid, wt = sys.argv[1], sys.argv[2]
extra = sys.argv[3] if len(sys.argv) > 3 else ""
p = next(json.loads(l) for l in open(os.path.join(HERE, "properties.jsonl")) if json.loads(l)["id"] == pid)
print(f"""You are helping to evaluate a test suite for the Python library `lentil` (andykee/lentil, a NumPy physical-optics library). You have your own scratch git worktree of the repository at {wt} (work ONLY inside that directory; do not touch /repo or any other directory; do not look at /verif). Python with the library's dependencies is /venv/bin/python; run the existing tests against YOUR worktree with:
    cd {wt} && PYTHONPATH={wt} /venv/bin/python -m pytest -q -p no:cacheprovider
(check that `PYTHONPATH={wt} /venv/bin/python -c "import lentil; print(lentil.__file__)"` prints a path inside {wt}).

Here is a semantic property that the library is supposed to satisfy:

ID: {pid}
Title: {p['title']}
Statement: {p['statement']}
Quantified over: {p['quantifier']['text']}
Code involved: {', '.join(p['anchors']['files'])}

YOUR TASK: make ONE realistic change to the library source (under {wt}/lentil/) that BREAKS this property, such that
 (a) the code still imports and the ENTIRE existing test suite still passes (146 tests) with your change,
 (b) the breakage is subtle: it must need something specific to manifest - e.g. an unusual input class (a particular parity / aspect ratio / sign / parameter form / unit), a multi-step sequence of calls, repeated calls, or two cooperating code sites that each look fine alone - NOT something every ordinary use would expose at once. Think of a plausible bug a maintainer could introduce in a refactoring or an "optimisation", not sabotage. {extra}
 (c) you write a small standalone demonstration program {wt}/demo_{pid}.py (plain python, no pytest needed, run as `PYTHONPATH={wt} /venv/bin/python {wt}/demo_{pid}.py`) that exits with status 1 (printing what went wrong) when run against your modified code and exits 0 when run against the unmodified code. The demo must test the property as stated above (compare against an independent computation or a relation stated in the property), not just detect your edit.

Procedure: read the relevant code, design the change, apply it, run the full test suite (must be 146 passed), run the demo (must fail). Then write the diff of the library change to {wt}/patch.diff with `git -C {wt} diff -- lentil > {wt}/patch.diff` (the patch must contain only changes under lentil/, not the demo). Then verify the demo passes on the original code: `git -C {wt} apply -R {wt}/patch.diff`, run the demo (must exit 0), then re-apply with `git -C {wt} apply {wt}/patch.diff` and re-run the demo (must exit 1). Do NOT use `git stash`, `git checkout`, `git commit` or any other git command that touches shared repository state: this worktree shares its object store and stash with other worktrees.

Do not commit anything. Do not modify tests. When done, reply with: (1) a one-paragraph description of the change and why it breaks the property, (2) what specific condition is needed for it to manifest, (3) the exact commands you ran and their results (test suite with patch, demo with patch, demo without patch). Leave patch.diff and demo_{pid}.py in {wt}.""")
