#!/venv/bin/python
"""Regenerate MANIFEST.json from the table below (kept in one place so the
manifest is always valid).  Run: /venv/bin/python tools/gen_manifest.py"""
import json
import os

HERE = os.path.dirname(os.path.dirname(os.path.abspath(__file__)))

# property -> (design section, technique, level text, level note)
CLAIMED = {}
NOT_YET = {}


def claim(pid, technique, text, note):
    CLAIMED[pid] = (technique, text, note)


exec(open(os.path.join(HERE, "tools", "claims.py")).read())

props = [json.loads(l) for l in open(os.path.join(HERE, "properties.jsonl"))]
checks = []
na = []
for p in props:
    pid = p["id"]
    if pid in CLAIMED:
        technique, text, note = CLAIMED[pid]
        checks.append({
            "property_id": pid,
            "quick_cmd": f"/venv/bin/python check.py {pid} --tier quick",
            "thorough_cmd": f"/venv/bin/python check.py {pid} --tier thorough",
            "evidence_file": f"/verif/evidence/{pid}.json",
            "replay_cmd_template": "/venv/bin/python check.py --replay {path}",
            "engine": "pbt",
            "level_claimed": {"category": "exploration", "text": text, "design_ref": f"DESIGN.md section 5, {pid}"},
            "level_note": note,
            "technique": technique,
        })
    else:
        na.append({"property_id": pid, "reason": NOT_YET.get(pid, "check not built yet in this round; planned in DESIGN.md section 5")})

manifest = {
    "version": 1,
    "setup_cmd": "/venv/bin/pip install --no-index --find-links /opt/veriftools/wheels hypothesis",
    "hooks": {
        "guard": "LENTIL_VERIF",
        "enable": "no source hooks are needed: every observation point is a public return value, attribute or caller-owned array; checks import lentil from /repo's working tree with a private empty bytecode cache",
        "baseline_off_cmd": "cd /repo && /venv/bin/python -m pytest -ra -q -p no:cacheprovider --timeout=900 --continue-on-collection-errors",
        "source_commits": [],
        "add_only": True,
    },
    "engines": [{
        "name": "pbt", "path": "/verif/check.py", "serves_properties": sorted(CLAIMED),
        "kind_free_text": "Hypothesis-driven generated-input search (given/composite strategies, programs-as-values for histories) and exhaustive small-scope enumeration against independent reference models in vlib/ref; shrunk failures become JSON replay files",
    }],
    "checks": checks,
    "not_applicable": na,
    "notes": "Genuine defects found by these checks are repaired by 'fix:' commits in /repo and listed in KNOWN_FINDINGS.txt (fixed:/known: lines). VERIF_SEED selects the derived Hypothesis seeds; exit 2 = harness error.",
}
with open(os.path.join(HERE, "MANIFEST.json"), "w") as fh:
    json.dump(manifest, fh, indent=1)
print("claimed", sorted(CLAIMED), "not yet", [x["property_id"] for x in na])
