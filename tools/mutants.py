# (name, file, old, new) - each `old` must occur exactly once in the file
MUTANTS = {}
MUTANTS["C01"] = [
    ("norm_abs_row", "lentil/fourier.py", "np.sqrt(np.abs(alpha_row * alpha_col))", "np.abs(alpha_row)"),
    ("col_offset_uses_row", "lentil/fourier.py", "np.outer(S+offsetc, V-shiftc)", "np.outer(S+offsetr, V-shiftc)"),
    ("shift_sign_col", "lentil/fourier.py", "np.outer(S+offsetc, V-shiftc)", "np.outer(S+offsetc, V+shiftc)"),
    ("floor_half", "lentil/fourier.py", "U = np.arange(M) - np.floor(M/2.0)", "U = np.arange(M) - M/2.0"),
    ("cache_poison", "lentil/fourier.py", "np.outer(R+offsetr, U-shiftr)", "np.outer(np.add(R, offsetr, out=R), U-shiftr)"),
    ("idft_no_conj", "lentil/fourier.py", "    np.conj(F, out=F)\n", "    pass\n"),
    ("idft_unitary_divN", "lentil/fourier.py", "    if unitary:\n        # the unitary", "    if False:\n        # the unitary"),
]
