# (name, file, old, new) - each `old` must occur exactly once in the file
MUTANTS = {}
MUTANTS["C01"] = [
    ("norm_abs_row", "lentil/fourier.py", "np.sqrt(np.abs(alpha_row * alpha_col))", "np.abs(alpha_row)"),
    ("col_offset_uses_row", "lentil/fourier.py", "np.outer(S+offsetc, V-shiftc)", "np.outer(S+offsetr, V-shiftc)"),
    ("shift_sign_col", "lentil/fourier.py", "np.outer(S+offsetc, V-shiftc)", "np.outer(S+offsetc, V+shiftc)"),
    ("floor_half", "lentil/fourier.py", "U = np.arange(M) - np.floor(M/2.0)", "U = np.arange(M) - M/2.0"),
    ("cache_poison", "lentil/fourier.py", "np.outer(R+offsetr, U-shiftr)", "np.outer(np.add(R, offsetr, out=R), U-shiftr)"),
    ("idft_no_conj", "lentil/fourier.py", "    np.conj(F, out=F)\n", "    pass\n"),
    ("idft_unitary_divN", "lentil/fourier.py", "    if unitary:\n        # the unitary", "    if False:\n        # the unitary"),
]
MUTANTS["C06"] = [
    ("insert_center", "lentil/field.py", "field_shifted_ul = (out_shape // 2) - (field_shape // 2) + field_offset", "field_shifted_ul = (out_shape // 2) - ((field_shape - 1) // 2) + field_offset"),
    ("insert_noclip_right", "lentil/field.py", "        if out_cmax > out_shape[1]:\n            field_cmax -= out_cmax - out_shape[1]", "        if out_cmax > out_shape[1]:\n            field_cmax -= 0"),
    ("merge_offset", "lentil/field.py", "    return rmin + nrow//2, cmin + ncol//2\n\n\ndef overlap", "    return rmin + (nrow-1)//2, cmin + ncol//2\n\n\ndef overlap"),
    ("disjoint_norestart", "lentil/field.py", "            fields.pop(n)\n            return _disjoint(fields)", "            fields.pop(n)\n            break"),
    ("intersect_strict", "lentil/extent.py", "return armin <= brmax and", "return armin < brmax and"),
    ("intersection_shift", "lentil/extent.py", "    ncol = cmax - cmin + 1\n    return rmin + nrow//2, cmin + ncol//2", "    ncol = cmax - cmin + 1\n    return rmin + nrow//2, cmin + (ncol-1)//2"),
    ("insert_weight_ignored", "lentil/field.py", "out[out_slice] += (field.data[field_slice] * weight)", "out[out_slice] += (field.data[field_slice])"),
    ("mul_scalar_offset", "lentil/field.py", "            b_data = np.broadcast_to(b_data, a_data.shape)\n            b_offset = a_offset", "            b_data = np.broadcast_to(b_data, a_data.shape)"),
]
MUTANTS["C20"] = [
    ("pad_grow_center", "lentil/util.py", "        rmin1 = shape[0]//2 - array.shape[0+offset]//2\n", "        rmin1 = (shape[0] - array.shape[0+offset])//2\n"),
    ("pad_crop_center_col", "lentil/util.py", "        cmin0 = array.shape[1+offset]//2 - shape[1]//2\n", "        cmin0 = (array.shape[1+offset] - shape[1])//2\n"),
    ("pad_cube_axis", "lentil/util.py", "        cmax0 = array.shape[1+offset]\n", "        cmax0 = array.shape[1]\n"),
    ("mesh_half", "lentil/helper.py", "np.arange(nr) - np.floor(nr/2.0) - shift[0]", "np.arange(nr) - nr/2.0 - shift[0]"),
    ("subarray_center", "lentil/util.py", "    rmin = a.shape[0]//2 - shape[0]//2 + shift[0]", "    rmin = (a.shape[0] - shape[0])//2 + shift[0]"),
    ("slice_offset_center", "lentil/helper.py", "        slice_center = slice_shape//2", "        slice_center = (slice_shape-1)//2"),
    ("hex_ring_size", "lentil/segmented.py", "(rings * 2) * seg_gap + pad * 2", "(rings * 2) * seg_gap + pad"),
    ("hex_edge_inclusive", "lentil/shape.py", "slc[rho >= inner_radius] = 0", "slc[rho > inner_radius] = 0"),
    ("rebin_cube_axis", "lentil/util.py", "rebinned_shape = (img.shape[0], img.shape[1]//factor, img.shape[2]//factor)", "rebinned_shape = (img.shape[0], img.shape[2]//factor, img.shape[1]//factor)"),
    ("boundary_thresh", "lentil/util.py", "    x = (x > threshold)\n", "    x = (x >= threshold)\n"),
    ("circle_shift_axis", "lentil/shape.py", "np.square(rr - shift[0]) + np.square(cc - shift[1])", "np.square(rr - shift[1]) + np.square(cc - shift[0])"),
]
MUTANTS["C02"] = [
    ("alpha_col_uses_du0", "lentil/propagate.py", "(dx[1]*du[1])/(wavelength*z*oversample))", "(dx[1]*du[0])/(wavelength*z*oversample))"),
    ("prop_shift_sign", "lentil/propagate.py", "prop_shift = np.array(prop_center) - np.array(intersect_center)", "prop_shift = np.array(intersect_center) - np.array(prop_center)"),
    ("mask_shift_even", "lentil/propagate.py", "rmin_extent + shape_extent[0]//2, cmin_extent + shape_extent[1]//2", "rmin_extent + (shape_extent[0]-1)//2, cmin_extent + shape_extent[1]//2"),
    ("field_offset_dropped", "lentil/propagate.py", "offset=field.offset, unitary=True)", "offset=(0, 0), unitary=True)"),
    ("out_pixelscale_no_os", "lentil/propagate.py", "    out = Wavefront.empty(wavelength=wavefront.wavelength,\n                          pixelscale = du/oversample,", "    out = Wavefront.empty(wavelength=wavefront.wavelength,\n                          pixelscale = du,"),
    ("mask_bbox_col", "lentil/propagate.py", "    return rmax - rmin + 1, cmax - cmin + 1\n\n\ndef _mask_shift", "    return rmax - rmin + 1, cmax - cmin\n\n\ndef _mask_shift"),
    ("array_extent_center", "lentil/extent.py", "    cmin = int(-(shape[1]//2) + shift[1])", "    cmin = int(-((shape[1]-1)//2) + shift[1])"),
    ("phasor_sign", "lentil/plane.py", "amp*np.exp(2*np.pi*1j*opd/wavefront.wavelength)", "amp*np.exp(-2*np.pi*1j*opd/wavefront.wavelength)"),
]
MUTANTS["C03"] = [
    ("intensity_incoherent", "lentil/wavefront.py", "        out = np.zeros(self.shape, dtype=float)\n        for field in lentil.field.reduce(self.data):", "        out = np.zeros(self.shape, dtype=float)\n        for field in self.data:"),
    ("slice_offset_center", "lentil/helper.py", "        slice_center = slice_shape//2", "        slice_center = (slice_shape-1)//2"),
    ("amp_not_masked", "lentil/plane.py", "self.amplitude[s] * mask[s]", "self.amplitude[s]"),
    ("field_offset_dropped", "lentil/propagate.py", "offset=field.offset, unitary=True)", "offset=(0, 0), unitary=True)"),
    ("dft_offset_sign", "lentil/fourier.py", "np.outer(R+offsetr, U-shiftr)", "np.outer(R-offsetr, U-shiftr)"),
    ("mask_index", "lentil/plane.py", "mask = self.mask if self.mask.ndim < 3 else self.mask[n]", "mask = self.mask if self.mask.ndim < 3 else self.mask[0]"),
]
MUTANTS["C04"] = [
    ("drop_subpx", "lentil/propagate.py", "shift=prop_shift + subpx_shift,", "shift=prop_shift,"),
    ("shift_ps_index", "lentil/field.py", "out = x/pixelscale[1] * oversample, y/pixelscale[0] * oversample", "out = x/pixelscale[0] * oversample, y/pixelscale[1] * oversample"),
    ("shift_y_sign", "lentil/field.py", "            out = -out[1], out[0]", "            out = out[1], out[0]"),
    ("fit_removes_piston", "lentil/plane.py", "opd_tilt = np.einsum('ij,i->j', ptt_vector[1:3], t[1:3])", "opd_tilt = np.einsum('ij,i->j', ptt_vector[0:3], t[0:3])"),
    ("tilt_xy_not_swapped", "lentil/plane.py", "        self.x = y  # y tilt is about the x-axis.\n        self.y = x  # x tilt is about the y-axis.", "        self.x = x\n        self.y = y"),
    ("second_fit_lost", "lentil/plane.py", "tilt=self.tilt[n::self.size])", "tilt=[self.tilt[n]] if self.tilt else [])"),
    ("seg_fit_wrong_mask", "lentil/plane.py", "opd_no_tilt[seg] = (plane.opd - seg_tilt.reshape(plane.opd.shape)) * self.mask[seg]", "opd_no_tilt[seg] = (plane.opd - seg_tilt.reshape(plane.opd.shape)) * self.mask[0]"),
    ("dispersive_no_incoming", "lentil/plane.py", "        x += xs\n        y += ys\n", "        y += ys\n"),
    ("trace_first_order", "lentil/plane.py", "            x = dist/np.sqrt(1+self.trace[0]**2)", "            x = dist/np.sqrt(1+self.trace[0])"),
    ("fix_to_round_2", "lentil/propagate.py", "        fix_shift = np.fix(shift)", "        fix_shift = np.fix(shift) + 2"),
    ("wavefront_tilt_ignored", "lentil/wavefront.py", "            tilt = [Tilt(x=tilt[0], y=tilt[1])]", "            tilt = [Tilt(x=tilt[1], y=tilt[0])]"),
]
MUTANTS["C09"] = [
    ("no_ortho", "lentil/propagate.py", "np.fft.fft2(np.fft.ifftshift(x), norm='ortho')", "np.fft.fft2(np.fft.ifftshift(x))"),
    ("fft_shape_floor", "lentil/propagate.py", "fft_shape = np.round(np.reciprocal(alpha)).astype(int)", "fft_shape = np.floor(np.reciprocal(alpha)).astype(int)"),
    ("scratch_not_zeroed", "lentil/propagate.py", "        scratch[0:fft_shape[0], 0:fft_shape[1]] = 0\n", "        pass\n"),
    ("prop_wavelength_max", "lentil/propagate.py", "prop_wavelength = np.min((fft_shape/oversample * dx * du)/z)", "prop_wavelength = np.max((fft_shape/oversample * dx * du)/z) * (1 + 1e-9)"),
    ("no_tilt_guard", "lentil/propagate.py", "    if _has_tilt(wavefront):\n        raise NotImplementedError", "    if False:\n        raise NotImplementedError"),
    ("shift_order_odd", "lentil/propagate.py", "np.fft.fftshift(np.fft.fft2(np.fft.ifftshift(x), norm='ortho'))", "np.fft.ifftshift(np.fft.fft2(np.fft.fftshift(x), norm='ortho'))"),
    ("scratch_strict", "lentil/propagate.py", "np.asarray(scratch.shape) >= fft_shape", "np.asarray(scratch.shape) > fft_shape"),
    ("shape_check_off", "lentil/propagate.py", "        if np.any(shape > fft_shape/oversample):", "        if np.any(shape > fft_shape):"),
    ("scratch_shape_min", "lentil/propagate.py", "fft_shape, _ = _fft_shape(dx, du, z, np.max(wavelength), oversample)", "fft_shape, _ = _fft_shape(dx, du, z, np.min(wavelength), oversample)"),
    ("has_tilt_first_only", "lentil/propagate.py", "    for field in wavefront.data:\n        if field.tilt:\n            return True\n    return False", "    for field in wavefront.data:\n        return bool(field.tilt)\n    return False"),
]
MUTANTS["C05"] = [
    ("norm_abs_row", "lentil/fourier.py", "np.sqrt(np.abs(alpha_row * alpha_col))", "np.abs(alpha_row)"),
    ("fft_backward_norm", "lentil/propagate.py", "np.fft.fft2(np.fft.ifftshift(x), norm='ortho')", "np.fft.fft2(np.fft.ifftshift(x), norm='backward')"),
    ("intensity_real_sq", "lentil/field.py", "out[out_slice] += (np.abs(field.data[field_slice]**2) * weight)", "out[out_slice] += (np.real(field.data[field_slice])**2 * weight)"),
    ("normalize_no_sqrt", "lentil/util.py", "return array * np.sqrt(power/np.sum(np.abs(array)**2))", "return array * (power/np.sum(np.abs(array)**2))"),
    ("normalize_real_only", "lentil/util.py", "return array * np.sqrt(power/np.sum(np.abs(array)**2))", "return array * np.sqrt(power/np.sum(np.real(array)**2))"),
    ("alpha_iso", "lentil/propagate.py", "    return ((dx[0]*du[0])/(wavelength*z*oversample),\n            (dx[1]*du[1])", "    return ((dx[0]*du[0])/(wavelength*z*oversample),\n            (dx[0]*du[0])"),
]
MUTANTS["C07"] = [
    ("phasor_sign", "lentil/plane.py", "amp*np.exp(2*np.pi*1j*opd/wavefront.wavelength)", "amp*np.exp(-2*np.pi*1j*opd/wavefront.wavelength)"),
    ("insert_weight_ignored", "lentil/field.py", "out[out_slice] += (np.abs(field.data[field_slice]**2) * weight)", "out[out_slice] += (np.abs(field.data[field_slice]**2))"),
    ("intensity_no_reduce", "lentil/wavefront.py", "        out = np.zeros(self.shape, dtype=float)\n        for field in lentil.field.reduce(self.data):", "        out = np.zeros(self.shape, dtype=float)\n        for field in self.data:"),
    ("insert_no_reduce", "lentil/wavefront.py", "        for field in lentil.field.reduce(self.data):\n            out = lentil.field.insert(field, out, intensity=True, weight=weight)", "        for field in self.data:\n            out = lentil.field.insert(field, out, intensity=True, weight=weight)"),
    ("focal_length_not_taken", "lentil/plane.py", "        wavefront.focal_length = self.focal_length\n", "        pass\n"),
    ("scalar_amp_bbox_only", "lentil/plane.py", "amp = self.amplitude if mask.size == 1 else self.amplitude * mask[s]", "amp = self.amplitude"),
    ("pixelscale_check_row_only", "lentil/plane.py", "if a_pixelscale[0] == b_pixelscale[0] and a_pixelscale[1] == b_pixelscale[1]:", "if a_pixelscale[0] == b_pixelscale[0]:"),
    ("wavelength_in_place", "lentil/plane.py", "        out = lentil.Wavefront.empty(wavelength=wavefront.wavelength,", "        out = lentil.Wavefront.empty(wavelength=wavefront.wavelength*(1+1e-9),"),
]
MUTANTS["C08"] = [
    ("cell_image_tilt", "lentil/plane.py", "        lentil.tilt: lentil.image,\n", "        lentil.tilt: lentil.pupil,\n"),
    ("cell_none_tilt", "lentil/plane.py", "        lentil.tilt: lentil.none,\n", "        lentil.tilt: lentil.pupil,\n"),
    ("cell_pupil_image_allowed", "lentil/plane.py", "    lentil.pupil: {\n        lentil.pupil: lentil.pupil,\n", "    lentil.pupil: {\n        lentil.pupil: lentil.pupil,\n        lentil.image: lentil.image,\n"),
    ("propagate_keeps_type", "lentil/propagate.py", "        if ptype == lentil.pupil:\n            return lentil.image\n        else:\n            return lentil.pupil", "        return ptype"),
    ("image_not_forced", "lentil/plane.py", "        wavefront = super().multiply(wavefront)\n        wavefront.ptype = lentil.image\n", "        wavefront = super().multiply(wavefront)\n"),
    ("ptype_eq_identity", "lentil/ptype.py", "        if self._key == other._key:", "        if self is other:"),
    ("fft_no_type_check", "lentil/propagate.py", "    ptype_out = _propagate_ptype(wavefront.ptype, method='fraunhofer')\n    pixelscale = np.broadcast_to(pixelscale, (2,))", "    ptype_out = lentil.image if wavefront.ptype != lentil.image else lentil.pupil\n    pixelscale = np.broadcast_to(pixelscale, (2,))"),
    ("refusal_valueerror", "lentil/plane.py", "            raise TypeError(f\"can't multiply Wavefront with ptype \" \\", "            raise ValueError(f\"can't multiply Wavefront with ptype \" \\"),
    ("tilt_mutates_input", "lentil/plane.py", "        wavefront = super().multiply(wavefront)\n        for field in wavefront.data:\n            field.tilt.append(self)\n        return wavefront", "        for field in wavefront.data:\n            field.tilt.append(self)\n        wavefront = super().multiply(wavefront)\n        return wavefront"),
]
MUTANTS["C11"] = [
    ("radial_sign", "lentil/zernike.py", "Rk = ((-1) ** k * factorial(n-k) /", "Rk = ((-1) ** (k+k//3) * factorial(n-k) /"),
    ("norm_n_plus_2", "lentil/zernike.py", "                Z = np.sqrt(n+1) * R(m, n, rho) * mask\n", "                Z = np.sqrt(n+2) * R(m, n, rho) * mask\n"),
    ("sqrt2_missing_sin", "lentil/zernike.py", "Z = np.sqrt(2) * np.sqrt(n+1) * R(m, n, rho) * np.sin(m*theta) * mask", "Z = np.sqrt(n+1) * R(m, n, rho) * np.sin(m*theta) * mask"),
    ("cos_sin_swapped", "lentil/zernike.py", "            Z = R(m, n, rho) * np.cos(m*theta) * mask", "            Z = R(m, n, rho) * np.sin(m*theta) * mask"),
    ("row_m_off", "lentil/zernike.py", "        r = int(j - k - 1)", "        r = int(j - k)"),
    ("center_half", "lentil/zernike.py", "center = np.asarray(mask.shape)//2", "center = np.asarray(mask.shape)/2"),
    ("rho_not_normalised_to_mask", "lentil/zernike.py", "    rho = r/np.max(r*mask)", "    rho = r/np.max(r)"),
    ("index_float_k", "lentil/zernike.py", "    n = int(np.ceil((-1 + np.sqrt(1 + 8*j)) / 2) - 1)", "    n = int(np.ceil((-1 + np.sqrt(np.float32(1 + 8*j))) / 2) - 1)"),
    ("sine_sign_high_order", "lentil/zernike.py", "Z = np.sqrt(2) * np.sqrt(n+1) * R(m, n, rho) * np.sin(m*theta) * mask", "Z = np.sqrt(2) * np.sqrt(n+1) * R(m, n, rho) * np.sin((m if n < 7 else -m)*theta) * mask"),
]
MUTANTS["C12"] = [
    ("compose_index0", "lentil/zernike.py", "opd += coeff * zernike(mask, index[0]+1, normalize, rho, theta)", "opd += coeff * zernike(mask, index[0]+1 if index[0] < 5 else index[0]+2, normalize, rho, theta)"),
    ("fit_sorted_modes", "lentil/zernike.py", "    basis = zernike_basis(mask, modes, True, normalize, rho, theta)\n\n    basis = np.linalg.pinv(basis)", "    basis = zernike_basis(mask, np.sort(modes), True, normalize, rho, theta)\n\n    basis = np.linalg.pinv(basis)"),
    ("remove_compose_1k", "lentil/zernike.py", "    basis = zernike_basis(mask, modes, rho=rho, theta=theta)\n    fit_opd", "    basis = zernike_basis(mask, np.arange(1, np.size(modes)+1), rho=rho, theta=theta)\n    fit_opd"),
    ("remove_default_coords", "lentil/zernike.py", "    coeffs = zernike_fit(opd, mask, modes, rho=rho, theta=theta)", "    coeffs = zernike_fit(opd, mask, modes)"),
    ("fit_ignores_normalize", "lentil/zernike.py", "    basis = zernike_basis(mask, modes, True, normalize, rho, theta)\n\n    basis = np.linalg.pinv(basis)", "    basis = zernike_basis(mask, modes, True, True, rho, theta)\n\n    basis = np.linalg.pinv(basis)"),
    ("basis_custom_theta_dropped", "lentil/zernike.py", "        basis[index] = zernike(mask, mode, normalize, rho, theta)", "        basis[index] = zernike(mask, mode, normalize, rho, theta if rho is None else np.abs(theta))"),
]
MUTANTS["C13"] = [
    ("sampling_max", "lentil/radiometry.py", "                dwave = np.append(dwave, np.diff(w).min())\n\n            return dwave.min()", "                dwave = np.append(dwave, np.diff(w).min())\n\n            return dwave.max()"),
    ("fill_wrong_operand", "lentil/radiometry.py", "    s2_value = np.where(commonwave < s2.wave.min(), fill_below, fill_above).astype(float)", "    s2_value = np.where(commonwave < s1.wave.min(), fill_below, fill_above).astype(float)"),
    ("num_without_plus1", "lentil/radiometry.py", "    commonwave = np.linspace(minwave, maxwave, num + 1)", "    commonwave = np.linspace(minwave, maxwave, max(num, 2))"),
    ("s1_on_s2_wave", "lentil/radiometry.py", "    s1_samplevalue = s1.sample(s1_wave, method=method", "    s1_samplevalue = s1.sample(s1_wave[::-1][::-1] * (1 + 1e-7), method=method"),
    ("sample_mutates", "lentil/radiometry.py", "            spectrum = self.copy()\n            spectrum.to(waveunit)\n\n        # a two-element", "            spectrum = self\n            spectrum.to(waveunit)\n\n        # a two-element"),
    ("interp_unit_default", "lentil/radiometry.py", "    s2_samplevalue = s2.sample(s2_wave, method=method, fill_value=fill_value,\n                               waveunit=s2.waveunit)", "    s2_samplevalue = s2.sample(s2_wave, method=method, fill_value=fill_value)"),
    ("right_sampling_uses_left", "lentil/radiometry.py", "        return _sampling(wave[1], method='min')", "        return _sampling(wave[0], method='min')"),
    ("result_unit_other", "lentil/radiometry.py", "        return Spectrum(wave, value, self.waveunit, self.valueunit)", "        return Spectrum(wave, value, other.waveunit if isinstance(other, Spectrum) else self.waveunit, self.valueunit)"),
    ("method_ignored", "lentil/radiometry.py", "        interp = scipy.interpolate.interp1d(spectrum.wave, spectrum.value, kind=method,", "        interp = scipy.interpolate.interp1d(spectrum.wave, spectrum.value, kind='linear',"),
]
MUTANTS["C14"] = [
    ("micron_to_angstrom", "lentil/radiometry.py", "            return 1e4\n        else:\n            raise ValueError('Unknown waveunit: ' + waveunit)\n\n\nclass Nanometer", "            return 1e5\n        else:\n            raise ValueError('Unknown waveunit: ' + waveunit)\n\n\nclass Nanometer"),
    ("nm_to_um", "lentil/radiometry.py", "        elif waveunit.lower() in ['um', 'micron']:\n            return 1e-3\n", "        elif waveunit.lower() in ['um', 'micron']:\n            return 1e-2\n"),
    ("to_value_direction", "lentil/radiometry.py", "                    self.wave = self.wave * self._waveunit.to(unit)\n                    self.value = self.value / self._waveunit.to(unit)", "                    self.wave = self.wave * self._waveunit.to(unit)\n                    self.value = self.value * self._waveunit.to(unit)"),
    ("flam_power_of_ten", "lentil/radiometry.py", "            return flux * (H*C)/wave * 1e7 * 1e-4", "            return flux * (H*C)/wave * 1e7 * 1e4"),
    ("wlam_to_flam", "lentil/radiometry.py", "        elif fluxunit.lower() == 'flam':\n            return flux * 1e7 * 1e-4\n        elif fluxunit.lower() == 'wlam':\n            return flux\n", "        elif fluxunit.lower() == 'flam':\n            return flux * 1e7 * 1e-3\n        elif fluxunit.lower() == 'wlam':\n            return flux\n"),
    ("exitance_2pi", "lentil/radiometry.py", "    flux = 2*np.pi*H*C**2/(wave**5*(np.exp(H*C/(wave*K*temp))-1))", "    flux = 4*np.pi*H*C**2/(wave**5*(np.exp(H*C/(wave*K*temp))-1))"),
    ("radiance_unit_back", "lentil/radiometry.py", "        # just convert flux back to W m^-2 <waveunit>^-1\n        return flux / Meter().to(waveunit)", "        # just convert flux back to W m^-2 <waveunit>^-1\n        return flux * Meter().to(waveunit)"),
    ("vega_wave_unit", "lentil/radiometry.py", "    wave = wave * Meter().to(waveunit)  # m -> <waveunit>", "    wave = wave * Meter().to('nm')  # m -> <waveunit>"),
    ("spectrum_to_flux_wave", "lentil/radiometry.py", "                    self.value = self._valueunit.to(value, unit, wave) / Meter().to(self.waveunit)", "                    self.value = self._valueunit.to(value, unit, self.wave) / Meter().to(self.waveunit)"),
    ("alias_micron", "lentil/radiometry.py", "        elif name.lower() in ['um', 'micron']:\n            return Micron()", "        elif name.lower() in ['um']:\n            return Micron()\n        elif name.lower() == 'micron':\n            return Nanometer()"),
]
MUTANTS["C15"] = [
    ("crop_strict", "lentil/radiometry.py", "            indx = np.where(min_wave > self.wave)", "            indx = np.where(min_wave >= self.wave)"),
    ("trim_ge", "lentil/radiometry.py", "        index = np.where(normval > tol)", "        index = np.where(normval >= tol)"),
    ("pad_dup_end", "lentil/radiometry.py", "        rightwave = np.linspace(maxwave, ends[1], nright)\n        rightwave = np.delete(rightwave, 0)", "        rightwave = np.linspace(maxwave, ends[1], nright)"),
    ("simpson_weights", "lentil/radiometry.py", "((x[k+1]-x[k-1])/6) * (f[k-1]+4*f[k]+f[k+1])", "((x[k+1]-x[k-1])/4) * (f[k-1]+2*f[k]+f[k+1])"),
    ("integrate_lt_end", "lentil/radiometry.py", "                                 np.where(self.wave <= end))", "                                 np.where(self.wave < end))"),
    ("resample_not_atomic", "lentil/radiometry.py", "        # rejected grid leaves wave and value consistent\n        self.wave = wave\n        self.value = value\n        self.waveunit = waveunit", "        # rejected grid leaves wave and value consistent\n        self.value = value\n        self.wave = wave\n        self.waveunit = waveunit"),
    ("bin_inside_edges", "lentil/radiometry.py", "                x = np.concatenate([[wave[0]], x, [wave[-1]]])", "                x = np.concatenate([[wave[0]-dx[0]], x, [wave[-1]]])"),
    ("preserve_uses_full", "lentil/radiometry.py", "norm_factor = spectrum.integrate(np.min(wave), np.max(wave), method=interp_method)/np.sum(bins)", "norm_factor = spectrum.integrate(method=interp_method)/np.sum(bins)"),
    ("append_value_first", "lentil/radiometry.py", "            self.wave = np.append(self.wave, other.wave)\n            self.value = np.append(self.value, other.value)", "            self.value = np.append(self.value, other.value)\n            self.wave = np.append(self.wave, other.wave)"),
    ("trim_drops_last", "lentil/radiometry.py", "        self.wave = self.wave[index_min:index_max+1]\n        self.value = self.value[index_min:index_max+1]", "        self.wave = self.wave[index_min:index_max+1]\n        self.value = self.value[index_min:index_max+1] if index_max + 1 < len(self.value) else self.value[index_min:]"),
    ("pad_edge_swapped", "lentil/radiometry.py", "            values = np.array([self.value[0], self.value[-1]])", "            values = np.array([self.value[-1], self.value[0]])"),
]
