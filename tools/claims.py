claim("C01",
      "property-based differential test vs extended-precision defining sum; round-trip and Parseval laws; call-history programs",
      "Generated-input search: every generated (shape, alpha, shift, offset, flag, out=) configuration is compared element-wise with an independent longdouble evaluation of the defining double sum under a derived rounding bound; inverse round trip and energy conservation on the full-period domain; sequences of calls reusing shapes; dedicated sub-checks for sizes 63..700 (thresholds around 64/128/256/512) and for long thin arrays (1023..3001 x 1..3 over one full period, kernels up to 9e6 elements, FFT-based reference); argument forms (scalar/pair alpha, shift, offset, shape; real/int/list inputs; C/Fortran/strided/reversed layouts; magnitudes 1e-12..1e6). Bounded sizes, sampled real parameters: exploration, not proof.",
      "Trusts numpy longdouble arithmetic for the reference; bounds: axis length mostly <= 12 (quick) / 40 (thorough) with occasional 63..700 and the long-thin sub-check, |alpha| in [1e-4,1], |offset| <= 50, shifts within 2x output size.")
claim("C06",
      "property-based model comparison (embedding on an infinite zero plane) plus exhaustive small-scope enumeration",
      "Every generated field pair / collection / (field, target) is compared with a coordinate-set and canvas model of the infinite zero-padded plane: products, merges, reduce (total and pairwise disjointness), insert with four-sided clipping and weights, and all extent queries. The thorough tier enumerates complete small scopes (insert: shapes 1..4 x offsets -7..7 x targets 1..5; products and extent queries: shapes up to 3-4, offsets -4..4).",
      "Embedding rule taken from the property (origin sample at floor(n/2)); one-element fields only in products; bounded shapes/offsets; values at 1e-13 relative.")
claim("C20",
      "exhaustive small-scope enumeration (pad/crop, subarray tables) plus property-based index-set oracles and metamorphic symmetry/translation relations",
      "pad/crop and subarray are enumerated completely for all size pairs 1..9 (2-D and cubes) against an index-set reference; boundary, boundary_slice, slice_offset, centroid and rebin are compared with direct definitions on generated masks; drawn shapes are checked for range, binarity, exact integer translation, half-turn and mirror symmetry; hex_segments for count, area, disjointness and border clearance; pad / slice / centroid / subarray / rebin again on sizes 63..700 and on non-contiguous layouts, integer and numpy-scalar argument forms.",
      "Binary-shape symmetry ignores samples within 1e-9 of an edge; border clearance is required from pad>=1 (binary) / pad>=2 (antialiased); sizes bounded (<= 64, large sub-check <= 700).")
claim("C02",
      "property-based differential test: lentil propagation vs extended-precision Fraunhofer sum of an independently modelled input field",
      "Each generated optical configuration (aperture chain, per-axis pixel scales, wavelength, focal length, oversampling, output shape, propagation shape, output mask, optional image->pupil leg) is propagated with lentil and compared sample by sample with the longdouble defining sum of the model field on the evaluated window, exact zero outside it, plus the result's metadata; every case propagates twice (cached coordinates), with unusual physical magnitudes (wavelength 1e-9..1e-3 m, focal length 1e-3..1e3 m, sampling 1e-8..1 m) in one case of six, amplitudes 1e-12..1e6, non-contiguous arrays and numpy-scalar oversampling.",
      "Input field comes from the plane model (pointwise phasors), so Plane.multiply is covered too; chains with a single-sample intermediate field are excluded (one-element fields are infinite constants by C06); bounded sizes.")
claim("C03",
      "property-based differential test (segmented vs monolithic description) plus reference Fraunhofer sum; metamorphic sub-array/offset relation for dft2",
      "Each generated aperture is described once by its union mask and once by a generated partition into 1..5 segment masks (stripes, Voronoi, interleaved and random label maps, overlapping bounding boxes), optionally followed by a second (segmented) plane; field and intensity must agree before and after propagation and with the coherent longdouble Fraunhofer sum. dft2 of a cropped sub-array with its offset must equal dft2 of the zero-padded whole; segments tilted onto separate small windows in every order (bridging output fields); tilt metadata on the wavefront and Tilt planes before/after the aperture must not distinguish the two descriptions.",
      "Single-sample segments / one-sample output windows are excluded by construction (listed known finding, probed on every run); bounded sizes; 1e-11 relative comparisons between two summation orders.")
claim("C04",
      "property-based differential test of four tilt representations vs the exactly tilted longdouble Fraunhofer sum; algebraic laws for fit_tilt and Field.shift; programs of OPD updates / fits / Tilt planes (history)",
      "Generated apertures (monolithic and segmented with one tilt per segment) carry tilt as an OPD ramp, Tilt planes at either end of the chain, Wavefront(tilt=), fit_tilt (copy/in place) or first-order dispersive elements; each output field must equal the shift-theorem reference on the window it covers, the window must sit within one sample of the exact displacement, and intensity must be the coherent sum. fit_tilt is checked against an independent least squares (angles, piston, effective OPD, idempotence), Field.shift over permutations of 1-4 elements with non-square pixels, DispersiveTilt orders 1-3 against an independent arc-length quadrature, and histories of updates and repeated fits against a model plane; every chain is built twice from the same intermediate wavefront (no accumulation in shared tilt lists); one exactly flat segment among tilted ones by construction.",
      "Window placement is only required to be within one sample of the exact displacement; ill-conditioned (collinear) segment fits and single-sample segments are skipped and counted; higher-order dispersion at displacement level only; bounded sizes and angles.")
claim("C09",
      "property-based differential test (propagate_fft vs longdouble unitary DFT at the reported wavelength, and vs propagate_dft when commensurate); scratch-buffer histories",
      "Generated FFT grids of either parity with pupils no larger than the grid, isotropic non-commensurate and per-axis commensurate samplings, oversampling 1-4, output shapes (none / accepted / too large -> ValueError), scratch none / exactly scratch_shape / larger / dirty, one scratch buffer reused over 2-6 propagations at different wavelengths; tilt-carrying wavefronts must raise NotImplementedError; round-number set-ups whose grid size is decided by a rounding tie (N+1/2 within 2 ulp): a dirty buffer of exactly scratch_shape(band) must be accepted and transparent.",
      "Per-axis samplings restricted to those implying one propagation wavelength; 1/alpha kept 0.05 away from a rounding boundary except in the ties sub-check, where either adjacent grid is accepted; grids <= 32 (ties <= 72).")
claim("C05",
      "property-based conservation law (Parseval) and monotonicity over nested windows, differential between DFT and FFT propagators",
      "For generated complex pupil fields and commensurate samplings (integer period per axis, possibly anisotropic, oversampling 1-4) the full-period DFT and FFT images must total the model input power to 1e-10; chains of nested centred windows must capture non-negative, monotone power bounded by the input; normalize_power must deliver the target power for real and complex arrays and the normalised amplitude must image to that total; the FFT leg is repeated with a scratch buffer that was used for a larger period; long thin pupils (1023..2600 x 2..3, kernels of 2^22..9e6 elements) must also image to exactly the input power.",
      "Input power from the independent plane model; bounded sizes (period <= ~50, occasionally 200, long sub-check up to 9e6 kernel elements); relative tolerance 1e-10.")
claim("C07",
      "property-based model comparison (running product of pointwise phasors over every scalar/array attribute form) and view-consistency relations on single- and many-field wavefronts",
      "Chains of 1-3 Plane/Pupil/Image objects whose amplitude, OPD and mask are each scalar or array (2-D or segmented) are compared after every step with the running product amp*mask*exp(2 pi i opd/lambda) of an independent model, together with wavelength, focal length and pixel-scale bookkeeping; intensity must equal |field|^2 and Wavefront.insert must add weight*intensity and nothing else for wavefronts with one field and with 2-5 partially overlapping fields (tilted segments on small windows, optionally through an Image plane); a default Plane must change nothing and inconsistent pixel scales must raise ValueError; histories on ONE plane object (multiplied at repeated wavelengths between attribute assignments, in-place writes, copy/deepcopy, rescale/resample/fit_tilt) must always give the phasor of the attributes the plane reports at that moment.",
      "Shape-less planes with an array OPD only on already shaped wavefronts; single-sample supports/intermediate fields skipped (known finding C03); values at 1e-13 relative.")
claim("C08",
      "exhaustive enumeration of bounded plane/propagation programs against the documentation-derived type table, plus drawn long programs (model-based stateful testing)",
      "The expected transition table is parsed at run time from the project's documentation; every program of length <= 3 (quick) / <= 4 (thorough) over the 13-operation alphabet (five generic plane types, every documented usable plane class, DFT and FFT propagation) from each of the three wavefront types is executed against lentil with the model type tracked alongside; refusals must be TypeError and leave deep snapshots of both operands unchanged; drawn programs up to length 30; every documented class is applied to every wavefront type; planes are used as constructed, after copy(), copy.deepcopy() and a pickle round trip, with the type given as a string or as the lentil.<type> object (complete enumeration of plane x wavefront type x variant).",
      "Rotate/Flip are excluded from the alphabet (listed known finding, probed every run); propagate_fft on tilt-carrying wavefronts is expected to raise NotImplementedError; docs that cannot be parsed are a harness error.")
claim("C11",
      "exhaustive enumeration of the Noll index map and of all mode pairs on exact quadrature nodes; property-based comparison of mode values with exact-rational reference polynomials; generated masks for the default coordinate system",
      "zernike_index is compared for every j up to 20 000 (quick) / 1 000 000 (thorough) with Noll's ordering constructed from its definition; mode values for j <= 820 (radial order <= 39; three cases in four with j <= 231) at drawn polar coordinates with the textbook formula using exact rational radial coefficients; the full Gram matrix of all mode pairs (j <= 66 / 231) over the unit disk by exact Gauss-Legendre x uniform-theta quadrature must be the identity; default coordinates on drawn masks must be centred on the mask centroid for every parity and position with rho = 1 at the farthest sample, zero off the mask and dependent on the support only.",
      "Global sign of the sine family not pinned; theta convention only up to a fixed rotation/reflection; values tolerance is cancellation-aware (64 eps x sum of |terms|), so it loosens with the radial order; masks given as 0/1, bool, labels, weights, negative and mixed-sign values.")
claim("C12",
      "property-based round-trip and projection laws against an independent least squares",
      "For drawn masks (disc, ellipse, ring, two islands, blob; centred or not; even/odd/non-square), 1-8 distinct modes from 1..36 in arbitrary order, both normalisations and default or caller-supplied (shifted/rotated) coordinates: fitting an OPD composed from given coefficients returns them in order; zernike_basis is the stack of the requested modes; zernike_compose places coefficient k at Noll index k+1; zernike_remove equals subtracting the independent least-squares projection (residual fit vanishes, idempotent, pure combinations vanish, off-mask samples untouched, input unmodified); the same support is also given as bool, labels, weights, negative and mixed-sign values (membership = non-zero); the same mask/modes fitted 2-4 times in a row with different coordinate systems.",
      "Mode sets with condition number > 1e6 on the mask are discarded and counted; tolerance cond*512*eps*scale.")
claim("C13",
      "property-based model comparison (uniform union grid + interpolants + fill) with commutativity and unit-change metamorphic relations",
      "Generated pairs of spectra in every range relation, uniform and non-uniform grids, five operators, sampling min/left/right/float, linear/quadratic/cubic interpolation, scalar and two-sided fill values and all four wavelength units (same and mixed) are combined with lentil and compared point by point with a reference built from the property; a+b == b+a and a*b == b*a; repeating the operation with both operands expressed in another unit must give the same physical spectrum; the result is a new object and both operands still describe the same physical spectrum; scalar / vector operands act element-wise on the unchanged grid; histories of operations interleaved with edits of the operands (value/wave assignment, in-place writes into .value, crop, pad, to, resample) must equal the same operation on freshly built spectra holding the operands' current data.",
      "Grid points within 1e-9 of an operand's end are skipped (membership decided by rounding); quadratic/cubic reference is scipy interp1d of the same kind; products of two densities not generated.")
claim("C14",
      "exhaustive enumeration of unit triples (composition / identity / round-trip laws and SI definitions) plus property-based unit-change metamorphic relations for Spectrum.to, Planck and Vega fluxes",
      "All 7^3 ordered triples of wavelength-unit names (with aliases) and all 3^3 flux-unit triples are checked for A->B->C == A->C, A->A == 1, round trips and agreement with the SI definitions; Spectrum.to along drawn unit paths must preserve the integral of densities, the values of unitless spectra, restore on return and agree between the two-argument form and two calls; planck_radiance/exitance in every (wavelength, flux) unit pair must equal the SI evaluation, exitance = pi x radiance, peak at Wien's wavelength and integrate to sigma T^4; vegaflux for all 12 bands x 12 unit pairs against the documented Jansky table; the converted objects are plain Spectrum instances, copies, Blackbody and Blackbody.vegamag instances.",
      "Physical constants taken from the module under test; Wien within one step of a dense log grid; Stefan-Boltzmann to 2e-5 (grid quadrature).")
claim("C15",
      "property-based quadrature laws plus model-based stateful testing of resizing programs (invariant checked after every step)",
      "integrate is checked for linearity, trapezoid additivity at sample points and exactness on piecewise-linear data; bin for length, non-negativity, exact bin integrals of spectra linear across each bin and power preservation, in the spectrum's unit and in a different one, leaving the spectrum untouched; programs of up to 15 crop / trim / pad / append / resample steps with arguments relative to the current state (valid and deliberately invalid, including appends that pass the element-wise test but interleave) are run against a model of the retained samples with the well-formedness invariant asserted after every step; bin is also exercised on spectrum objects that were binned/sampled before with other contents and then updated through value/wave assignment, in-place writes or resample.",
      "Invalid arguments may be refused with any exception or accepted, integrity is what is asserted; bin edges coinciding with the data ends are excluded from the exactness clause (rounding-decided after unit conversion); Simpson exactness only on linear data.")
claim("C16",
      "property-based comparison with explicit per-pixel reference loops (differential), plus linearity / monotonicity / equality-of-representations metamorphic relations",
      "collect_charge is compared with the per-pixel sum of photons x QE for scalar, vector and Spectrum efficiencies given in any wavelength unit (and must leave the Spectrum untouched); collect_charge_bayer with a per-sub-pixel colour lookup pattern[(r//os)%k, (c//os)%k] for pattern sizes 1-4 with drawn content, image sizes that are different multiples of the pattern per axis and oversampling 1-6, with equal efficiencies reproducing the monochrome result and channel images summing to the flattened one; adc with max(floor(polynomial at min(e, sat)), 0) in longdouble for the four gain forms and orders 1-4 on float, negative, integer and large-integer frames, the requested dtype, the saturation warning and the untouched input; monotonicity for increasing non-negative gain curves; detector-sized frames (> 512 oversampled rows/columns, oversampling 2-5) for the Bayer mosaic; numpy-scalar oversampling.",
      "Pixels whose real-valued polynomial lies within 1e-9 of an integer are skipped (floor decided by rounding); frames <= 12x12 (Bayer large sub-check up to ~1300 rows).")
claim("C17",
      "property-based exact bookkeeping relations plus metamorphic optics relation (power and propagated image invariant under resampling) with a calibrated tolerance",
      "Generated smooth Gaussian apertures and OPDs (sigma >= 3 samples) on even/odd, square/non-square arrays, monolithic and 2-4 segment masks, are rescaled by factors 0.5..4 (incl. non-integers) or resampled to drawn pixel scales; pixel scale must be divided by exactly s, arrays have ceil(n*s) samples, masks stay binary with their segments, the original plane is byte-identical, s = 1 is the identity, extent is preserved to one sample, and transmitted power (2 %) and the propagated image at a fixed output sampling (3 % of the peak) are preserved; non-uniform and missing pixel scales are refused; pixel scales from 1e-9 to 1e-1 m and factors within 2 % of 1 are included.",
      "'Interpolation accuracy' decided at 2 % / 3 % (calibrated: worst observed 1.4 % on hard-edged segments at s = 0.5; the defects of interest are >= 50 %); arrays <= 48 samples.")
claim("C18",
      "property-based determinism / seed-sensitivity relations, rejection contracts, and statistical moment oracles with stated false-alarm probability",
      "Every seeded model (Poisson and Gaussian shot noise, read noise, dark current with pattern noise, Rule-07 dark current, power-spectrum surface error) is called twice with the same arguments and seed under different global RNG states (identical frames, global numpy/python random state untouched) and with another seed (different frames); shot noise must be non-negative, integer-valued and match the signal in mean and variance on >= 5e4 samples (7 sigma), and reject negative or > 9.2e18 signals given as scalars or anywhere inside an array for both methods; read noise moments; dark_current(rate, shape, 0) == floor(rate); power_spectrum on masks of any aspect ratio is zero off the mask with exactly the requested RMS; cosmic_rays under drawn global states has the requested shape and is finite and non-negative; a ladder of signals approaching the largest representable count (2^63 - k sigma, and the first floats at/above 2^63) must each be rejected or drawn well-formed, and rejected at/above 2^63; integer-typed frames for read noise.",
      "7-sigma bounds (per-assertion false-alarm probability < 3e-12); variance clause only for signals <= 1e12 (numpy's own Poisson sampler degrades above); Gaussian method only for lambda >= 1e3; 'every random state' sampled over drawn seeds.")
claim("C19",
      "property-based differential test against an independent Fourier-domain convolution with the analytic transfer function, plus metamorphic relations (circular translation, zero extent, unit equivalence)",
      "Generated non-negative images of any aspect ratio and parity (1..24 samples, blobs / point sources / noise / constants) are blurred with pixel, jitter and smear at drawn extents, angles, pixel scales and oversampling factors; the output must have the input shape, be non-negative, commute with circular shifts, be the identity for zero extent, equal Re ifft2(fft2(img) K) with the analytic K within a derived bound on the Nyquist contribution wherever that reference is non-negative, keep the total signal, and not depend on whether the extent is given in physical units or samples; a smeared point source must be elongated along (cos a, sin a) in (column, row); extents below one sample, integer-typed images, sizes up to 300, numpy integer/float scalar parameter types including 8-bit pairs.",
      "Transfer functions and the (row = y, column = x) convention taken from the property text; orientation judged on the thresholded core of the smeared point (12 degree tolerance).")
claim("C10",
      "snapshot-based purity oracle over a registry of public entry points (property-based and enumerated), frozen read-only inputs, and model-based stateful testing of call histories on one shared world",
      "Every entry of a 74-call registry (constructors, multiply incl. tilt-carrying wavefronts, propagate_dft/fft, fit_tilt copies, rescale/resample, dft2/idft2, detector, blur, zernike, wfe, util and Spectrum operations) is run on seeded worlds with byte-level snapshots of all caller-owned arrays, planes, wavefronts and spectra before and after, repeated (same result), and run again with every caller array frozen read-only (a write raises); seeded functions must leave the global numpy/python RNG untouched; programs of 3-20 registry calls on one shared world must leave every shared object byte-identical after each step and a drawn ordered subset of probe calls (repeated dft2 shapes, propagation of tilted / fitted wavefronts, rescale/resample and derived plane attributes such as diameter, spectrum sampling, ...) whose result was taken on the cold world before the history must be unchanged after it; two different update/fit_tilt sequences reaching the same effective OPD must give the same propagated field.",
      "Documented in-place targets (fit_tilt(inplace=True), insert targets, out=/scratch=, Spectrum editing methods) are not in the registry; repeated results compared at 1e-12 relative; equivalent paths skipped when the integer window position is decided by rounding.")


# ---- additions since the texts above were written (seeded rounds f onward); appended to the claim text ----
def extend(pid, more):
    t, text, note = CLAIMED[pid]
    CLAIMED[pid] = (t, text + " Also: " + more, note)


_ALL = ("every lentil call is made in one of three call forms chosen per case (keyword / fully positional / positional prefix, "
        "from the documented parameter order)")
extend("C01", "outputs of 16385..40000 rows and inputs above 2^20 samples whose sizes have no special form (mega_period, huge2d); "
              "slide histories (the same arrays re-evaluated at sliding shifts/offsets, kept results re-read at the end); near-coincident "
              "alpha / shift pairs (equal, ulps apart, 1e-12..1e-3 apart); " + _ALL + ".")
extend("C02", "windows above 2^20 samples (mega), slide histories of one wavefront over moving windows, window/period relations, "
              "typed oversampling, the same plane object used twice; " + _ALL + ".")
extend("C03", "tilted segments (fit_segments), FFT propagation of segmented vs monolithic apertures (fft_segments), hundreds of segments "
              "(many_segments).")
extend("C04", "chains re-used from a kept wavefront, one exactly flat segment, apertures on Tilt-plane carriers, fitted steering-mirror Tilt planes.")
extend("C05", "FFT periods above 2^20 samples (mega_fft), long outputs, balanced zero-sum amplitudes, narrow dtypes for normalize_power.")
extend("C06", "identical footprints, operand snapshots, fields of 63..700 and > 2^20 samples, tiled and cascaded collections of more than 32 fields, the same object twice.")
extend("C07", "wavefronts above 2^20 samples (mega), Tilt-class planes with scalar amplitude/OPD, subclasses with property-backed attributes (subclass_properties).")
extend("C08", "start wavefronts built five ways (constructor string/object, setter, empty) and blocked start wavefronts.")
extend("C09", "kept results re-read after the scratch loop, object duplicates, unusual magnitudes.")
extend("C10", "derived objects (copy/deepcopy/pickle of every world object must behave like the original: derived_objects), neighbouring calls "
              "(a probe call between two unrelated calls: neighbouring_calls), second-order dispersive and big-shift dft2 operations.")
extend("C11", "closed-form Noll indices up to 1e10 (index_large), rho beyond the unit disk, masks above 2^20 samples (mega).")
extend("C12", "mode arrays given as lists/tuples/arrays of narrow integer dtypes with indices up to 200, masks above 2^20 samples with sub-aperture fits (mega).")
extend("C13", "bit-identical grids expressed through unit round trips, near-aligned grids, Spectrum subclasses as operands (subclass_operand), the same object on both sides.")
extend("C14", "Rayleigh-Jeans tail with a cancellation-aware tolerance, edits before conversion.")
extend("C15", "near-uniform and narrow-integer bin centres, bounded pad sizes.")
extend("C16", "frames above 2^20 samples for adc (adc_mega), QE spectra on exactly / more narrowly than the sampled wavelengths, narrow cube dtypes, typed scalar and vector QE.")
extend("C17", "planes with hundreds of segments (many_segments), typed scale factors, the plane used again after rescale (aftermath independence).")
extend("C18", "seed families (2^32, 2^63, 2^64, 2^100, bit 127, typed seeds), frames above 2^20 samples in the moment checks, signals at 1e17..9e18 (shot_noise_huge).")
extend("C19", "images above 2^20 samples (blur_mega), extent categories (zero, below one sample, a few samples, round numbers, 60..250 samples i.e. larger than the image), positional calls.")
extend("C20", "arrays above 2^20 samples (mega), one long axis (long_axis: 65537..140001 x 1..3), container forms for shapes/shifts, typed rebin factors, narrow dtypes in rebin.")

# ---- round j
_FOREIGN = ("objects built in ANOTHER interpreter process (different string-hash salt; vlib/foreign.py) and loaded here from their pickle, "
            "next to constructed / copy / deepcopy / pickle duplicates")
extend("C01", "kernels of 2^24 .. 2^26.8 elements in both orientations (giant; up to the 12 GB address-space cap).")
extend("C02", "pupils as " + _FOREIGN + ".")
extend("C03", "planes that were used, then rescaled / resampled / copied / pickled / given new arrays, then used again (used_then_derived); pupils as " + _FOREIGN + ".")
extend("C05", "kernels of 2^24 .. 2^26.8 elements in both orientations (giant).")
extend("C07", "neutral starting values held in arrays (all-zero / constant OPD, all-one amplitude), whole-array refills in place and updates through the caller's own arrays in plane_history.")
extend("C08", "planes, ptype objects and whole start wavefronts as " + _FOREIGN + ".")
extend("C09", "pupils as " + _FOREIGN + ".")
extend("C12", "histories of fits / removals on related masks (same samples on a frame of another shape, transposed, flipped, eroded / dilated, full frames of both orientations, same support with other values), references computed after the last call (mask_history).")
extend("C13", "operands as " + _FOREIGN + ".")
extend("C14", "whole-number wavelengths held in integer arrays / numpy integer scalars / Python ints of every width for planck_radiance / planck_exitance (planck_integer) and integer-typed Spectrum arrays along unit paths (spectrum_to_integer).")
extend("C16", "efficiency spectra as " + _FOREIGN + ".")
extend("C17", "segment masks that share boundary samples (shared_samples: identity at s = 1, per-segment independence), planes used before they are rescaled.")
extend("C18", "out-of-range and near-limit counts stored as int64 / uint64 arrays, Python ints and nested lists (type maximum, limit + k).")

# ---- round k
extend("C01", "out= sharing memory with the input (the in-place transform, overlapping windows of one buffer) from 1 x 1 to 3001 x 3 (inplace).")
extend("C04", "OPD / amplitude maps given as numpy MaskedArrays with flagged samples (data intact) and ndarray subclasses; the carrier, untilted-steering and flat-segment classes drawn with fixed shares.")
extend("C06", "fields re-positioned (offset reassigned) or re-filled (data of another shape) after construction, in every sub-check.")
extend("C10", "tilt elements whose public coefficients are assigned / edited in place / reverted between evaluations at the same wavelength, against freshly built elements (attribute_paths).")
extend("C15", "integration limits beyond the data and limits of exactly 0 in any numeric type.")
extend("C16", "NaN-flagged pixels in float frames (reference and warning clause on the finite pixels), a saturation capacity of 0; tolerance widened by |slope| x 8 eps x wavelength for steep efficiency spectra.")
extend("C18", "seed 0 drawn by construction.")
extend("C20", "NaN / infinite / negative samples and NaN-outside-the-aperture maps for boundary / boundary_slice / slice_offset.")

# ---- round l
_ALL2 = "float arguments of every wrapped call passed as 0-d arrays in one case in four and re-inspected after the call"
extend("C02", "later planes whose support is the first plane's support displaced along one axis / both axes (related footprints); " + _ALL2 + ".")
extend("C03", "a second plane of another array size (always segmented) in segmented.")
extend("C06", "complete enumeration of the 24 orders x 8 orientations x 3 placements of the bounding-box cascade among 33-41 fields (cascade_enum).")
extend("C08", "Tilt / DispersiveTilt / Grism constructed with every explicit ptype (15 more operations in the variant enumeration, short enumerated and long drawn programs).")
extend("C12", "caller coordinates rescaled beyond / below the unit radius (rho up to 1.3 inside the mask).")
extend("C14", "whole unit paths handed to one to(*units) call vs successive calls.")
extend("C17", "fine scans of the scale factor on one plane, each call compared bit for bit with the same call after an unrelated rescale (scale_scan).")
extend("C18", "one set of parameter objects (float / numpy scalar / 0-d array) per case, re-used by every call and re-inspected.")
extend("C19", "image magnitudes down to 1e-24 (totals below machine epsilon as an absolute number); images as masked arrays / ndarray subclasses.")

# ---- round m
extend("C01", "an input long on one axis onto an output long on the other, both kernels 2^22 .. 2^24.5 elements, 400 spread samples vs the defining sum (both_kernels); arrays in the non-native byte order.")
extend("C02", "both transform kernels large at once (both_kernels); arrays in the non-native byte order.")
extend("C04", "trace / dispersion polynomials written with exactly-zero leading coefficients.")
extend("C06", "collections handed to reduce as one-shot iterables (iter, generator expression, itertools.chain).")
extend("C09", "scratch buffers whose prior content includes NaN / infinite samples.")
extend("C10", "one world in three holds every caller array in the non-native byte order.")
extend("C15", "unsigned / signed integer wavelength grids through append / resample / crop / pad programs (integer_grids).")
extend("C16", "efficiency spectra whose raw wavelength array equals the cube's in another unit.")
extend("C20", "drop lists with entries beyond both ends of the segment numbering.")

# ---- round n
extend("C03", "a tilt element carrying fitted tilt of its own after the segmented aperture.")
extend("C07", "accumulation targets of exactly a displaced aperture block's size (stamp_insert).")
extend("C08", "refused products whose plane also has another pixel scale than the wavefront (still TypeError).")
extend("C11", "300..560-sample apertures symmetric about the array centre except for a few dead pixels (centroid 1e-5..1e-2 samples off centre).")
extend("C17", "planes with rectangular samples (per-axis pixel scale) through rescale.")
extend("C18", "sequence seeds (list / tuple / uint64 array) whose entries differ only above bit 31.")

# ---- round o
extend("C01", "spectra cast to complex64 / clongdouble before idft2.")
extend("C02", "output masks as bool / float weights incl. 1e-200 and weights spread over 300 decades.")
extend("C09", "second legs: image wavefronts returned by propagate_fft (possibly cropped) and propagate_dft propagated again with the FFT, without and with a dirty scratch buffer.")
extend("C10", "spectra edited in place between uses (value / wavelength arrays, through the attribute or the caller's array), own and foreign units (spectrum_paths).")
extend("C13", "numpy vectors on the left of constructed and derived spectra (reflected multiplication).")
extend("C16", "one efficiency Spectrum re-used across frames with in-place edits of its arrays in between (qe_reuse).")

# ---- round p
extend("C01", "outputs one or two samples longer than power-of-two-sized inputs (long).")
extend("C05", "periods one or two samples longer than 2048- / 4096- / 3000-sample pupils (long).")
extend("C11", "radial orders 40..70 (Noll 821..2556) at small radii.")
extend("C12", "60..160 modes in unusual orders: slice k of zernike_basis is mode modes[k] (many_modes).")
extend("C17", "each factor of the scan also right after a sibling plane (one row / column fewer) was rescaled by the same factor.")
extend("C18", "1100-word array seeds differing in one middle word.")
extend("C19", "the 8-bit class drawn with a fixed share, incl. products just beyond 256.")
