claim("C01",
      "property-based differential test vs extended-precision defining sum; round-trip and Parseval laws; call-history programs",
      "Generated-input search: every generated (shape, alpha, shift, offset, flag, out=) configuration is compared element-wise with an independent longdouble evaluation of the defining double sum under a derived rounding bound; inverse round trip and energy conservation on the full-period domain; sequences of calls reusing shapes. Bounded sizes, sampled real parameters: exploration, not proof.",
      "Trusts numpy longdouble arithmetic for the reference; bounds: axis length <= 12 (quick) / 40 (thorough), |alpha| in [1e-4,1], |offset| <= 50, shifts within 2x output size.")
