claim("C01",
      "property-based differential test vs extended-precision defining sum; round-trip and Parseval laws; call-history programs",
      "Generated-input search: every generated (shape, alpha, shift, offset, flag, out=) configuration is compared element-wise with an independent longdouble evaluation of the defining double sum under a derived rounding bound; inverse round trip and energy conservation on the full-period domain; sequences of calls reusing shapes. Bounded sizes, sampled real parameters: exploration, not proof.",
      "Trusts numpy longdouble arithmetic for the reference; bounds: axis length <= 12 (quick) / 40 (thorough), |alpha| in [1e-4,1], |offset| <= 50, shifts within 2x output size.")
claim("C06",
      "property-based model comparison (embedding on an infinite zero plane) plus exhaustive small-scope enumeration",
      "Every generated field pair / collection / (field, target) is compared with a coordinate-set and canvas model of the infinite zero-padded plane: products, merges, reduce (total and pairwise disjointness), insert with four-sided clipping and weights, and all extent queries. The thorough tier enumerates complete small scopes (insert: shapes 1..4 x offsets -7..7 x targets 1..5; products and extent queries: shapes up to 3-4, offsets -4..4).",
      "Embedding rule taken from the property (origin sample at floor(n/2)); one-element fields only in products; bounded shapes/offsets; values at 1e-13 relative.")
claim("C20",
      "exhaustive small-scope enumeration (pad/crop, subarray tables) plus property-based index-set oracles and metamorphic symmetry/translation relations",
      "pad/crop and subarray are enumerated completely for all size pairs 1..9 (2-D and cubes) against an index-set reference; boundary, boundary_slice, slice_offset, centroid and rebin are compared with direct definitions on generated masks; drawn shapes are checked for range, binarity, exact integer translation, half-turn and mirror symmetry; hex_segments for count, area, disjointness and border clearance.",
      "Binary-shape symmetry ignores samples within 1e-9 of an edge; border clearance is required from pad>=1 (binary) / pad>=2 (antialiased); sizes bounded (<= 64).")
claim("C02",
      "property-based differential test: lentil propagation vs extended-precision Fraunhofer sum of an independently modelled input field",
      "Each generated optical configuration (aperture chain, per-axis pixel scales, wavelength, focal length, oversampling, output shape, propagation shape, output mask, optional image->pupil leg) is propagated with lentil and compared sample by sample with the longdouble defining sum of the model field on the evaluated window, exact zero outside it, plus the result's metadata.",
      "Input field comes from the plane model (pointwise phasors), so Plane.multiply is covered too; chains with a single-sample intermediate field are excluded (one-element fields are infinite constants by C06); bounded sizes.")
claim("C03",
      "property-based differential test (segmented vs monolithic description) plus reference Fraunhofer sum; metamorphic sub-array/offset relation for dft2",
      "Each generated aperture is described once by its union mask and once by a generated partition into 1..5 segment masks (stripes, Voronoi, interleaved and random label maps, overlapping bounding boxes), optionally followed by a second (segmented) plane; field and intensity must agree before and after propagation and with the coherent longdouble Fraunhofer sum. dft2 of a cropped sub-array with its offset must equal dft2 of the zero-padded whole.",
      "Single-sample segments / one-sample output windows are excluded by construction (listed known finding, probed on every run); bounded sizes; 1e-11 relative comparisons between two summation orders.")
