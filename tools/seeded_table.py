#!/venv/bin/python
"""Print a markdown table of the stored seeded changes from seeded/*/meta.json (+ MATRIX.json if present)."""
import json, os
HERE = os.path.dirname(os.path.dirname(os.path.abspath(__file__)))
mat = {}
mp = os.path.join(HERE, "seeded", "MATRIX.json")
if os.path.exists(mp):
    mat = json.load(open(mp))
print("| Change | What it does | What it needs | Reported by (quick tier) |")
print("|---|---|---|---|")
for n in sorted(os.listdir(os.path.join(HERE, "seeded"))):
    d = os.path.join(HERE, "seeded", n)
    if not os.path.isdir(d) or n.startswith("_"):
        continue
    m = json.load(open(os.path.join(d, "meta.json")))
    # own property: the latest tools/seeded.py run (stored in meta.json); other properties: the last full matrix run
    by = [f"{p}: {', '.join(l.split('oracle=')[1].split()[0].split('.', 1)[-1] for l in r.get('quick', {}).get('lines', []) if 'oracle=' in l)[:80]}"
          for p, r in m.get("checks", {}).items() if r.get("quick", {}).get("exit") == 1]
    own = set(m.get("checks", {}))
    if n in mat:
        by += [f"{p}: {', '.join(o.split('.', 1)[1] if '.' in o else o for o in v['oracles'][:2])}" for p, v in mat[n].items()
               if v["exit"] == 1 and p not in own]
    print(f"| {n} | {m['description']} | {m['needs']} | {'; '.join(by) or 'NOT REPORTED'} |")
