#!/venv/bin/python
"""Run every quick check against every stored seeded change (my own use; writes seeded/MATRIX.md).
tools/matrix.py [nproc]"""
import json, os, subprocess, sys, shutil
from concurrent.futures import ThreadPoolExecutor
HERE = os.path.dirname(os.path.dirname(os.path.abspath(__file__)))
sys.path.insert(0, os.path.join(HERE, "tools"))
import importlib.util
spec = importlib.util.spec_from_file_location("seeded", os.path.join(HERE, "tools", "seeded.py"))
seeded = importlib.util.module_from_spec(spec); spec.loader.exec_module(seeded)
PROPS = [f"C{i:02d}" for i in range(1, 21)]


def one(name):
    dst = os.path.join(HERE, "seeded", name)
    tmp = seeded.scratch_with(os.path.join(dst, "patch.diff"))
    row = {}
    try:
        for p in PROPS:
            env = dict(os.environ, LENTIL_SRC=tmp, VERIF_OUT_DIR=os.path.join(tmp, "_out"), PYTHONHASHSEED="0")
            r = subprocess.run(["/venv/bin/python", os.path.join(HERE, "check.py"), p, "--tier", "quick"], env=env,
                               capture_output=True, text=True, cwd=HERE)
            oracles = sorted({l.split("oracle=")[1].split()[0] for l in r.stdout.splitlines() if "oracle=" in l})
            row[p] = {"exit": r.returncode, "oracles": oracles[:4]}
    finally:
        shutil.rmtree(tmp, ignore_errors=True)
    return name, row


def main():
    names = sorted(d for d in os.listdir(os.path.join(HERE, "seeded")) if os.path.isdir(os.path.join(HERE, "seeded", d)))
    nproc = int(sys.argv[1]) if len(sys.argv) > 1 else 8
    with ThreadPoolExecutor(nproc) as ex:
        res = dict(ex.map(one, names))
    json.dump(res, open(os.path.join(HERE, "seeded", "MATRIX.json"), "w"), indent=1)
    with open(os.path.join(HERE, "seeded", "MATRIX.md"), "w") as fh:
        fh.write("# Quick checks (columns) against stored seeded changes (rows): X = exit 1 (violation reported), . = exit 0, E = harness error\n\n")
        fh.write("| change | " + " | ".join(p[1:] for p in PROPS) + " |\n|---|" + "---|" * len(PROPS) + "\n")
        for n in names:
            fh.write(f"| {n} | " + " | ".join({0: ".", 1: "X"}.get(res[n][p]["exit"], "E") for p in PROPS) + " |\n")
    print(open(os.path.join(HERE, "seeded", "MATRIX.md")).read())


if __name__ == "__main__":
    main()
