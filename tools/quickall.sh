#!/bin/bash
# tools/quickall.sh <tier> "<seeds>" [props...] : all (or the named) checks at the given seeds in parallel, output
# redirected to scratch directories (evidence in /verif is not touched); prints one line per run plus any violation
tier=$1; seeds=$2; shift 2
props=${@:-C01 C02 C03 C04 C05 C06 C07 C08 C09 C10 C11 C12 C13 C14 C15 C16 C17 C18 C19 C20}
par=14; [ "$tier" = thorough ] && par=1
for s in $seeds; do for p in $props; do echo "$s $p"; done; done | xargs -P $par -L 1 bash -c '
  d=$(mktemp -d /tmp/qa-XXXXXX)
  out=$(VERIF_OUT_DIR=$d VERIF_SEED=$0 PYTHONHASHSEED=0 /venv/bin/python /verif/check.py $1 --tier '$tier' 2>&1 | grep -v Warn)
  echo "$out" | grep -E "^VIOLATION|oracle=|HARNESS|Traceback|Error" | cut -c1-300
  echo "$out" | tail -1
  if echo "$out" | grep -q "^VIOLATION"; then mkdir -p /tmp/qa-found; cp -r $d/replays /tmp/qa-found/$1-$0 2>/dev/null; fi
  rm -rf $d'
