#!/bin/bash
# tools/regress.sh [names...] : re-run the own-property quick check against every stored seeded change (scratch copies,
# in parallel); prints the changes that are NOT reported (my own use, run after every generator/oracle change)
cd /verif
names=${@:-$(ls seeded | grep -E '^C[0-9]+-')}
echo $names | tr ' ' '\n' | xargs -P 12 -I{} bash -c '/venv/bin/python tools/seeded.py run {} 2>&1 | grep -E "check C" | sed "s/^/{} /"' | sort > /tmp/regress.out
grep -c "exit=1" /tmp/regress.out
grep -v "exit=1" /tmp/regress.out
echo REGRESS-DONE
