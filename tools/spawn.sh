#!/bin/bash
# tools/spawn.sh Cxx [suffix] [extra text] : create a scratch worktree and a prompt file for a mutation sub-agent
id=$1; suf=${2:-a}; extra=${3:-}
wt=/tmp/wt-$id-$suf
git -C /repo worktree add -q --detach $wt HEAD || exit 1
/venv/bin/python /verif/tools/mkagent.py $id $wt "$extra" > /tmp/prompt-$id-$suf.txt
echo "Read the file /tmp/prompt-$id-$suf.txt and follow the instructions in it exactly."
