#!/venv/bin/python
"""Mutation-sensitivity harness (my own use; not a registered check).

tools/selfmut.py C01 [name ...]   applies each mutant listed for the property in
tools/mutants.py to a scratch copy of /repo under /tmp, runs the quick check
against it with LENTIL_SRC and reports whether the check failed (exit 1).
The scratch copy is removed afterwards."""
import os
import shutil
import subprocess
import sys
import tempfile

HERE = os.path.dirname(os.path.dirname(os.path.abspath(__file__)))
exec(open(os.path.join(HERE, "tools", "mutants.py")).read())


def main():
    prop = sys.argv[1]
    names = set(sys.argv[2:])
    tier = os.environ.get("MUT_TIER", "quick")
    results = []
    for name, path, old, new in MUTANTS.get(prop, []):
        if names and name not in names:
            continue
        tmp = tempfile.mkdtemp(prefix="lentil-mut-", dir="/tmp")
        try:
            shutil.copytree("/repo/lentil", os.path.join(tmp, "lentil"),
                            ignore=shutil.ignore_patterns("__pycache__"))
            shutil.copytree("/repo/docs/user", os.path.join(tmp, "docs", "user"))
            fp = os.path.join(tmp, path)
            src = open(fp).read()
            if src.count(old) != 1:
                results.append((name, f"PATTERN-COUNT={src.count(old)}"))
                continue
            open(fp, "w").write(src.replace(old, new))
            env = dict(os.environ, LENTIL_SRC=tmp, VERIF_OUT_DIR=tmp)
            r = subprocess.run(["/venv/bin/python", os.path.join(HERE, "check.py"), prop, "--tier", tier],
                               env=env, capture_output=True, text=True, cwd=HERE)
            lines = [l for l in r.stdout.splitlines() if l.startswith(("VIOLATION", "  oracle", "HARNESS"))]
            results.append((name, f"exit={r.returncode} " + " | ".join(lines[:4])[:300]))
        finally:
            shutil.rmtree(tmp, ignore_errors=True)
    for name, res in results:
        print(f"{prop} {name}: {res}")


if __name__ == "__main__":
    main()
