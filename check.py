#!/venv/bin/python
"""Entry point:  check.py <Cxx> --tier quick|thorough   |   check.py --replay <file>

exit 0: property held on everything explored (KNOWN-FINDING lines possible)
exit 1: at least one line "VIOLATION property=<id> replay=<path>"
exit 2: harness error (never a VIOLATION)
"""
import argparse
import os
import sys

for _v in ("OMP_NUM_THREADS", "OPENBLAS_NUM_THREADS", "MKL_NUM_THREADS", "NUMEXPR_NUM_THREADS"):
    os.environ[_v] = "1"

HERE = os.path.dirname(os.path.abspath(__file__))
sys.path.insert(0, HERE)


def main():
    ap = argparse.ArgumentParser()
    ap.add_argument("prop", nargs="?")
    ap.add_argument("--tier", default=os.environ.get("VERIF_TIER", "quick"), choices=["quick", "thorough"])
    ap.add_argument("--replay")
    ap.add_argument("--only", action="append")
    ap.add_argument("--shards", type=int)
    args = ap.parse_args()
    os.chdir(HERE)
    from vlib import runner

    if args.replay:
        status, text, prop, rec = runner.replay_file(args.replay)
        if status == "violation":
            print(f"VIOLATION property={prop} replay={os.path.relpath(args.replay, HERE)}")
            print("  " + text)
            return 1
        print(f"replay {args.replay}: {status} {text}")
        return 0
    if not args.prop:
        ap.error("property id required")
    try:
        seed = int(os.environ.get("VERIF_SEED", "1"))
    except ValueError:
        seed = 1
    try:
        return runner.run_property(args.prop, args.tier, seed, only=args.only, shards=args.shards)
    except Exception:  # noqa: BLE001
        import traceback
        traceback.print_exc()
        print("HARNESS-ERROR unhandled exception in runner")
        return 2


if __name__ == "__main__":
    sys.exit(main())
