"""Parse the documented plane-type rules at run time (no lentil import).

* docs/user/fundamentals/wavefront.rst, section "Multiplication rules": grid table
  plane ptype (rows) x wavefront ptype (columns) -> resulting ptype or "Not allowed"
* docs/user/fundamentals/planes.rst: simple table ptype -> plane classes
Unparseable documentation raises DocError (a harness error, never a pass)."""
import os
import re


class DocError(Exception):
    pass


PTYPES = ("none", "pupil", "image", "tilt", "transform")
WTYPES = ("none", "pupil", "image")


def mul_table(repo):
    path = os.path.join(repo, "docs", "user", "fundamentals", "wavefront.rst")
    text = open(path).read()
    i = text.find("Multiplication rules")
    if i < 0:
        raise DocError("section 'Multiplication rules' not found in wavefront.rst")
    sec = text[i:]
    j = sec.find("\nField\n")
    sec = sec[: j if j > 0 else len(sec)]
    rows = [l for l in sec.splitlines() if l.startswith("|")]
    header = None
    table = {}
    for l in rows:
        cells = [c.strip() for c in l.strip().strip("|").split("|")]
        names = [re.sub(r"[`\s]", "", c) for c in cells]
        if header is None:
            if len(names) == 4 and names[1:] == list(WTYPES):
                header = names[1:]
            continue
        if len(names) == 4 and names[0] in PTYPES:
            table[names[0]] = {}
            for w, c in zip(header, cells[1:]):
                c2 = re.sub(r"[`\s]", "", c)
                if c2.lower() == "notallowed":
                    table[names[0]][w] = None
                elif c2 in WTYPES:
                    table[names[0]][w] = c2
                else:
                    raise DocError(f"unparseable cell {c!r} in multiplication table")
    if header is None or set(table) != set(PTYPES):
        raise DocError(f"multiplication table incomplete: header={header} rows={sorted(table)}")
    return table   # table[plane_ptype][wavefront_ptype] -> result or None


def class_table(repo):
    path = os.path.join(repo, "docs", "user", "fundamentals", "planes.rst")
    text = open(path).read()
    out = {}
    for l in text.splitlines():
        m = re.match(r"^:class:`(\w+)`\s+(.*)$", l.strip())
        if m and m.group(1) in PTYPES:
            classes = re.findall(r":class:`~?lentil\.(\w+)`", m.group(2))
            if not classes:
                raise DocError(f"no classes listed for ptype {m.group(1)}")
            out[m.group(1)] = classes
    if set(out) != set(PTYPES):
        raise DocError(f"ptype/class table incomplete: {sorted(out)}")
    return out     # ptype -> [class names]


def propagation_rule(repo):
    """diffraction.rst must state that propagation goes between pupil and image planes; the rule itself
    (allowed only from pupil/image, swapping them) is taken from the property text."""
    path = os.path.join(repo, "docs", "user", "fundamentals", "diffraction.rst")
    text = open(path).read().lower()
    if "pupil" not in text or "image" not in text:
        raise DocError("diffraction.rst does not mention pupil/image planes")
    return {"pupil": "image", "image": "pupil", "none": None}
