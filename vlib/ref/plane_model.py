"""Reference model of planes and wavefronts: everything is a full-size complex
array on the plane's grid (origin sample at floor(n/2)); a plane acts as the
pointwise phasor  amplitude * mask * exp(+2 pi i opd / wavelength).
Written from properties C02/C03/C07; does not import lentil."""
import numpy as np

from . import dft as rdft


def binary(mask):
    mask = np.asarray(mask)
    return (mask != 0).astype(float)


def global_mask(mask):
    """2-D mask, or the union of the segments of a 3-D mask cube."""
    mask = np.asarray(mask)
    if mask.ndim == 3:
        return (np.sum(mask != 0, axis=0) > 0).astype(float)
    return binary(mask)


def phasor(shape, amp, opd, mask, wavelength):
    amp = np.broadcast_to(np.asarray(amp, dtype=float), shape)
    opd = np.broadcast_to(np.asarray(opd, dtype=float), shape)
    if mask is None:
        m = (amp != 0).astype(float)
    else:
        m = global_mask(mask)
        if m.ndim == 0 or m.shape != tuple(shape):
            m = np.broadcast_to(m, shape)
    return amp * m * np.exp(2j * np.pi * opd / wavelength)


def alpha(dx, du, wavelength, z, oversample):
    dx = np.broadcast_to(np.asarray(dx, dtype=float), (2,))
    du = np.broadcast_to(np.asarray(du, dtype=float), (2,))
    return (float(dx[0] * du[0] / (wavelength * z * oversample)),
            float(dx[1] * du[1] / (wavelength * z * oversample)))


def fraunhofer(field, dx, du, wavelength, z, oversample, out_shape, shift=(0.0, 0.0)):
    """Unitary Fraunhofer sum on the full oversampled output grid.
    Returns (F [clongdouble], tolerance for a float64 evaluation)."""
    a = alpha(dx, du, wavelength, z, oversample)
    F, max_phase = rdft.dft2_ref(field, a, out_shape, shift=shift, unitary=True)
    return F, rdft.tol_dft(field, a, max_phase, True), a


def centred_window(full_shape, win_shape, centre=(0, 0)):
    """Boolean array over ``full_shape`` marking the window of ``win_shape`` whose origin sample
    (index floor(w/2)) sits at the full array's origin sample + centre."""
    sel = np.zeros(full_shape, dtype=bool)
    r0 = full_shape[0] // 2 + int(centre[0]) - win_shape[0] // 2
    c0 = full_shape[1] // 2 + int(centre[1]) - win_shape[1] // 2
    r1, c1 = r0 + win_shape[0], c0 + win_shape[1]
    sel[max(r0, 0):max(r1, 0), max(c0, 0):max(c1, 0)] = True
    return sel


def bbox_window(mask):
    sel = np.zeros(mask.shape, dtype=bool)
    rows = np.flatnonzero((mask > 0).any(axis=1))
    cols = np.flatnonzero((mask > 0).any(axis=0))
    sel[rows[0]:rows[-1] + 1, cols[0]:cols[-1] + 1] = True
    return sel


def recentre(arr, shape):
    """``arr`` on a frame of another ``shape`` with the origin samples (index floor(n/2)) aligned: zero-padded where the
    new frame is larger, cropped where it is smaller (how planes of different array sizes line up in one chain)."""
    arr = np.asarray(arr)
    out = np.zeros(tuple(shape), dtype=arr.dtype)
    sl_src, sl_dst = [], []
    for n_src, n_dst in zip(arr.shape, shape):
        shift = n_dst // 2 - n_src // 2              # dst index = src index + shift
        lo = max(0, -shift)
        hi = min(n_src, n_dst - shift)
        sl_src.append(slice(lo, hi))
        sl_dst.append(slice(lo + shift, hi + shift))
    if all(s.stop > s.start for s in sl_src):
        out[tuple(sl_dst)] = arr[tuple(sl_src)]
    return out
