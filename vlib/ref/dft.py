"""Defining double sum of the two-dimensional DFT in extended precision.

Written from the formula in property C01; does not import lentil.

    F[u, v] = sum_{x, y} f[x, y] * exp(-2 pi i (a_r * X[x] * U[u] + a_c * Y[y] * V[v]))

with  X = arange(m) - floor(m/2) + offset_r,   U = arange(M) - floor(M/2) - shift_r
(and likewise for columns), times sqrt(|a_r * a_c|) iff unitary.
"""
import numpy as np

LD = np.longdouble
CLD = np.clongdouble
EXTENDED = np.finfo(LD).eps < 2e-19
TWO_PI = 2 * np.arccos(LD(-1))  # pi to extended precision


def coords(n, extra=0):
    return np.arange(n, dtype=LD) - LD(n // 2) + LD(extra)


def dft2_ref(f, alpha, shape, shift=(0, 0), offset=(0, 0), unitary=True, sign=-1):
    f = np.asarray(f, dtype=CLD)
    m, n = f.shape
    M, N = int(shape[0]), int(shape[1])
    ar, ac = LD(alpha[0]), LD(alpha[1])
    X = coords(m, offset[0])
    Y = coords(n, offset[1])
    U = coords(M, 0) - LD(shift[0])
    V = coords(N, 0) - LD(shift[1])
    pr = TWO_PI * ar * np.outer(U, X)          # (M, m)
    pc = TWO_PI * ac * np.outer(Y, V)          # (n, N)
    E1 = np.cos(pr) + sign * 1j * np.sin(pr)
    E2 = np.cos(pc) + sign * 1j * np.sin(pc)
    F = E1.astype(CLD) @ f @ E2.astype(CLD)
    if unitary:
        F = F * np.sqrt(abs(ar * ac))
    max_phase = float(np.max(np.abs(pr))) + float(np.max(np.abs(pc)))
    return F, max_phase


def tol_dft(f, alpha, max_phase, unitary, factor=32.0):
    """Rounding bound for a float64 evaluation of the sum: every term carries
    a phase-argument error of a few eps*|phase| and the accumulation a few
    eps per term."""
    eps = np.finfo(float).eps
    scale = float(np.sqrt(abs(alpha[0] * alpha[1]))) if unitary else 1.0
    s = float(np.sum(np.abs(f)))
    return factor * eps * (1.0 + max_phase) * s * scale + 1e-300
