"""Reference Zernike polynomials in Noll's ordering, from the definitions
(Noll 1976): no lentil import.

Noll ordering: modes sorted by radial order n; within n by |m| ascending
(n - |m| even); for |m| > 0 the two modes take consecutive indices, the even
index being the cosine term.  Normalised value:

    Z = sqrt(n+1) * R_n^|m|(rho) * { 1 (m = 0) ; sqrt(2) cos(|m| theta) ; sqrt(2) sin(|m| theta) }
"""
from fractions import Fraction
from math import factorial

import numpy as np


def noll_sequence(jmax):
    """list of (j, n, |m|, kind) with kind in {'0', 'cos', 'sin'} for j = 1..jmax"""
    out = []
    j = 1
    n = 0
    while j <= jmax:
        for am in range(n % 2, n + 1, 2):
            if am == 0:
                out.append((j, n, 0, "0"))
                j += 1
            else:
                # two consecutive indices; the even one is the cosine
                for jj in (j, j + 1):
                    out.append((jj, n, am, "cos" if jj % 2 == 0 else "sin"))
                j += 2
            if j > jmax + 2:
                break
        n += 1
    return [t for t in out if t[0] <= jmax]


def radial_coeffs(n, am):
    """exact coefficients {power: Fraction} of R_n^|m|"""
    c = {}
    for k in range((n - am) // 2 + 1):
        c[n - 2 * k] = Fraction((-1) ** k * factorial(n - k),
                                factorial(k) * factorial((n + am) // 2 - k) * factorial((n - am) // 2 - k))
    return c


def radial(n, am, rho):
    """R_n^|m|(rho) in longdouble with a cancellation-aware error bound"""
    rho = np.asarray(rho, dtype=np.longdouble)
    val = np.zeros(rho.shape, dtype=np.longdouble)
    mag = np.zeros(rho.shape, dtype=np.longdouble)
    for p, c in radial_coeffs(n, am).items():
        t = np.longdouble(c.numerator) / np.longdouble(c.denominator) * rho ** p
        val += t
        mag += np.abs(t)
    return val, mag


def mode(n, am, kind, rho, theta, normalize=True):
    R, mag = radial(n, am, rho)
    theta = np.asarray(theta, dtype=np.longdouble)
    if kind == "0":
        A = np.ones(theta.shape, dtype=np.longdouble)
        norm = np.sqrt(np.longdouble(n + 1))
    else:
        A = np.cos(am * theta) if kind == "cos" else np.sin(am * theta)
        norm = np.sqrt(np.longdouble(2 * (n + 1)))
    if not normalize:
        norm = np.longdouble(1)
    return norm * R * A, norm * mag
