"""Reference model for Spectrum arithmetic, written from property C13 (no lentil import)."""
import numpy as np
from scipy.interpolate import interp1d

FACTOR_TO_M = {"m": 1.0, "um": 1e-6, "nm": 1e-9, "angstrom": 1e-10}


def factor(a, b):
    """multiply a wavelength expressed in unit a by this to express it in unit b"""
    return FACTOR_TO_M[a] / FACTOR_TO_M[b]


def min_spacing(w):
    return float(np.min(np.diff(w)))


def common_grid(w1, w2, sampling):
    lo = min(w1.min(), w2.min())
    hi = max(w1.max(), w2.max())
    if sampling == "min":
        d = min(min_spacing(w1), min_spacing(w2))
    elif sampling == "left":
        d = min_spacing(w1)
    elif sampling == "right":
        d = min_spacing(w2)
    else:
        d = float(sampling)
    span = hi - lo
    q = span / d
    num = int(np.ceil(q))
    # the spacing itself is a difference of neighbouring wavelengths, known to ~eps*|w| only: on a dense grid
    # (spacing/wavelength = r) that is a relative uncertainty of eps/r in d and hence in the count q
    wmax = float(max(np.max(np.abs(w1)), np.max(np.abs(w2))))
    rel = max(1e-9, 16 * np.finfo(float).eps * wmax / d) if isinstance(sampling, str) else 1e-9
    ambiguous = abs(q - round(q)) < rel * max(1.0, abs(q))
    return lo, hi, d, num + 1, ambiguous


def interpolate(w, v, x, method):
    if method == "linear":
        return np.interp(x, w, v)
    return interp1d(w, v, kind=method, copy=True, bounds_error=False, fill_value=np.nan)(x)


def operand_on_grid(w, v, grid, method, fill, exact_ends=True):
    """value on the grid: interpolant inside the closed range, fill value outside.
    fill: scalar or (below, above).  Returns (values, decided) where decided is False at grid points
    whose membership is decided by rounding (within 1e-9*span of an end without being equal to it)."""
    fill = np.broadcast_to(np.asarray(fill, dtype=float), (2,))
    span = grid[-1] - grid[0] if len(grid) > 1 else 1.0
    lo, hi = w.min(), w.max()
    inside = (grid >= lo) & (grid <= hi)
    out = np.where(grid < lo, fill[0], fill[1]).astype(float)
    out[inside] = interpolate(w, v, grid[inside], method)
    tol = 1e-9 * max(span, abs(hi))
    if exact_ends:
        near = ((np.abs(grid - lo) < tol) & (grid != lo)) | ((np.abs(grid - hi) < tol) & (grid != hi))
    else:   # unit conversions round the ends: membership at the ends themselves is rounding-decided too
        near = (np.abs(grid - lo) < tol) | (np.abs(grid - hi) < tol)
    return out, ~near
