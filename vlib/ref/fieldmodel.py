"""Reference model of lentil's Field bookkeeping: a field is its data embedded
at its offset in an infinite plane of zeros, origin sample at index floor(n/2).
Written from property C06; does not import lentil.

An embedding is represented on a finite canvas of coordinates [-L, L] x [-L, L].
"""
import numpy as np

L = 40  # canvas half-width; generated coordinates stay well inside


def coord_range(n, offset):
    lo = int(offset) - n // 2
    return lo, lo + n  # half-open


def coords(shape, offset):
    r0, r1 = coord_range(shape[0], offset[0])
    c0, c1 = coord_range(shape[1], offset[1])
    return r0, r1, c0, c1


def extent(shape, offset):
    """closed extent (rmin, rmax, cmin, cmax) as lentil reports it"""
    r0, r1, c0, c1 = coords(shape, offset)
    return r0, r1 - 1, c0, c1 - 1


def embed(data, offset, canvas=None, dtype=complex):
    data = np.asarray(data)
    if canvas is None:
        canvas = np.zeros((2 * L + 1, 2 * L + 1), dtype=dtype)
    if data.size == 0:
        return canvas
    r0, r1, c0, c1 = coords(data.shape, offset)
    assert -L <= r0 and r1 <= L + 1 and -L <= c0 and c1 <= L + 1, "canvas too small"
    canvas[r0 + L:r1 + L, c0 + L:c1 + L] += data
    return canvas


def window(canvas, shape):
    """The part of the infinite plane covered by an array of ``shape`` whose
    origin sample sits at index floor(n/2)."""
    H, W = shape
    r0, c0 = -(H // 2), -(W // 2)
    return canvas[r0 + L:r0 + L + H, c0 + L:c0 + L + W]


def coordset(shape, offset):
    r0, r1, c0, c1 = coords(shape, offset)
    return {(r, c) for r in range(r0, r1) for c in range(c0, c1)}


def set_extent(s):
    rs = [p[0] for p in s]
    cs = [p[1] for p in s]
    return min(rs), max(rs), min(cs), max(cs)


def extents_intersect(a, b):
    return not (a[1] < b[0] or b[1] < a[0] or a[3] < b[2] or b[3] < a[2])
