"""Call forms: the same call written with keywords or positionally in the documented parameter order.

The table below is the documented (pinned) parameter order and defaults of lentil's public functions.  A check
module wraps the modules it calls (``lentil = callforms.proxy(lentil)``); the runner selects a mode per case (a
function of the case, so replays reproduce it):

  mode 0  calls go through exactly as the check wrote them (mostly keywords)
  mode 1  every argument the table knows is passed positionally (defaults filled in for skipped parameters)
  mode 2  only the leading half of the parameters is passed positionally

Only the check's own calls are rewritten; calls lentil makes internally are untouched.  On a tree whose functions
still have the documented signatures all three modes are the same call.

Independently of the mode, one case in four passes every Python ``float`` argument of a wrapped function as a 0-d
float64 array (what np.load, HDF5 readers or ``squeeze()`` hand back for a scalar: the same number, array_like) and
looks at those objects again after the call: a function that changed one of them has modified a caller's argument."""
import ast
import functools

SIGNATURES = {
    "fourier.dft2": [("f", None), ("alpha", None), ("shape", "None"), ("shift", "(0, 0)"), ("offset", "(0, 0)"),
                     ("unitary", "True"), ("out", "None")],
    "fourier.idft2": [("F", None), ("alpha", None), ("shape", "None"), ("shift", "(0, 0)"), ("unitary", "True"),
                      ("out", "None")],
    "propagate_dft": [("wavefront", None), ("pixelscale", None), ("shape", "None"), ("prop_shape", "None"),
                      ("oversample", "2"), ("mask", "None")],
    "propagate_fft": [("wavefront", None), ("pixelscale", None), ("shape", "None"), ("oversample", "2"), ("scratch", "None")],
    "scratch_shape": [("wavelength", None), ("dx", None), ("du", None), ("z", None), ("oversample", None)],
    "pad": [("array", None), ("shape", None)],
    "rebin": [("img", None), ("factor", None)],
    "window": [("img", None), ("shape", "None"), ("slice", "None")],
    "boundary": [("x", None), ("threshold", "0")],
    "subarray": [("a", None), ("shape", None), ("shift", "(0, 0)")],
    "normalize_power": [("array", None), ("power", "1")],
    "detector.adc": [("img", None), ("gain", None), ("saturation_capacity", "None"), ("warn_saturate", "False"), ("dtype", "None")],
    "detector.collect_charge": [("img", None), ("wave", None), ("qe", None), ("waveunit", "'nm'")],
    "detector.collect_charge_bayer": [("img", None), ("wave", None), ("qe_red", None), ("qe_green", None), ("qe_blue", None),
                                      ("bayer_pattern", None), ("oversample", "1"), ("waveunit", "'nm'"), ("flatten", "True")],
    "detector.shot_noise": [("img", None), ("method", "'poisson'"), ("seed", "None")],
    "detector.read_noise": [("img", None), ("electrons", None), ("seed", "None")],
    "detector.dark_current": [("rate", None), ("shape", "1"), ("fpn_factor", "0"), ("seed", "None")],
    "detector.pixel": [("img", None), ("oversample", "1")],
    "detector.pixelate": [("img", None), ("oversample", None)],
    "detector.charge_diffusion": [("img", None), ("sigma", None), ("oversample", "1")],
    "jitter": [("img", None), ("scale", None), ("pixelscale", "1"), ("oversample", "1")],
    "smear": [("img", None), ("distance", None), ("angle", "None"), ("pixelscale", "1"), ("oversample", "1")],
    "zernike": [("mask", None), ("index", None), ("normalize", "True"), ("rho", "None"), ("theta", "None")],
    "zernike_compose": [("mask", None), ("coeffs", None), ("normalize", "True"), ("rho", "None"), ("theta", "None")],
    "zernike_basis": [("mask", None), ("modes", None), ("vectorize", "False"), ("normalize", "True"), ("rho", "None"),
                      ("theta", "None")],
    "zernike_fit": [("opd", None), ("mask", None), ("modes", None), ("normalize", "True"), ("rho", "None"), ("theta", "None")],
    "zernike_remove": [("opd", None), ("mask", None), ("modes", None), ("rho", "None"), ("theta", "None")],
    "zernike_coordinates": [("mask", None), ("shift", "None"), ("rotate", "0")],
    "power_spectrum": [("mask", None), ("pixelscale", None), ("rms", None), ("half_power_freq", None), ("exp", None),
                       ("seed", "None")],
    "radiometry.planck_radiance": [("wave", None), ("temp", None), ("waveunit", "'nm'"), ("valueunit", "'wlam'")],
    "radiometry.planck_exitance": [("wave", None), ("temp", None), ("waveunit", "'nm'"), ("valueunit", "'wlam'")],
    "field.insert": [("field", None), ("out", None), ("intensity", "False"), ("weight", "1")],
    "circle": [("shape", None), ("radius", None), ("shift", "(0, 0)"), ("antialias", "True")],
    "hexagon": [("shape", None), ("radius", None), ("shift", "(0, 0)"), ("rotate", "False"), ("antialias", "True")],
    "rectangle": [("shape", None), ("width", None), ("height", None), ("shift", "(0, 0)"), ("angle", "0"), ("antialias", "True")],
    "hex_segments": [("rings", None), ("seg_radius", None), ("seg_gap", None), ("rotate", "False"), ("antialias", "True"),
                     ("flatten", "False"), ("pad", "2"), ("drop", "(0,)")],
}

_MODE = 0
_SCALARS_0D = False


def set_mode(m):
    global _MODE, _SCALARS_0D
    _MODE = int(m) % 3
    _SCALARS_0D = (int(m) // 3) % 4 == 0


def scalars_0d():
    return _SCALARS_0D


def _wrap_floats(args, kwargs):
    import numpy as np
    held = []

    def w(v):
        if type(v) is float:
            a = np.array(v)
            held.append((a, v))
            return a
        return v
    return tuple(w(v) for v in args), {k: w(v) for k, v in kwargs.items()}, held


def get_mode():
    return _MODE


def positional(sig, args, kwargs, mode):
    """rewrite (args, kwargs) so that parameters of ``sig`` are passed positionally as far as ``mode`` asks"""
    if mode == 0:
        return args, kwargs
    names = [n for n, _ in sig]
    args = list(args)
    kwargs = dict(kwargs)
    limit = len(names) if mode == 1 else max(len(args), (len(names) + 1) // 2)
    i = len(args)
    while i < min(limit, len(names)):
        name, default = sig[i]
        if name in kwargs:
            args.append(kwargs.pop(name))
        elif default is not None and any(n in kwargs for n in names[i + 1:limit]):
            args.append(ast.literal_eval(default))       # a skipped parameter takes its documented default
        else:
            break
        i += 1
    return tuple(args), kwargs


class _Proxy:
    def __init__(self, module, prefix=""):
        object.__setattr__(self, "_module", module)
        object.__setattr__(self, "_prefix", prefix)

    def __getattr__(self, name):
        real = getattr(self._module, name)
        sig = SIGNATURES.get(self._prefix + name)
        if sig is None or not callable(real):
            return real

        @functools.wraps(real)
        def call(*args, **kwargs):
            a, k = positional(sig, args, kwargs, _MODE)
            if not _SCALARS_0D:
                return real(*a, **k)
            a, k, held = _wrap_floats(a, k)
            out = real(*a, **k)
            for arr, v in held:
                if arr.shape != () or not (arr == v or (v != v and arr != arr)):
                    from vlib.runner import Violation
                    raise Violation("callform.scalar_parameter_mutated",
                                    f"{self._prefix + name}(...) changed a scalar argument that was passed as a 0-d array: {v!r} -> {arr!r}")
            return out
        return call

    def __setattr__(self, name, value):
        setattr(self._module, name, value)

    def __dir__(self):
        return dir(self._module)


def proxy(module, prefix=""):
    return _Proxy(module, prefix)
