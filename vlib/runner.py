"""Sub-check registry, seeding, sharding, evidence and exit codes.

Every property module registers sub-checks.  A sub-check is either

* ``hyp``  : a Hypothesis strategy producing a *case descriptor* (a JSON-able
             dict, numpy arrays allowed) and a ``body(case, ctx)`` that runs the
             oracle and raises :class:`Violation`;
* ``enum`` : a function returning an iterable of case descriptors that covers a
             finite domain completely (sharded round-robin) and the same kind of
             body.

``body`` is a pure function of the case, so a replay is ``body(decode(file))``.
"""
import collections
import contextlib
import hashlib
import importlib
import json
import os
import sys
import time
import traceback

from . import codec

VERIF = os.path.dirname(os.path.dirname(os.path.abspath(__file__)))
# evidence and newly found replays normally live in /verif; my own mutation runs
# against scratch trees redirect them so that they never clobber real evidence
OUT_DIR = os.environ.get("VERIF_OUT_DIR", VERIF)

PROPERTY_MODULES = {
    "C01": "checks.c01_dft",
    "C02": "checks.c02_propagate",
    "C03": "checks.c03_segments",
    "C04": "checks.c04_tilt",
    "C05": "checks.c05_energy",
    "C06": "checks.c06_field",
    "C07": "checks.c07_wavefront",
    "C08": "checks.c08_ptype",
    "C09": "checks.c09_fft",
    "C10": "checks.c10_purity",
    "C11": "checks.c11_zernike",
    "C12": "checks.c12_zernike_fit",
    "C13": "checks.c13_spectrum_arith",
    "C14": "checks.c14_units",
    "C15": "checks.c15_spectrum_resize",
    "C16": "checks.c16_detector",
    "C17": "checks.c17_rescale",
    "C18": "checks.c18_stochastic",
    "C19": "checks.c19_blur",
    "C20": "checks.c20_geometry",
}


class Violation(Exception):
    """The code under test broke the property on this case."""

    def __init__(self, oracle, detail, case=None):
        super().__init__(f"{oracle}: {detail}")
        self.oracle = oracle
        self.detail = detail
        self.case = case


class Skip(Exception):
    """Case is outside the property's domain (counted, never a violation)."""

    def __init__(self, reason):
        super().__init__(reason)
        self.reason = reason


@contextlib.contextmanager
def lentil_call(oracle, what=""):
    """Run code under test; an exception it raises on an input the property
    says must be accepted is a violation (not a harness error)."""
    try:
        yield
    except (Violation, Skip):
        raise
    except MemoryError:
        # the per-process address-space cap was hit (a generated case describing a gigantic grid): inconclusive,
        # counted in the evidence under skipped["memory_cap"], never a violation
        raise Skip("memory_cap") from None
    except Exception as e:  # noqa: BLE001 - deliberate: classify by origin
        if getattr(e, "harness_error", False):
            raise               # the harness's own plumbing failed (e.g. vlib/foreign.py's helper process): exit 2
        tb = traceback.extract_tb(e.__traceback__)
        inner = ""
        for fr in reversed(tb):
            if os.sep + "lentil" + os.sep in fr.filename:
                inner = f"{os.path.basename(fr.filename)}:{fr.name}"
                break
        raise Violation(oracle + ".raised",
                        f"{what} raised {type(e).__name__}: {str(e)[:200]} [{inner}]") from None


def expect_raises(oracle, exc_types, fn, what=""):
    """The contract requires an exception of one of ``exc_types``."""
    try:
        fn()
    except exc_types:
        return
    except (Violation, Skip):
        raise
    except Exception as e:  # noqa: BLE001
        raise Violation(oracle, f"{what}: expected {[t.__name__ for t in exc_types]}, "
                                f"got {type(e).__name__}: {str(e)[:160]}") from None
    raise Violation(oracle, f"{what}: expected {[t.__name__ for t in exc_types]}, nothing raised")


class Ctx:
    """Per-sub-check counters for the evidence file."""

    MAX_SAMPLES = 4

    def __init__(self, tier):
        self.tier = tier
        self.evaluations = 0
        self.nontrivial = set()
        self.tags = collections.Counter()
        self.skips = collections.Counter()
        self.samples = {}          # digest -> summarised case (smallest digests kept)
        self.first_sample = None
        self.failures = {}         # oracle -> (size, case, detail)
        self.budget_skipped = 0
        self._cur_tags = None

    # -- called by bodies -------------------------------------------------
    def tag(self, *names):
        for n in names:
            if n:
                self._cur_tags.add(str(n))

    def nontrivial_if(self, cond):
        self._cur_nontrivial = bool(cond)

    # -- called by runner -------------------------------------------------
    def begin(self, case=None):
        self._cur_tags = set()
        self._cur_nontrivial = False
        # the call form (keywords / positional in the documented order) is a function of the case
        from vlib import callforms
        self._cur_digest = codec.digest(case) if case is not None else None
        callforms.set_mode(int(self._cur_digest[:6], 16) if self._cur_digest else 0)
        self._cur_tags.add(f"call_form:{callforms.get_mode()}")
        if callforms.scalars_0d():
            self._cur_tags.add("float_args_as_0d_arrays")

    def end(self, case):
        self.evaluations += 1
        self.tags.update(self._cur_tags)
        d = getattr(self, "_cur_digest", None) or codec.digest(case)
        if self._cur_nontrivial:
            self.nontrivial.add(d)
            if self.first_sample is None:
                self.first_sample = codec.summarise(case)
            if len(self.samples) < self.MAX_SAMPLES or d < max(self.samples):
                self.samples[d] = codec.summarise(case)
                if len(self.samples) > self.MAX_SAMPLES:
                    del self.samples[max(self.samples)]

    def fail(self, v, case):
        size = len(codec.canonical(case))
        old = self.failures.get(v.oracle)
        if old is None or size < old[0]:
            self.failures[v.oracle] = (size, case, v.detail)

    def export(self):
        return {
            "evaluations": self.evaluations,
            "nontrivial": sorted(self.nontrivial),
            "tags": dict(self.tags),
            "skips": dict(self.skips),
            "samples": ([self.first_sample] if self.first_sample is not None else [])
                       + [self.samples[k] for k in sorted(self.samples)],
            "failures": [(o, codec.encode(c), d) for o, (s, c, d) in sorted(self.failures.items())],
            "budget_skipped": self.budget_skipped,
        }


class SubCheck:
    def __init__(self, prop, name, kind, body, rule, strategy=None, enumerate_=None,
                 examples=(200, 1000), budget_s=(90, 900), exhaustive_tiers=(), max_shards=None):
        self.prop, self.name, self.kind, self.body, self.rule = prop, name, kind, body, rule
        self.max_shards = max_shards               # memory-heavy sub-checks run in fewer parallel shards
        self.strategy, self.enumerate_ = strategy, enumerate_
        self.examples, self.budget_s = examples, budget_s
        self.exhaustive_tiers = exhaustive_tiers


REGISTRY = collections.defaultdict(list)       # prop -> [SubCheck]
KNOWN_PREDICATES = {}                          # name -> predicate(case) -> bool
KNOWN_PROBES = collections.defaultdict(list)   # prop -> [(where, text, probe())]


def hyp(prop, name, strategy, rule, examples=(200, 1000), budget_s=(90, 900), max_shards=None):
    def deco(body):
        REGISTRY[prop].append(SubCheck(prop, name, "hyp", body, rule, strategy=strategy,
                                       examples=examples, budget_s=budget_s, max_shards=max_shards))
        return body
    return deco


def enum(prop, name, enumerate_, rule, budget_s=(90, 900), exhaustive_tiers=("thorough",)):
    def deco(body):
        REGISTRY[prop].append(SubCheck(prop, name, "enum", body, rule, enumerate_=enumerate_,
                                       budget_s=budget_s, exhaustive_tiers=exhaustive_tiers))
        return body
    return deco


def known_predicate(name):
    def deco(fn):
        KNOWN_PREDICATES[name] = fn
        return fn
    return deco


def known_probe(prop, where):
    """Register a probe that reproduces exactly one listed known finding.
    The probe returns None if the defect no longer reproduces, otherwise a
    short text of what fails."""
    def deco(fn):
        KNOWN_PROBES[prop].append((where, fn))
        return fn
    return deco


def derive_seed(base, prop, name, shard):
    h = hashlib.sha256(f"{base}|{prop}|{name}|{shard}".encode()).digest()
    return int.from_bytes(h[:8], "big")


def tier_index(tier):
    return 0 if tier == "quick" else 1


# ---------------------------------------------------------------------------
# running one sub-check in one shard

def _run_hyp(sc, tier, seed, shard, nshards):
    import hypothesis
    from hypothesis import HealthCheck, Phase, given, settings

    ctx = Ctx(tier)
    ti = tier_index(tier)
    n = sc.examples[ti]
    budget = sc.budget_s[ti]
    t0 = time.monotonic()
    state = {"first_fail_t": None, "after_fail": 0}
    shrink_cap = 300 if tier == "quick" else 1500
    shrink_time = 45 if tier == "quick" else 180

    strategy = sc.strategy(tier) if callable(sc.strategy) else sc.strategy

    def one(case):
        now = time.monotonic()
        if state["first_fail_t"] is not None:
            state["after_fail"] += 1
            if state["after_fail"] > shrink_cap or now - state["first_fail_t"] > shrink_time:
                return  # stop shrinking: best failure so far is already recorded
        elif now - t0 > budget:
            ctx.budget_skipped += 1
            return
        ctx.begin(case)
        try:
            sc.body(case, ctx)
        except Skip as s:
            ctx.skips[s.reason] += 1
            return
        except MemoryError:
            ctx.skips["memory_cap"] += 1
            return
        except Violation as v:
            ctx.fail(v, case)
            if state["first_fail_t"] is None:
                state["first_fail_t"] = time.monotonic()
            raise
        if state["first_fail_t"] is None:
            ctx.end(case)

    test = given(strategy)(one)
    test = settings(max_examples=n, database=None, deadline=None, derandomize=False,
                    report_multiple_bugs=False, print_blob=False,
                    suppress_health_check=list(HealthCheck),
                    phases=(Phase.generate, Phase.shrink))(test)
    test = hypothesis.seed(derive_seed(seed, sc.prop, sc.name, shard))(test)
    err = None
    try:
        test()
    except Violation:
        pass
    except Exception as e:  # noqa: BLE001
        if ctx.failures:
            pass  # Flaky after our shrink cut-off, or similar: failures already recorded
        else:
            err = "".join(traceback.format_exception(type(e), e, e.__traceback__))[-4000:]
    out = ctx.export()
    out["error"] = err
    out["wall_s"] = time.monotonic() - t0
    return out


def _run_enum(sc, tier, seed, shard, nshards):
    ctx = Ctx(tier)
    ti = tier_index(tier)
    budget = sc.budget_s[ti]
    t0 = time.monotonic()
    err = None
    complete = True
    try:
        for i, case in enumerate(sc.enumerate_(tier)):
            if i % nshards != shard:
                continue
            if time.monotonic() - t0 > budget:
                complete = False
                ctx.budget_skipped += 1
                break
            ctx.begin(case)
            try:
                sc.body(case, ctx)
            except Skip as s:
                ctx.skips[s.reason] += 1
                continue
            except Violation as v:
                ctx.fail(v, case)
                continue
            ctx.end(case)
    except Exception as e:  # noqa: BLE001
        err = "".join(traceback.format_exception(type(e), e, e.__traceback__))[-4000:]
    out = ctx.export()
    out["error"] = err
    out["complete"] = complete
    out["wall_s"] = time.monotonic() - t0
    return out


def apply_memory_cap():
    """Cap the address space of this process (default 12 GB, VERIF_MEM_GB) so that one generated case cannot take
    the machine down: the allocation fails with MemoryError instead, which is counted as an inconclusive case."""
    import resource
    cap = int(float(os.environ.get("VERIF_MEM_GB", "12")) * 2**30)
    soft, hard = resource.getrlimit(resource.RLIMIT_AS)
    if hard != resource.RLIM_INFINITY:
        cap = min(cap, hard)
    resource.setrlimit(resource.RLIMIT_AS, (cap, hard))


def _worker(args):
    prop, name, tier, seed, shard, nshards = args
    apply_memory_cap()
    load_property(prop)
    sc = next(s for s in REGISTRY[prop] if s.name == name)
    fn = _run_hyp if sc.kind == "hyp" else _run_enum
    res = fn(sc, tier, seed, shard, nshards)
    res["name"] = name
    res["shard"] = shard
    return res


# ---------------------------------------------------------------------------
# code under test

def setup_lentil():
    """Import lentil from the tree under test (default /repo) with a private,
    empty bytecode cache so an edited source can never be shadowed."""
    src = os.environ.get("LENTIL_SRC", "/repo")
    if "lentil" in sys.modules:
        return sys.modules["lentil"]
    cache = os.path.join(VERIF, ".cache", f"pyc-{os.getpid()}")
    os.makedirs(cache, exist_ok=True)
    sys.pycache_prefix = cache
    sys.dont_write_bytecode = True
    sys.path.insert(0, src)
    os.environ.setdefault("LENTIL_VERIF", "1")
    import warnings
    warnings.filterwarnings("ignore", category=DeprecationWarning)
    import lentil
    here = os.path.realpath(os.path.dirname(lentil.__file__))
    want = os.path.realpath(os.path.join(src, "lentil"))
    if here != want:
        raise RuntimeError(f"lentil imported from {here}, expected {want}")
    import atexit
    import shutil
    pid = os.getpid()
    atexit.register(lambda: os.getpid() == pid and shutil.rmtree(cache, ignore_errors=True))
    return lentil


def load_property(prop):
    setup_lentil()
    if VERIF not in sys.path:
        sys.path.insert(0, VERIF)
    return importlib.import_module(PROPERTY_MODULES[prop])


# ---------------------------------------------------------------------------
# known findings

def load_known():
    known, fixed = [], []
    path = os.path.join(VERIF, "KNOWN_FINDINGS.txt")
    if not os.path.exists(path):
        return known, fixed
    for line in open(path):
        line = line.strip()
        if not line or line.startswith("#"):
            continue
        if line.startswith("known:"):
            head, _, text = line[len("known:"):].partition("::")
            kv = dict(tok.split("=", 1) for tok in head.split())
            known.append({"property": kv["property"], "oracle": kv.get("oracle", "*"),
                          "where": kv["where"], "text": text.strip()})
        elif line.startswith("fixed:"):
            fixed.append(line)
    return known, fixed


def match_known(known, prop, oracle, case):
    for k in known:
        if k["property"] != prop:
            continue
        if k["oracle"] != "*" and not oracle.startswith(k["oracle"]):
            continue
        pred = KNOWN_PREDICATES.get(k["where"])
        if pred is None:
            continue
        try:
            if pred(case):
                return k
        except Exception:  # noqa: BLE001
            continue
    return None


# ---------------------------------------------------------------------------
# driver

def replay_file(path):
    with open(path) as fh:
        rec = json.load(fh)
    prop = rec["property"]
    load_property(prop)
    sc = next(s for s in REGISTRY[prop] if s.name == rec["subcheck"])
    case = codec.decode(rec["case"])
    ctx = Ctx("quick")
    ctx.begin(case)
    try:
        sc.body(case, ctx)
    except Skip as s:
        return ("skip", s.reason, prop, rec)
    except Violation as v:
        return ("violation", f"{v.oracle}: {v.detail}", prop, rec)
    return ("ok", "", prop, rec)


def write_replay(prop, subcheck, oracle, case_enc, detail, folder="found"):
    d = os.path.join(OUT_DIR, "replays", prop, folder)
    os.makedirs(d, exist_ok=True)
    rec = {"property": prop, "subcheck": subcheck, "oracle": oracle, "detail": detail,
           "case": case_enc}
    name = f"{oracle.replace('/', '_')}-{hashlib.sha1(json.dumps(case_enc, sort_keys=True).encode()).hexdigest()[:10]}.json"
    path = os.path.join(d, name)
    with open(path, "w") as fh:
        json.dump(rec, fh, indent=1)
    return os.path.relpath(path, VERIF) if OUT_DIR == VERIF else path


def run_property(prop, tier, seed, only=None, shards=None):
    t0 = time.monotonic()
    load_property(prop)
    subs = [s for s in REGISTRY[prop] if only is None or s.name in only]
    if not subs:
        print(f"HARNESS-ERROR no sub-checks registered for {prop}")
        return 2
    known, _fixed = load_known()
    violations = []     # (subcheck, oracle, case_enc, detail)
    harness_errors = []
    known_lines = []

    # 1. regression corpus (seconds-long replay tier)
    corpus_dir = os.path.join(VERIF, "replays", prop, "corpus")
    corpus_n = 0
    if os.path.isdir(corpus_dir):
        for fn in sorted(os.listdir(corpus_dir)):
            if not fn.endswith(".json"):
                continue
            corpus_n += 1
            try:
                status, text, _, rec = replay_file(os.path.join(corpus_dir, fn))
            except Exception as e:  # noqa: BLE001
                harness_errors.append(f"corpus {fn}: {type(e).__name__}: {e}")
                continue
            if status == "violation":
                violations.append((rec["subcheck"], text.split(":")[0], rec["case"], text, f"replays/{prop}/corpus/{fn}"))

    # 2. probes for listed known findings
    for where, probe in KNOWN_PROBES[prop]:
        listed = [k for k in known if k["property"] == prop and k["where"] == where]
        try:
            res = probe()
        except Exception as e:  # noqa: BLE001
            harness_errors.append(f"known probe {where}: {type(e).__name__}: {e}")
            continue
        if res is None:
            continue
        if listed:
            known_lines.append(f"KNOWN-FINDING: property={prop} {where}: {res}")
        else:
            # defect reproduces but is not listed -> ordinary violation
            violations.append(("known_probe", f"{prop}.probe.{where}", {"probe": where}, res, None))

    # 3. generated search
    if shards is None:
        shards = 1 if tier == "quick" else int(os.environ.get("VERIF_SHARDS", "16"))
    jobs = [(prop, s.name, tier, seed, sh, min(shards, s.max_shards or shards)) for s in subs
            for sh in range(min(shards, s.max_shards or shards))]
    nproc = int(os.environ.get("VERIF_PROCS", "16"))
    if len(jobs) == 1 or nproc == 1:
        results = [_worker(j) for j in jobs]
    else:
        import multiprocessing as mp
        from concurrent.futures import ProcessPoolExecutor
        from concurrent.futures.process import BrokenProcessPool
        # an executor (not mp.Pool): a worker that dies abruptly breaks the pool and is reported, instead of
        # leaving the run waiting for a result that never comes
        try:
            with ProcessPoolExecutor(min(nproc, len(jobs)), mp_context=mp.get_context("fork")) as pool:
                results = list(pool.map(_worker, jobs))
        except BrokenProcessPool as e:
            print(f"HARNESS-ERROR property={prop}: a worker process died ({e}); no verdict")
            return 2

    per_sub = {}
    for r in results:
        agg = per_sub.setdefault(r["name"], {"evaluations": 0, "nontrivial": set(), "tags": collections.Counter(),
                                             "skips": collections.Counter(), "samples": [], "budget_skipped": 0,
                                             "complete": True, "wall_s": 0.0})
        agg["evaluations"] += r["evaluations"]
        agg["nontrivial"].update(r["nontrivial"])
        agg["tags"].update(r["tags"])
        agg["skips"].update(r["skips"])
        agg["budget_skipped"] += r["budget_skipped"]
        agg["complete"] = agg["complete"] and r.get("complete", True)
        agg["wall_s"] = max(agg["wall_s"], r["wall_s"])
        if len(agg["samples"]) < 3:
            agg["samples"].extend(r["samples"][: 3 - len(agg["samples"])])
        if r["error"]:
            harness_errors.append(f"{r['name']}[shard {r['shard']}]: {r['error']}")
        for oracle, case_enc, detail in r["failures"]:
            violations.append((r["name"], oracle, case_enc, detail, None))

    # 4. classify violations
    exit_code = 0
    seen = set()
    n_viol = 0
    for sub, oracle, case_enc, detail, existing in violations:
        case = codec.decode(case_enc)
        k = match_known(known, prop, oracle, case)
        if k is not None:
            line = f"KNOWN-FINDING: property={prop} {k['where']}: {detail}"
            if line not in known_lines:
                known_lines.append(line)
            continue
        key = (sub, oracle)
        if key in seen:
            continue
        seen.add(key)
        n_viol += 1
        path = existing or write_replay(prop, sub, oracle, case_enc, detail)
        print(f"VIOLATION property={prop} replay={path}")
        print(f"  oracle={oracle} subcheck={sub} :: {detail}")
        exit_code = 1
    for line in known_lines:
        print(line)

    # 5. evidence
    total_eval = sum(a["evaluations"] for a in per_sub.values()) + corpus_n
    distinct = sum(len(a["nontrivial"]) for a in per_sub.values())
    samples = []
    for name, a in per_sub.items():
        for s in a["samples"][:2]:
            samples.append({"subcheck": name, "case": s})
    sub_ev = {}
    for s in subs:
        a = per_sub[s.name]
        sub_ev[s.name] = {
            "kind": s.kind, "rule": s.rule, "evaluations": a["evaluations"],
            "distinct_nontrivial": len(a["nontrivial"]), "tags": dict(sorted(a["tags"].items())),
            "skipped": dict(a["skips"]), "budget_skipped": a["budget_skipped"],
            "exhaustive": bool(s.kind == "enum" and tier in s.exhaustive_tiers and a["complete"]),
            "wall_s": round(a["wall_s"], 2),
        }
    mod = sys.modules[PROPERTY_MODULES[prop]]
    evidence = {
        "property_id": prop, "tier": tier, "seed": int(seed), "level": "exploration",
        "coverage": {
            "evaluations": int(total_eval),
            "distinct_nontrivial": int(distinct),
            "rule": getattr(mod, "RULE", "") + " | per sub-check: " + "; ".join(f"{s.name}: {s.rule}" for s in subs),
            "samples": samples[:12],
            "exhaustive": bool(sub_ev) and all(v["exhaustive"] for v in sub_ev.values()),
            "subchecks": sub_ev,
            "regression_corpus_replayed": corpus_n,
            "known_findings_reported": known_lines,
            "shards": shards,
        },
        "assumptions": list(getattr(mod, "ASSUMPTIONS", [])),
        "wall_s": round(time.monotonic() - t0, 2),
        "violations": n_viol,
    }
    os.makedirs(os.path.join(OUT_DIR, "evidence"), exist_ok=True)
    # a run restricted with --only (my own debugging) never replaces the evidence of a complete run
    with open(os.path.join(OUT_DIR, "evidence", f"{prop}.json" if only is None else f"{prop}.partial.json"), "w") as fh:
        json.dump(evidence, fh, indent=1, sort_keys=False)

    if harness_errors:
        for h in harness_errors:
            print("HARNESS-ERROR", h)
        if exit_code == 0:
            exit_code = 2
    print(f"{prop} tier={tier} seed={seed} evaluations={total_eval} distinct_nontrivial={distinct} "
          f"violations={n_viol} known={len(known_lines)} wall={time.monotonic() - t0:.1f}s exit={exit_code}")
    return exit_code
