"""JSON (de)serialisation of case descriptors.

A case descriptor is a plain dict / list / scalar structure that may contain
numpy arrays (real, complex, integer, bool) and numpy scalars.  Arrays are
stored as {"__nd__": dtype, "shape": [...], "data": [...]} with complex data
split into real/imag lists, so that a replay file is self-contained and
bit-exact (floats are written with repr precision by json).
"""
import base64
import hashlib
import json
import zlib

import numpy as np

BIG = 100_000          # arrays above this many elements are stored as compressed bytes (exact, compact, fast)


def encode(obj):
    if isinstance(obj, np.ndarray):
        if obj.size > BIG:
            a = np.ascontiguousarray(obj)
            return {"__nd__": str(a.dtype), "shape": list(a.shape),
                    "zb64": base64.b64encode(zlib.compress(a.tobytes(), 1)).decode("ascii")}
        if np.iscomplexobj(obj):
            return {"__nd__": str(obj.dtype), "shape": list(obj.shape),
                    "re": obj.real.ravel().tolist(), "im": obj.imag.ravel().tolist()}
        return {"__nd__": str(obj.dtype), "shape": list(obj.shape),
                "data": obj.ravel().tolist()}
    if isinstance(obj, (np.bool_,)):
        return bool(obj)
    if isinstance(obj, np.integer):
        return int(obj)
    if isinstance(obj, np.floating):
        return float(obj)
    if isinstance(obj, (complex, np.complexfloating)):
        return {"__c__": [float(obj.real), float(obj.imag)]}
    if isinstance(obj, dict):
        return {str(k): encode(v) for k, v in obj.items()}
    if isinstance(obj, (list, tuple)):
        return [encode(v) for v in obj]
    if isinstance(obj, float):
        if obj != obj:
            return {"__f__": "nan"}
        if obj in (float("inf"), float("-inf")):
            return {"__f__": "inf" if obj > 0 else "-inf"}
        return obj
    if obj is None or isinstance(obj, (bool, int, str)):
        return obj
    raise TypeError(f"cannot encode {type(obj).__name__}")


def decode(obj):
    if isinstance(obj, dict):
        if "__nd__" in obj:
            dt = np.dtype(obj["__nd__"])
            if "zb64" in obj:
                return np.frombuffer(zlib.decompress(base64.b64decode(obj["zb64"])), dtype=dt).reshape(obj["shape"]).copy()
            if "re" in obj:
                a = np.array(obj["re"], dtype=float) + 1j * np.array(obj["im"], dtype=float)
                return a.astype(dt).reshape(obj["shape"])
            return np.array(obj["data"], dtype=dt).reshape(obj["shape"])
        if "__c__" in obj:
            return complex(obj["__c__"][0], obj["__c__"][1])
        if "__f__" in obj:
            return float(obj["__f__"])
        return {k: decode(v) for k, v in obj.items()}
    if isinstance(obj, list):
        return [decode(v) for v in obj]
    return obj


def canonical(obj):
    return json.dumps(encode(obj), sort_keys=True, separators=(",", ":"))


def _digest_form(obj):
    """like encode, but a large array is represented by a hash of its bytes (digests only)"""
    if isinstance(obj, np.ndarray) and obj.size > BIG:
        a = np.ascontiguousarray(obj)
        return {"__nd__": str(a.dtype), "shape": list(a.shape), "sha1": hashlib.sha1(a.tobytes()).hexdigest()}
    if isinstance(obj, dict):
        return {str(k): _digest_form(v) for k, v in obj.items()}
    if isinstance(obj, (list, tuple)):
        return [_digest_form(v) for v in obj]
    return encode(obj)


def digest(obj):
    return hashlib.sha1(json.dumps(_digest_form(obj), sort_keys=True, separators=(",", ":")).encode()).hexdigest()[:16]


def summarise(obj, limit=400):
    """Short human-readable form of a case for evidence samples."""
    def _s(o):
        if isinstance(o, np.ndarray):
            if o.size <= 12:
                return encode(o)
            return {"__nd__": str(o.dtype), "shape": list(o.shape),
                    "digest": digest(o), "absmax": float(np.max(np.abs(o))) if o.size else 0.0}
        if isinstance(o, dict):
            return {k: _s(v) for k, v in o.items()}
        if isinstance(o, (list, tuple)):
            if len(o) > 24:
                return [_s(v) for v in o[:24]] + [f"... {len(o) - 24} more"]
            return [_s(v) for v in o]
        return encode(o)
    return _s(obj)
