"""Objects that arrive from ANOTHER interpreter process.

A model saved in one session and loaded in the next, or planes handed to multiprocessing workers started with
'spawn', are built in a process with a different string-hash salt, different object identities and freshly imported
modules.  ``copy`` / ``deepcopy`` / an in-process pickle round trip cannot show what such an object carries with it
(cached hashes, ids, interned strings).  This module keeps ONE helper process per checking process, started lazily
with a different PYTHONHASHSEED and the same lentil source tree, which builds objects from a small recipe and sends
them back pickled; the checking process only unpickles them.

    foreign.run([("w", "lentil.Wavefront", (1e-6,), {}),
                 ("p", "lentil.Pupil", (), {"amplitude": a, "pixelscale": 1e-3, "focal_length": 2.0}),
                 ("r", "operator.mul", ("$w", "$p"), {})])          -> the product, built over there

Arguments that are strings starting with "$" refer to earlier results; "@name" as a callable path means
``getattr(<earlier result>, attr)`` written as "@w.copy".  An exception raised by the recipe over there comes back as
ForeignError (code under test failed); a helper that cannot be started or talked to raises HelperFailure, which the
runner reports as a harness error (exit 2), never as a verdict.
"""
import atexit
import os
import pickle
import struct
import subprocess
import sys

VERIF = os.path.dirname(os.path.dirname(os.path.abspath(__file__)))

_SERVER = r"""
import importlib, os, pickle, struct, sys
sys.path.insert(0, os.environ["VERIF_HOME"])
from vlib import runner
runner.setup_lentil()
import lentil                                                                  # noqa: F401
import warnings
warnings.simplefilter("ignore")
inp, out = sys.stdin.buffer, sys.stdout.buffer
sys.stdout = sys.stderr                                                         # nothing else may write to the pipe


def resolve(path, env):
    if path.startswith("@"):
        name, _, attr = path[1:].partition(".")
        obj = env[name]
        for a in attr.split("."):
            obj = getattr(obj, a)
        return obj
    parts = path.split(".")
    obj = importlib.import_module(parts[0])
    for i, a in enumerate(parts[1:], 1):
        try:
            obj = getattr(obj, a)             # attribute first: lentil.ptype is a function AND a module name
        except AttributeError:
            obj = importlib.import_module(".".join(parts[:i + 1]))
    return obj


def sub(v, env):
    if isinstance(v, str) and v.startswith("$"):
        return env[v[1:]]
    if isinstance(v, (list, tuple)):
        return type(v)(sub(x, env) for x in v)
    if isinstance(v, dict):
        return {k: sub(x, env) for k, x in v.items()}
    return v


while True:
    head = inp.read(8)
    if len(head) < 8:
        break
    program = pickle.loads(inp.read(struct.unpack("<Q", head)[0]))
    try:
        env, last = {}, None
        for name, path, args, kwargs in program:
            last = resolve(path, env)(*sub(tuple(args), env), **sub(dict(kwargs), env))
            env[name] = last
        reply = ("ok", pickle.dumps(last, protocol=pickle.HIGHEST_PROTOCOL), os.environ.get("PYTHONHASHSEED"))
    except BaseException as e:                                                  # noqa: BLE001
        reply = ("error", f"{type(e).__name__}: {e}", None)
    data = pickle.dumps(reply, protocol=pickle.HIGHEST_PROTOCOL)
    out.write(struct.pack("<Q", len(data)))
    out.write(data)
    out.flush()
"""


class ForeignError(RuntimeError):
    """the recipe raised in the helper process (code under test failed over there)"""


class HelperFailure(RuntimeError):
    """the helper process itself could not be used: a harness error, never a verdict"""
    harness_error = True


_proc = None


def _own_hash_seed():
    return os.environ.get("PYTHONHASHSEED", "random")


def _start():
    global _proc
    env = dict(os.environ)
    # a salt that differs from this process's (which may be fixed, e.g. PYTHONHASHSEED=0, or random)
    env["PYTHONHASHSEED"] = "4242" if _own_hash_seed() != "4242" else "2424"
    env["VERIF_HOME"] = VERIF
    env.setdefault("LENTIL_SRC", "/repo")
    _proc = subprocess.Popen([sys.executable, "-c", _SERVER], stdin=subprocess.PIPE, stdout=subprocess.PIPE, env=env)
    pid = os.getpid()
    atexit.register(lambda: os.getpid() == pid and stop())


def stop():
    global _proc
    if _proc is not None:
        try:
            _proc.stdin.close()
            _proc.wait(timeout=5)
        except Exception:                                                       # noqa: BLE001
            _proc.kill()
        _proc = None


def run(program):
    """Run the recipe in the helper process; returns the last result, unpickled here."""
    if _proc is None or _proc.poll() is not None:
        _start()
    data = pickle.dumps(list(program), protocol=pickle.HIGHEST_PROTOCOL)
    try:
        _proc.stdin.write(struct.pack("<Q", len(data)))
        _proc.stdin.write(data)
        _proc.stdin.flush()
        head = _proc.stdout.read(8)
        if len(head) < 8:
            raise HelperFailure("helper process closed the pipe")
        status, payload, _seed = pickle.loads(_proc.stdout.read(struct.unpack("<Q", head)[0]))
    except HelperFailure:
        stop()
        raise
    except (BrokenPipeError, OSError, EOFError, pickle.UnpicklingError, struct.error) as e:
        stop()
        raise HelperFailure(f"helper process failed: {e}") from e
    if status != "ok":
        raise ForeignError(payload)
    return pickle.loads(payload)


def call(path, *args, **kwargs):
    """``path(*args, **kwargs)`` evaluated in the helper process."""
    return run([("r", path, args, kwargs)])
