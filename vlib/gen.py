"""Shared Hypothesis strategies.  All randomness comes from Hypothesis draws;
dense array content that need not shrink element-wise is produced by
np.random.default_rng(k) with k a drawn integer (still a pure function of the
drawn values, so cases replay exactly)."""
import numpy as np
from hypothesis import strategies as st
from hypothesis.extra import numpy as hnp


def dim(lo, hi):
    """Axis length: both parities and the extremes are common."""
    return st.one_of(st.integers(lo, hi), st.integers(lo, hi), st.integers(lo, hi),
                     st.sampled_from([lo, min(hi, lo + 1), hi, max(lo, hi - 1)]))


def _with_parity(draw, lo, hi, parity):
    klo = (lo - parity + 1) // 2
    khi = (hi - parity) // 2
    if khi < klo:
        return draw(st.integers(lo, hi))
    return 2 * draw(st.integers(klo, khi)) + parity


@st.composite
def shape2(draw, lo=1, hi=12, square_bias=0.15, big=0.0, big_pool=None):
    """(rows, cols) with the four parity classes equally likely (Hypothesis' integer
    distribution alone leaves the mixed-parity classes thin).  With probability ``big`` at least one
    axis is taken from a pool of sizes at and around the usual implementation thresholds."""
    if big > 0 and draw(st.floats(0, 1)) < big:
        pool = big_pool or BIG
        a = draw(st.sampled_from(pool))
        b = draw(st.sampled_from(pool)) if draw(st.booleans()) else draw(st.integers(lo, hi))
        return (a, b) if draw(st.booleans()) else (b, a)
    pr, pc = draw(st.sampled_from([(0, 0), (0, 1), (1, 0), (1, 1)]))
    r = _with_parity(draw, lo, hi, pr)
    if pr == pc and draw(st.floats(0, 1)) < 2 * square_bias:
        return (r, r)
    return (r, _with_parity(draw, lo, hi, pc))


def finite(lo, hi):
    return st.floats(lo, hi, allow_nan=False, allow_infinity=False, width=64)


def complex_elems(maxmag=1e3):
    return st.builds(complex, finite(-maxmag, maxmag), finite(-maxmag, maxmag))


@st.composite
def complex_array(draw, shape, maxmag=1e3, dense_prob=0.5):
    """Element-wise (sparse, shrinkable) or seed-dense complex array."""
    if draw(st.floats(0, 1)) < dense_prob:
        k = draw(st.integers(0, 2**31 - 1))
        rng = np.random.default_rng(k)
        scale = draw(st.sampled_from([1e-3, 1.0, 1.0, 30.0, maxmag, 1e-9, 1e-12, 1e7]))
        return (rng.normal(size=shape) + 1j * rng.normal(size=shape)) * scale / 3
    return draw(hnp.arrays(np.complex128, shape, elements=complex_elems(maxmag),
                           fill=st.just(0j)))


@st.composite
def real_array(draw, shape, lo=-1e3, hi=1e3, dense_prob=0.5):
    if draw(st.floats(0, 1)) < dense_prob:
        k = draw(st.integers(0, 2**31 - 1))
        rng = np.random.default_rng(k)
        return rng.uniform(lo, hi, size=shape)
    fillv = 0.0 if lo <= 0 <= hi else lo
    return draw(hnp.arrays(np.float64, shape, elements=finite(lo, hi), fill=st.just(fillv)))


def signed_log(lo, hi):
    """Magnitude log-uniform in [lo, hi], either sign."""
    return st.builds(lambda e, s: s * 10.0 ** e,
                     finite(np.log10(lo), np.log10(hi)), st.sampled_from([-1.0, 1.0]))


def pos_log(lo, hi):
    return st.builds(lambda e: 10.0 ** e, finite(np.log10(lo), np.log10(hi)))


def parity_tags(prefix, shape):
    return f"{prefix}:{'e' if shape[0] % 2 == 0 else 'o'}{'e' if shape[1] % 2 == 0 else 'o'}"


# ---------------------------------------------------------------------------
# apertures

@st.composite
def support_mask(draw, shape, min_samples=3):
    """Boolean support built from 1-3 primitives (disc, rectangle, blob,
    off-centre patch), optionally with a hole; never empty."""
    m, n = shape
    rr, cc = np.mgrid[0:m, 0:n]
    mask = np.zeros(shape, dtype=bool)
    nprim = draw(st.integers(1, 3))
    for _ in range(nprim):
        kind = draw(st.sampled_from(["disc", "rect", "blob", "patch", "full"]))
        r0 = draw(st.integers(0, m - 1))
        c0 = draw(st.integers(0, n - 1))
        if kind == "disc":
            rad = draw(finite(0.5, max(m, n) / 2 + 0.5))
            mask |= (rr - r0) ** 2 + (cc - c0) ** 2 <= rad ** 2
        elif kind == "rect":
            h = draw(st.integers(1, m))
            w = draw(st.integers(1, n))
            mask[r0:r0 + h, c0:c0 + w] = True
        elif kind == "blob":
            k = draw(st.integers(0, 2**31 - 1))
            p = draw(finite(0.2, 0.9))
            mask |= np.random.default_rng(k).uniform(size=shape) < p
        elif kind == "patch":
            mask[r0, c0] = True
            mask[min(r0 + 1, m - 1), c0] = True
        else:
            mask[:] = True
    if draw(st.booleans()) and m >= 3 and n >= 3:
        r0 = draw(st.integers(0, m - 1))
        c0 = draw(st.integers(0, n - 1))
        hole = np.zeros(shape, dtype=bool)
        hole[r0:r0 + draw(st.integers(1, max(1, m // 3))), c0:c0 + draw(st.integers(1, max(1, n // 3)))] = True
        if (mask & ~hole).sum() >= min_samples:
            mask &= ~hole
    if mask.sum() < min_samples:
        flat = np.flatnonzero(~mask.ravel())
        need = min_samples - int(mask.sum())
        mask.ravel()[flat[:need]] = True
    return mask


@st.composite
def aperture(draw, shape, wavelength, max_waves=3.0, min_samples=3):
    """(amplitude, opd, mask) arrays on ``shape``: support x smooth positive
    map, OPD = low-order polynomial + optional dense noise scaled to a drawn
    fraction of the wavelength."""
    m, n = shape
    mask = draw(support_mask(shape, min_samples=min_samples))
    k = draw(st.integers(0, 2**31 - 1))
    rng = np.random.default_rng(k)
    y, x = np.mgrid[0:m, 0:n]
    y = (y - m / 2) / max(m, 1)
    x = (x - n / 2) / max(n, 1)
    amp_kind = draw(st.sampled_from(["flat", "smooth", "noisy"]))
    if amp_kind == "flat":
        amp = np.ones(shape)
    elif amp_kind == "smooth":
        a, b = rng.uniform(-0.8, 0.8, size=2)
        amp = 1.0 + a * x + b * y
    else:
        amp = rng.uniform(0.1, 2.0, size=shape)
    amp = amp * mask
    waves = draw(st.sampled_from([0.0, 0.05, 0.3, 1.0, max_waves]))
    c = rng.normal(size=6)
    opd = c[0] + c[1] * x + c[2] * y + c[3] * x * y + c[4] * x * x + c[5] * y * y
    if draw(st.booleans()):
        opd = opd + 0.5 * rng.normal(size=shape)
    peak = np.max(np.abs(opd)) or 1.0
    opd = opd / peak * waves * wavelength
    return amp, opd, mask.astype(int)


@st.composite
def partition(draw, support, kmax=5, kmin=1):
    """Split a boolean support into 1..kmax non-empty segments.  Returns a label
    map (0 = outside, 1..k) and the partition kind."""
    m, n = support.shape
    idx = np.argwhere(support)
    k = draw(st.integers(min(kmin, kmax, len(idx)), min(kmax, len(idx))))
    kind = draw(st.sampled_from(["stripes_r", "stripes_c", "voronoi", "interleave", "random"]))
    labels = np.zeros(support.shape, dtype=int)
    if kind == "stripes_r":
        order = np.argsort(idx[:, 0], kind="stable")
        for j, chunk in enumerate(np.array_split(order, k)):
            labels[tuple(idx[chunk].T)] = j + 1
    elif kind == "stripes_c":
        order = np.argsort(idx[:, 1], kind="stable")
        for j, chunk in enumerate(np.array_split(order, k)):
            labels[tuple(idx[chunk].T)] = j + 1
    elif kind == "voronoi":
        seeds = draw(st.lists(st.integers(0, len(idx) - 1), min_size=k, max_size=k, unique=True))
        pts = idx[seeds]
        d = ((idx[:, None, :] - pts[None, :, :]) ** 2).sum(-1)
        labels[tuple(idx.T)] = np.argmin(d, axis=1) + 1
    elif kind == "interleave":
        labels[tuple(idx.T)] = (idx[:, 0] + idx[:, 1]) % k + 1
    else:
        kk = draw(st.integers(0, 2**31 - 1))
        lab = np.random.default_rng(kk).integers(1, k + 1, size=len(idx))
        lab[:k] = np.arange(1, k + 1)
        labels[tuple(idx.T)] = lab
    # compact labels (some may be empty)
    used = [v for v in range(1, k + 1) if np.any(labels == v)]
    out = np.zeros_like(labels)
    for j, v in enumerate(used):
        out[labels == v] = j + 1
    return out, kind


def bbox(mask):
    rows = np.flatnonzero(mask.any(axis=1))
    cols = np.flatnonzero(mask.any(axis=0))
    return int(rows[0]), int(rows[-1]), int(cols[0]), int(cols[-1])


@st.composite
def sampling(draw, in_shape, per_axis=True):
    """Optical sampling: wavelength, focal length, input/output pixel scales and
    oversample chosen so that alpha*n lands in [0.05, 1.5] per axis."""
    if draw(st.integers(0, 5)):
        wl = draw(finite(0.3e-6, 2e-6))
        z = draw(finite(0.5, 50.0))
        dx_r = draw(pos_log(1e-4, 1e-1))
    else:
        # the same dimensionless geometry expressed with unusual physical magnitudes (X-ray to sub-millimetre
        # wavelengths, micro-optics to long focal lengths, nanometre to metre sampling)
        wl = draw(pos_log(1e-9, 1e-3))
        z = draw(pos_log(1e-3, 1e3))
        dx_r = draw(pos_log(1e-8, 1.0))
    os_ = draw(st.integers(1, 4))
    dx_c = dx_r * (draw(finite(0.5, 2.0)) if per_axis and draw(st.booleans()) else 1.0)
    q_r = draw(finite(0.05, 1.5))      # alpha * n
    q_c = q_r * (draw(finite(0.5, 2.0)) if per_axis and draw(st.booleans()) else 1.0)
    if per_axis and draw(st.integers(0, 7)) == 0:
        # per-axis values that nearly coincide (equal, ulps apart, 1e-12..1e-3 apart)
        dx_c = draw(near(dx_r))
        q_c = draw(near(q_r)) * in_shape[1] / in_shape[0] if draw(st.booleans()) else q_c
    a_r = q_r / in_shape[0]
    a_c = q_c / in_shape[1]
    du_r = a_r * wl * z * os_ / dx_r
    du_c = a_c * wl * z * os_ / dx_c
    return {"wavelength": wl, "z": z, "oversample": os_, "dx": (dx_r, dx_c), "du": (du_r, du_c)}


# ---------------------------------------------------------------------------
# memory layout of caller arrays (value-preserving)

LAYOUTS = ["C", "C", "F", "strided", "reversed", "transposed_view", "big_endian"]


def layouts():
    return st.sampled_from(LAYOUTS)


def relayout(a, kind):
    """Return an array equal to ``a`` element for element but stored differently:
    Fortran order, a strided view into a larger buffer, a negatively strided view, or the
    transpose view of a C-ordered transpose."""
    a = np.asarray(a)
    if kind == "big_endian":
        return other_endian(a)
    if kind in (None, "C") or a.ndim < 2:
        return np.ascontiguousarray(a) if kind == "C" else a
    if kind == "F":
        return np.asfortranarray(a)
    if kind == "transposed_view":
        return np.ascontiguousarray(np.swapaxes(a, -1, -2)).swapaxes(-1, -2)
    if kind == "strided":
        big = np.zeros(a.shape[:-2] + (2 * a.shape[-2], 2 * a.shape[-1] + 1), dtype=a.dtype)
        view = big[..., ::2, 1::2]
        view[...] = a
        return view
    if kind == "reversed":
        # (negatively strided, and - for the many call sites that pick from their own short list of layouts - stored in
        # the other byte order as well: what astropy.io.fits hands back on a little-endian machine)
        return other_endian(np.ascontiguousarray(a[..., ::-1, ::-1]))[..., ::-1, ::-1]
    raise ValueError(kind)


def other_endian(a):
    """the same values stored in the non-native byte order (dtype '>f8' etc. on a little-endian machine)"""
    a = np.asarray(a)
    if a.dtype.kind not in "fiuc" or a.dtype.itemsize == 1:
        return a
    return a.astype(a.dtype.newbyteorder("S"))


def scales():
    """overall magnitude of an input array: mostly 1, sometimes tiny or huge (absolute tolerances such as
    np.allclose's default atol=1e-8 silently misbehave there)"""
    # (1e-18 / 1e-24: totals below machine epsilon as an ABSOLUTE number, e.g. frames in W per sample)
    return st.sampled_from([1.0, 1.0, 1.0, 1.0, 1.0, 1e-4, 1e-9, 1e-12, 1e6, 1e-18, 1e-24, 1e12])


BIG = [63, 64, 65, 96, 100, 127, 128, 129, 160]
HUGE = [255, 256, 257, 300, 511, 512, 513, 600, 700]


def big_dim(pool=None):
    """axis lengths at and around the usual implementation thresholds (64, 128, 256, 512)"""
    return st.sampled_from(pool or BIG)


# ---------------------------------------------------------------------------------------------------
# value forms of a mask whose membership is "non-zero" (lentil casts such masks with dtype=bool)

MASK_FORMS = ["int01", "int01", "bool", "float01", "label", "weights", "negative", "mixed_sign"]


def mask_forms():
    return st.sampled_from(MASK_FORMS)


def apply_mask_form(mask01, form, seed=0):
    """the same support expressed with other non-zero values (labels, weights, negative or mixed-sign numbers)"""
    sup = np.asarray(mask01) != 0
    rng = np.random.default_rng(seed)
    if form in (None, "int01"):
        return sup.astype(int)
    if form == "bool":
        return sup.copy()
    if form == "float01":
        return sup.astype(float)
    if form == "label":
        return sup.astype(int) * int(rng.integers(2, 9))
    if form == "weights":
        return np.where(sup, rng.uniform(0.05, 1.0, size=sup.shape), 0.0)
    if form == "negative":
        return -sup.astype(int) if seed % 2 else -np.where(sup, rng.uniform(0.05, 1.0, size=sup.shape), 0.0)
    if form == "mixed_sign":
        return np.where(sup, rng.choice([-1.0, 1.0, -0.5, 2.0], size=sup.shape), 0.0)
    raise ValueError(form)


# ---------------------------------------------------------------------------------------------------
# numeric types of scalar parameters (value-preserving: falls back to the plain Python number when the value is
# not exactly representable in the requested type)

SCALAR_TYPES = ["python", "python", "python", "uint8", "int8", "int16", "int32", "int64", "float32", "float64", "array0d",
                "uint16"]


def scalar_types():
    return st.sampled_from(SCALAR_TYPES)


def typed_scalar(v, kind):
    if kind in (None, "python"):
        return v
    if kind == "array0d":
        return np.array(v)
    dt = np.dtype(kind)
    if dt.kind in "iu":
        if float(v) != int(v):
            return v
        info = np.iinfo(dt)
        if not info.min <= int(v) <= info.max:
            return v
        return dt.type(int(v))
    t = dt.type(v)
    return t if float(t) == float(v) else v

INT_TYPES = ["python", "python", "int64", "int32", "int16", "uint8", "uint16", "int8", "array0d"]


def typed_int(v, selector):
    """v as one of INT_TYPES chosen by an integer selector already present in the case (value-preserving)"""
    return typed_scalar(int(v), INT_TYPES[int(selector) % len(INT_TYPES)])


# ---------------------------------------------------------------------------------------------------
# nearly coinciding values: equal, a few ulps apart, or a small relative step apart

NEAR_STEPS = [0.0, 1e-3, 1e-4, 1e-5, 3e-6, 1e-6, 1e-7, 1e-8, 1e-10, 1e-12]


@st.composite
def near(draw, a):
    """a value equal to ``a``, a few ulps from it, or 1e-12 .. 1e-3 (relative) away, on either side"""
    step = draw(st.sampled_from(NEAR_STEPS + ["ulp", "ulp2"]))
    sign = draw(st.sampled_from([-1.0, 1.0]))
    if step == "ulp":
        return float(np.nextafter(a, a + sign * abs(a) + sign))
    if step == "ulp2":
        b = float(np.nextafter(a, a + sign * abs(a) + sign))
        return float(np.nextafter(b, b + sign * abs(b) + sign))
    return float(a * (1.0 + sign * step))


# ---------------------------------------------------------------------------------------------------
# frames of more than a million samples with sizes of no special form (not powers of two, not round numbers)

@st.composite
def mega_shape(draw):
    kind = draw(st.sampled_from(["squarish", "squarish", "tall", "wide"]))
    if kind == "squarish":
        m = draw(st.integers(1030, 1500))
        n = draw(st.integers(2**20 // m + 1, 1500))
    else:
        m = draw(st.integers(2050, 3000))
        n = draw(st.integers(2**20 // m + 1, 900))
        if kind == "wide":
            m, n = n, m
    return (m, n)


# ---------------------------------------------------------------------------------------------------
# container types of list-like arguments (same elements, same order where order matters)

def as_container(items, selector, ordered=True, array_like=False):
    """items as a list / tuple / ndarray / range (when an arithmetic progression of ints) / set / frozenset / deque /
    dict keys, chosen by an integer selector; unordered containers only when ``ordered`` is False"""
    import collections
    items = list(items)
    # array_like parameters (numpy converts them): sequences only; membership-only parameters: any container
    forms = ["list", "tuple", "ndarray", "range", "deque"] if array_like else \
        ["list", "tuple", "ndarray", "range", "deque", "dict_keys"] + ([] if ordered else ["set", "frozenset"])
    f = forms[int(selector) % len(forms)]
    if f == "tuple":
        return tuple(items), f
    if f == "ndarray" and items:
        return np.asarray(items), f
    if f == "range" and len(items) >= 1 and all(isinstance(i, (int, np.integer)) for i in items):
        step = items[1] - items[0] if len(items) > 1 else 1
        if step > 0 and all(b - a == step for a, b in zip(items, items[1:])):
            return range(items[0], items[-1] + 1, step), f
    if f == "deque":
        return collections.deque(items), f
    if f == "dict_keys" and len(set(items)) == len(items):
        return dict.fromkeys(items).keys(), f
    if f == "set":
        return set(items), f
    if f == "frozenset":
        return frozenset(items), f
    return items, "list"


def has_block(seg, b):
    """True if the boolean array contains a solid b x b block"""
    m, n = seg.shape
    if b > m or b > n:
        return False
    ii = np.zeros((m + 1, n + 1), dtype=int)
    ii[1:, 1:] = np.cumsum(np.cumsum(seg != 0, axis=0), axis=1)
    tot = ii[b:, b:] - ii[:-b, b:] - ii[b:, :-b] + ii[:-b, :-b]
    return bool(np.any(tot == b * b))


# ---------------------------------------------------------------------------------------------------
# array classes: lentil takes "array_like" arguments through np.asarray, i.e. the plain data of whatever it is given

class TaggedArray(np.ndarray):
    """a do-nothing ndarray subclass (what np.memmap, astropy-style containers etc. look like to np.asarray)"""


ARRAY_CLASSES = ["ndarray", "ndarray", "ndarray", "ndarray", "masked", "masked", "masked_nomask", "subclass"]


def array_class(arr, selector):
    """``arr`` as a plain ndarray, as a numpy MaskedArray whose underlying data are ``arr`` (about one sample in six
    flagged, e.g. a measured surface map with bad pixels: np.asarray() of it is the data) or as a trivial ndarray
    subclass, chosen by an integer already in the case.  Returns (array, class name)."""
    arr = np.asarray(arr)
    c = ARRAY_CLASSES[int(selector) % len(ARRAY_CLASSES)]
    if arr.ndim == 0 or c == "ndarray":
        return arr, "ndarray"
    if c == "masked":
        rng = np.random.default_rng(int(selector) % (2**31))
        flags = rng.uniform(size=arr.shape) < 0.17
        return np.ma.MaskedArray(arr.copy(), mask=flags, fill_value=1e20 if arr.dtype.kind == "f" else None), c
    if c == "masked_nomask":
        return np.ma.MaskedArray(arr.copy()), c
    return arr.copy().view(TaggedArray), c
